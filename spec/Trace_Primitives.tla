--------------------------- MODULE Trace_Primitives ---------------------------
(***************************************************************************)
(* Trace validation of the mesh primitives (extension check `primitives`)  *)
(* against Primitives.tla.  One ndjson line per event:                     *)
(*                                                                         *)
(*  Begin {nv0, s, obs}      nv0 fresh Vertex objects; s = projected heap, *)
(*                           obs = answers of the query methods            *)
(*  Step  {op: {op, i, a, b, cyc}, ret: {t, x}, raised, unr, s, obs, big}  *)
(*        one public call on the real objects: what it returned, the class *)
(*        of the exception that escaped, the number of exceptions          *)
(*        swallowed in destructors, the heap and the query answers AFTER   *)
(*        the call.  s has the shape of the model state (Primitives.tla):  *)
(*        liveness of an object is OBSERVED (weak reference), d / p say    *)
(*        whether the dict / a stray reference still hold it.              *)
(*        obs = {eo, vi, sg, nx, pv, ce, nb}: get_other_vertex_id per edge *)
(*        and vertex, get_vertices_id (a, b = get_vertices_array),         *)
(*        get_area_sign, get_next_vertex / get_previous_vertex per         *)
(*        cell and vertex (0 = raised), get_edges / calculate_neighbors    *)
(*        per cell as {raised, x}.  big = {edges, cells} of a new BigEdge. *)
(*                                                                         *)
(* Verdict per event (total; every index into recorded data is guarded):   *)
(*  PRIM.step.*   the recorded successor / return value / exception IS the *)
(*                model action's (PStep from the previous recorded state)  *)
(*  PRIM.obs.*    the query answers are the model's functions of the       *)
(*                recorded state                                           *)
(*  declarative clauses (PJudgeState, PJudgeStep, navigation, closed cell  *)
(*  edges) evaluated on the RECORDED pre / post states; instances matched  *)
(*  by a KF_* predicate are reported as known findings.                    *)
(* The next step is judged from the recorded state (re-synchronised), so   *)
(* one deviation yields one verdict.                                       *)
(***************************************************************************)
EXTENDS Primitives, TraceKit

VARIABLES l, st, hist
tvars == <<l, st, hist>>
Init == l = 1 /\ st = PInit(0) /\ hist = PHist0

IsNat(x) == x \in Nat
SeqOK(q, n) == DOMAIN q = 1..n
\* shape of a recorded heap (so that nothing below can index out of range)
ShapeS(s) ==
  /\ {"nv", "oe", "oc", "ob", "E", "C", "B"} \subseteq DOMAIN s
  /\ s.nv \in 0..64
  /\ Len(s.oe) = s.nv /\ Len(s.oc) = s.nv /\ Len(s.ob) = s.nv
  /\ \A h \in 1..s.nv : \A j \in DOMAIN s.oe[h] : s.oe[h][j] \in -1..1000
  /\ \A h \in 1..s.nv : \A j \in DOMAIN s.oc[h] : s.oc[h][j] \in -1..1000
  /\ \A h \in 1..s.nv : \A j \in DOMAIN s.ob[h] : s.ob[h][j] \in -1..1000
  /\ \A k \in DOMAIN s.E : /\ DOMAIN s.E[k] = {"id", "a", "b", "d", "p"}
                           /\ s.E[k].d \in BOOLEAN /\ s.E[k].p \in BOOLEAN
                           /\ IF PLive(s.E[k]) THEN s.E[k].a \in 1..s.nv /\ s.E[k].b \in 1..s.nv /\ s.E[k].id \in 0..1000
                              ELSE s.E[k].a \in 0..s.nv /\ s.E[k].b \in 0..s.nv /\ s.E[k].id \in -1..1000
  /\ \A k \in DOMAIN s.C : /\ DOMAIN s.C[k] = {"id", "vs", "d", "p"}
                           /\ s.C[k].d \in BOOLEAN /\ s.C[k].p \in BOOLEAN
                           /\ s.C[k].id \in -1..1000 /\ \A j \in DOMAIN s.C[k].vs : s.C[k].vs[j] \in 1..s.nv
                           /\ PLive(s.C[k]) => s.C[k].id >= 0
  /\ \A j \in DOMAIN s.B : DOMAIN s.B[j] = {"id", "vs"} /\ s.B[j].id \in 0..1000
                           /\ \A n \in DOMAIN s.B[j].vs : s.B[j].vs[n] \in 1..s.nv
\* an object that is ALIVE (observed through its weak reference) although neither its dict nor the modelled stray reference
\* holds it: something else keeps it from being destroyed (the slot is recorded with d = p = FALSE but not as PFreeE)
Ghosts(s) == {k \in DOMAIN s.E : ~PLive(s.E[k]) /\ s.E[k] # PFreeE} \cup {k \in DOMAIN s.C : ~PLive(s.C[k]) /\ s.C[k] # PFreeC}
GhostFails(s) == IF Ghosts(s) # {} THEN {"PRIM.lifetime.destroyed_with_last_reference"} ELSE {}
NormS(s) == [nv |-> s.nv, oe |-> s.oe, oc |-> s.oc, ob |-> s.ob,
             E |-> PTrim([k \in DOMAIN s.E |-> IF PLive(s.E[k]) THEN s.E[k] ELSE PFreeE]),
             C |-> PTrim([k \in DOMAIN s.C |-> IF PLive(s.C[k]) THEN s.C[k] ELSE PFreeC]), B |-> s.B]
ShapeObs(s, ob) ==
  /\ {"eo", "vi", "sg", "nx", "pv", "ce", "nb"} \subseteq DOMAIN ob
  /\ Len(ob.eo) = Len(s.E) /\ Len(ob.vi) = Len(s.E) /\ Len(ob.sg) = Len(s.C) /\ Len(ob.nx) = Len(s.C) /\ Len(ob.pv) = Len(s.C)
  /\ Len(ob.ce) = Len(s.C) /\ Len(ob.nb) = Len(s.C)
  /\ \A k \in DOMAIN s.E : Len(ob.eo[k]) \in (IF PLive(s.E[k]) THEN {s.nv} ELSE {0, s.nv}) /\ \A h \in DOMAIN ob.eo[k] : ob.eo[k][h] \in 0..s.nv
  /\ \A k \in DOMAIN s.C : /\ Len(ob.nx[k]) \in (IF PLive(s.C[k]) THEN {s.nv} ELSE {0, s.nv}) /\ Len(ob.pv[k]) = Len(ob.nx[k])
                           /\ \A h \in DOMAIN ob.nx[k] : ob.nx[k][h] \in 0..s.nv /\ ob.pv[k][h] \in 0..s.nv
                           /\ ob.sg[k] \in {-1, 0, 1}
                           /\ DOMAIN ob.ce[k] = {"raised", "x"} /\ DOMAIN ob.nb[k] = {"raised", "x"}
ShapeOp(o) == DOMAIN o = {"op", "i", "a", "b", "cyc"} /\ o.i \in -1..1000 /\ o.a \in 0..64 /\ o.b \in 0..64
ShapeStep(e) == /\ {"op", "ret", "raised", "unr", "s", "obs", "big"} \subseteq DOMAIN e
                /\ DOMAIN e.ret = {"t", "x"} /\ e.unr \in 0..64

\* the query answers against the model's functions of the recorded state
ObsFails(s, ob) ==
  LET m == PObs(s) IN
  (IF \E k \in PLiveE(s) : ob.eo[k] # m.eo[k] THEN {"PRIM.obs.other_end"} ELSE {}) \cup
  (IF \E k \in PLiveE(s) : ob.vi[k] # <<s.E[k].a, s.E[k].b>> THEN {"PRIM.obs.vertices_id"} ELSE {}) \cup
  (IF \E k \in PLiveC(s) : ob.sg[k] # m.sg[k] THEN {"PRIM.obs.area_sign"} ELSE {}) \cup
  (IF \E k \in PLiveC(s) : ob.nx[k] # m.nx[k] THEN {"PRIM.obs.next"} ELSE {}) \cup
  (IF \E k \in PLiveC(s) : ob.pv[k] # m.pv[k] THEN {"PRIM.obs.prev"} ELSE {}) \cup
  (IF \E k \in PLiveC(s) : ~PCellEdgesOK(s, s.C[k], ob.ce[k]) THEN {"PRIM.obs.cell_edges"} ELSE {}) \cup
  (IF \E k \in PLiveC(s) : ~PNeighborsOK(s, s.C[k], ob.nb[k]) THEN {"PRIM.obs.neighbors"} ELSE {})
\* declarative clauses on the query answers
NavCells(s, ob) == {k \in PLiveC(s) : NoDup(s.C[k].vs) /\ ob.sg[k] # 0}
NavFails(s, ob) == IF \E k \in NavCells(s, ob) : ~PDNavOK(s.C[k].vs, ob.sg[k], ob.nx[k], ob.pv[k])
                   THEN {"PRIM.next_prev_inverse"} ELSE {}
OpenCells(s, ob) == {k \in PLiveC(s) : ~PCellEdgesClosed(s, s.C[k], ob.ce[k])}
ClosedFails(s, ob) == IF \E k \in OpenCells(s, ob) : ~KF_CellEdgesOpen(s, s.C[k], ob.ce[k]) THEN {"PRIM.cell_edges_closed"} ELSE {}
ClosedKF(s, ob) == IF \E k \in OpenCells(s, ob) : KF_CellEdgesOpen(s, s.C[k], ob.ce[k]) THEN {"KF_CellEdgesOpen:PRIM.cell_edges_closed"} ELSE {}
ClosedApplies(s) == \E k \in PLiveC(s) : LET vs == s.C[k].vs  n == Len(vs) IN
                       n >= 3 /\ \A j \in 1..n : PCommonE(s, vs[j], vs[Nxt(j, n)]) # {}

\* a new BigEdge: edges[j] is a mesh edge common to path[j], path[j+1]; own_cells = the cells common to both ends
\* (two points) or the list of the middle vertex; pre = the heap before the call (own lists of cells and edges are
\* not touched by the constructor)
BigOK(pre, o, big) ==
  LET vs == o.cyc  n == Len(vs) IN
  /\ DOMAIN big = {"edges", "cells"}
  /\ Len(big.edges) = n - 1 /\ \A j \in 1..(n - 1) : big.edges[j] \in PCommonE(pre, vs[j], vs[j + 1])
  /\ IF n = 2 THEN PRg(big.cells) = PRg(pre.oc[vs[1]]) \cap PRg(pre.oc[vs[2]]) /\ NoDup(big.cells)
     ELSE big.cells = pre.oc[vs[((n - 1) \div 2) + 1]]

StepFails(pre, o, r, e) ==
  (IF e.s.nv # r.s.nv THEN {"PRIM.step.nv"} ELSE {}) \cup
  (IF e.s.oe # r.s.oe THEN {"PRIM.step.own_edges"} ELSE {}) \cup
  (IF e.s.oc # r.s.oc THEN {"PRIM.step.own_cells"} ELSE {}) \cup
  (IF e.s.ob # r.s.ob THEN {"PRIM.step.own_big_edges"} ELSE {}) \cup
  (IF NormS(e.s).E # r.s.E THEN {"PRIM.step.edges"} ELSE {}) \cup
  (IF NormS(e.s).C # r.s.C THEN {"PRIM.step.cells"} ELSE {}) \cup
  (IF e.s.B # r.s.B THEN {"PRIM.step.big_edges"} ELSE {}) \cup
  (IF e.ret # r.ret THEN {"PRIM.step.ret"} ELSE {}) \cup
  (IF e.raised # r.raised THEN {"PRIM.step.raised"} ELSE {}) \cup
  (IF e.unr # r.unr THEN {"PRIM.step.unraisable"} ELSE {}) \cup
  (IF o.op = "NewBigEdge" /\ e.raised = "" /\ r.raised = "" /\ ~BigOK(pre, o, e.big) THEN {"PRIM.obs.big_edge"} ELSE {})

DoBegin(e) ==
  /\ e.ev = "Begin"
  /\ LET ok == {"nv0", "s", "obs"} \subseteq DOMAIN e /\ e.nv0 \in 0..64 /\ ShapeS(e.s) /\ ShapeObs(e.s, e.obs)
         fails == IF ~ok THEN {"PRIM.malformed"}
                  ELSE (IF NormS(e.s) # PInit(e.nv0) THEN {"PRIM.step.fresh"} ELSE {}) \cup GhostFails(e.s)
     IN  /\ EmitV(e, fails, {}, {}, {}, FALSE)
         /\ st' = IF ok THEN NormS(e.s) ELSE PInit(0)
         /\ hist' = PHist0

DoStep(e) ==
  /\ e.ev = "Step"
  /\ LET ok == ShapeStep(e) /\ ShapeOp(e.op) /\ PWellFormed(st, e.op) /\ ShapeS(e.s) /\ ShapeObs(e.s, e.obs)
     IN  IF ~ok THEN EmitV(e, {"PRIM.malformed"}, {}, {}, {}, FALSE) /\ UNCHANGED <<st, hist>>
         ELSE \E r \in {PStep(st, e.op)} : \E h1 \in {PHistNext(hist, st, e.op, r)} :
              LET o  == e.op
                  s1 == NormS(e.s)
                  js == PJudgeState(s1, h1)
                  jd == PJudgeStep(st, hist, o, s1, e.ret, e.raised, e.unr)
                  fails == StepFails(st, o, r, e) \cup GhostFails(e.s) \cup (IF Ghosts(e.s) = {} THEN ObsFails(s1, e.obs) ELSE {})
                           \cup js.fails \cup jd.fails
                           \cup NavFails(s1, e.obs) \cup ClosedFails(s1, e.obs)
                  kf == js.kf \cup jd.kf \cup ClosedKF(s1, e.obs)
                  hits == {"PRIM.step." \o o.op} \cup js.hits \cup jd.hits
                          \cup (IF NavCells(s1, e.obs) # {} THEN {"PRIM.next_prev_inverse"} ELSE {})
                          \cup (IF ClosedApplies(s1) THEN {"PRIM.cell_edges_closed"} ELSE {})
                          \cup (IF e.raised # "" THEN {"PRIM.refused." \o o.op} ELSE {})
                          \cup (IF ~PNoZombie(s1) THEN {"PRIM.zombie"} ELSE {})
              IN  /\ EmitV(e, fails, kf, hits, {}, FALSE)
                  /\ st' = s1
                  /\ hist' = h1

Next == /\ l <= Len(TR)
        /\ LET e == TR[l] IN DoBegin(e) \/ DoStep(e)
        /\ l' = l + 1
Spec == Init /\ [][Next]_tvars
Done == TLCGet("stats").diameter - 1 = Len(TR)
=============================================================================

--------------------------- MODULE Trace_Resample ---------------------------
(* Trace validation of mesh resampling (C11). Events of one case:              *)
(*   Mesh     : {mesh, raised, src}    snapshot before the first call          *)
(*   Resample : {ne, rse, again, raised, mesh, lk, arr}                        *)
(*              snapshot after generate_mesh(ne, replace_short_edges = rse),   *)
(*              linked by original ids to the previous snapshot; `again` marks *)
(*              the second call on the result of the first (idempotence).      *)
(* Clauses: C11.* of Resample.tla, C11.idempotent, C11.raised; the consistency *)
(* of the result is reported under C09.* names (it is C09's, the driver does   *)
(* not count it against C11).  Drift: the logged result against the            *)
(* transcription ImplResample, first call, meshes of at most DriftCap vertices.*)
EXTENDS Resample, TraceKit

VARIABLES l, m, par, chn     \* par / chn: the mesh given to the first call had parallel edges / a chain (R6)
vars == <<l, m, par, chn>>

EPS      == 20          \* 2e-5 in logged units (tissue scaled into +-400): quantisation <= 2 ulp
DriftCap == 260
NoMesh   == [nv |-> -1]

\* Known finding: the mesh given to the first call has two mesh edges with the same ends (the skeleton
\* parser's T3 merge of two adjacent artefact triangles leaves such a pair).  create_edges_new counts
\* both, so a vertex with 2 neighbours is a junction before the call and an ordinary point after it:
\* the result of the first call is not a fixed point and keeps an interface with more than ne segments.
HasParallel(mm) == Cardinality({{mm.E[e][1], mm.E[e][2]} : e \in Ed(mm)}) < mm.ne

Init == l = 1 /\ m = NoMesh /\ par = FALSE /\ chn = FALSE

DoMesh(e) ==
  /\ e.ev = "Mesh"
  /\ EmitV(e, IF e.raised # "" THEN {"C11.input_raised"} ELSE {}, {}, {}, {}, FALSE)
  /\ m' = IF e.raised # "" THEN NoMesh ELSE e.mesh
  /\ par' = FALSE /\ chn' = FALSE

DoResample(e) ==
  /\ e.ev = "Resample"
  /\ LET ok  == e.raised = ""
         v   == IF m.nv < 0 THEN [fails |-> {"C11.no_mesh"}, kf |-> {}, hits |-> {}, rejected |-> FALSE, chain |-> FALSE]
                ELSE IF ~ok THEN C11Raised(m, e.ne, e.rse)
                ELSE IF ~LinkOK(m, e.mesh, e.lk) \/ ~PosInRange(e.mesh)
                     THEN [fails |-> {"C11.harness_link"}, kf |-> {}, hits |-> {}, rejected |-> FALSE, chain |-> FALSE]
                ELSE C11Eval(m, e.mesh, e.lk, e.ne, e.rse, EPS)
         idem0 == IF e.again /\ ok /\ m.nv >= 0 /\ "C11.harness_link" \notin v.fails /\ ~Unchanged(m, e.mesh, e.lk)
                  THEN {"C11.idempotent"} ELSE {}
         \* R6: a chain cannot be contracted interface by interface AND be a fixed point (what is left of it is
         \* again a two-point border interface): idempotence is not demanded of inputs with a chain
         idem == IF par \/ chn THEN {} ELSE idem0
         idkf == IF par /\ idem0 # {} THEN {"KF_ParallelEdges:C11.idempotent"} ELSE {}
         c09  == IF ok THEN Consistent(e.mesh) ELSE {}
         hits == v.hits \cup (IF e.again /\ ok /\ ~chn THEN {"C11.idempotent"} ELSE {})
                        \cup (IF v.chain THEN {"C11.chain_input"} ELSE {})
         drift == IF m.nv < 0 \/ m.nv > DriftCap \/ e.again \/ v.rejected \/ "C11.harness_link" \in v.fails THEN {}
                  ELSE ImplDrift(m, IF ok THEN e.mesh ELSE NoMesh, IF ok THEN e.arr ELSE <<>>, e.raised,
                                 e.ne, e.rse, EPS)
     IN  EmitV(e, v.fails \cup idem \cup c09, v.kf \cup idkf, hits, drift, v.rejected)
  /\ m' = IF e.raised # "" THEN NoMesh ELSE e.mesh
  /\ par' = IF e.again THEN par ELSE (m.nv >= 0 /\ HasParallel(m))
  /\ chn' = IF e.again THEN chn ELSE (m.nv >= 0 /\ ChainInput(m, e.ne, e.rse))

Next == /\ l <= Len(TR)
        /\ LET e == TR[l] IN DoMesh(e) \/ DoResample(e)
        /\ l' = l + 1

Spec == Init /\ [][Next]_vars
Done == TLCGet("stats").diameter - 1 = Len(TR)
=============================================================================

SPECIFICATION Spec
CONSTANTS NF = 2
          MaxGen = 3
          MaxVer = 3
          MaxDepth = 6
CONSTRAINT Bound
VIEW View
INVARIANT TypeOK
INVARIANT InvStalenessX
INVARIANT InvRecomputedX
INVARIANT InvRebuildX
PROPERTY PropIsolatedX
PROPERTY PropRefusalX
PROPERTY PropQueryPure
PROPERTY PropRefinesPipeline
CHECK_DEADLOCK FALSE

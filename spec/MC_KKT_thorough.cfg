SPECIFICATION Spec
CONSTANT CoefRange <- CoefRangeDef
CONSTANT RhsRange <- RhsRangeDef
CONSTANT G = 2
CONSTANT ZMax = 6
INVARIANT Sound
INVARIANT GradientIdentity
INVARIANT BestLamIsBest
CHECK_DEADLOCK FALSE

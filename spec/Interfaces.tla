---------------------------- MODULE Interfaces ----------------------------
(***************************************************************************)
(* Decomposition of a mesh into interfaces ("big edges") — property C08.   *)
(*                                                                         *)
(* D (declarative): the interfaces are the maximal vertex paths between    *)
(*    junctions (vertices with >= 3 mesh edges) through degree-2 vertices. *)
(* I (implementation-shaped): create_edges_new + get_partition, cell by    *)
(*    cell, rotate to the first junction, split before every junction,     *)
(*    drop duplicates in either direction.                                 *)
(***************************************************************************)
EXTENDS Mesh

LOCAL Rng(s) == {s[i] : i \in DOMAIN s}
Rev(s) == [i \in DOMAIN s |-> s[Len(s) + 1 - i]]
\* cheaper canonical form for one path: compare lexicographically with its reversal
RECURSIVE LexLE(_, _, _)
LexLE(a, b, i) == IF i > Len(a) THEN TRUE ELSE IF a[i] < b[i] THEN TRUE ELSE IF a[i] > b[i] THEN FALSE ELSE LexLE(a, b, i + 1)
Can(p) == IF LexLE(p, Rev(p), 1) THEN p ELSE Rev(p)

(*********************************** D *************************************)
RECURSIVE Walk(_, _, _)
Walk(m, path, lastEdge) ==
  LET v == path[Len(path)] IN
  IF Deg(m, v) # 2 THEN path
  ELSE LET e == CHOOSE e \in Rng(m.oe[v]) : e # lastEdge
       IN  Walk(m, Append(path, Other(m, e, v)), e)

Junctions(m) == {v \in V(m) : IsJunction(m, v)}
Paths(m) == UNION { { Can(Walk(m, <<v, Other(m, m.oe[v][i], v)>>, m.oe[v][i])) : i \in DOMAIN m.oe[v] }
                    : v \in Junctions(m) }

\* classification, stated on vertices only
InternalPath(m, p) == /\ \A i \in DOMAIN p : NCells(m, p[i]) >= 2
                      /\ (NCells(m, p[1]) >= 3 \/ NCells(m, p[Len(p)]) >= 3)

\* mesh edges along a path
PathEdges(m, p) == {e \in Ed(m) : \E i \in 1..(Len(p) - 1) : Ends(m, e) = {p[i], p[i + 1]}}

\* the cells an interface separates: cells whose cycle contains its first mesh edge
ConsecutiveIn(cyc, a, b) == \E i \in DOMAIN cyc : {cyc[i], cyc[Nxt(i, Len(cyc))]} = {a, b}
SepCells(m, p) == {c \in Rng(m.oc[p[1]]) : c \in Ce(m) /\ ConsecutiveIn(m.C[c], p[1], p[2])}

(*********************************** I *************************************)
\* split a sequence before every position whose flag is TRUE (numpy.split at np.where(flags))
RECURSIVE SplitAt(_, _, _, _, _)
SplitAt(ids, flags, i, cur, acc) ==
  IF i > Len(ids) THEN Append(acc, cur)
  ELSE IF flags[i] THEN SplitAt(ids, flags, i + 1, <<ids[i]>>, Append(acc, cur))
       ELSE SplitAt(ids, flags, i + 1, Append(cur, ids[i]), acc)
Partition(ids, flags) == SplitAt(ids, flags, 1, <<>>, <<>>)

RECURSIVE Concat(_, _)
Concat(ss, i) == IF i > Len(ss) THEN <<>> ELSE ss[i] \o Concat(ss, i + 1)

CellInterfaces(m, c) ==
  LET ids   == m.C[c]
      flags == [i \in DOMAIN ids |-> IsJunction(m, ids[i])]
      p0    == Partition(ids, flags)
      p1    == IF Len(ids) > 0 /\ ~flags[1]
               THEN LET order == Concat(Tail(p0), 1) \o p0[1]
                        nf    == [i \in DOMAIN order |-> IsJunction(m, order[i])]
                    IN  Partition(order, nf)
               ELSE p0
      ps    == Tail(p1)
      n     == Len(ps)
  IN  [i \in 1..n |-> Append(ps[i], ps[Nxt(i, n)][1])]

RECURSIVE AllCellInterfaces(_, _)
AllCellInterfaces(m, c) == IF c > m.nc THEN <<>> ELSE CellInterfaces(m, c) \o AllCellInterfaces(m, c + 1)

RECURSIVE DedupRev(_, _, _)
DedupRev(s, acc, seen) == IF Len(s) = 0 THEN acc
                          ELSE LET c == Can(Head(s)) IN
                               IF c \in seen THEN DedupRev(Tail(s), acc, seen)
                               ELSE DedupRev(Tail(s), Append(acc, Head(s)), seen \cup {c})
ImplInterfaces(m) == DedupRev(AllCellInterfaces(m, 1), <<>>, {})

(****************************** C08 verdict ********************************)
(* f: projected frame record:                                              *)
(*   f.ifaces[i]      vertex sequence of the i-th listed interface         *)
(*   f.ext_flag[i]    BigEdge.external                                     *)
(*   f.ext_ids[i]     i listed in Frame.external_edges_id                  *)
(*   f.internal[k]    index (into ifaces) of the k-th internal_big_edges   *)
(*   f.internal_v[k]  vertex sequence of k-th internal_big_edges_vertices  *)
(*   f.own_cells[i]   sequence of cell indices                             *)
(*   f.edges[i]       sequence of mesh-edge indices                        *)
(*   f.table[k]       interface index of k-th row of get_tensions()        *)
(*   f.table_border[k] same with with_border=True                          *)
(*   f.lookup         sequence of <<cellA, cellB, result iface or 0/-1>>   *)
(***************************************************************************)
IfaceSet(f) == {Can(f.ifaces[i]) : i \in DOMAIN f.ifaces}
InternalIdx(m, f) == {i \in DOMAIN f.ifaces : InternalPath(m, f.ifaces[i])}
RECURSIVE SumLen(_, _)
SumLen(ps, i) == IF i > Len(ps) THEN 0 ELSE Len(ps[i]) - 1 + SumLen(ps, i + 1)
PairSet(f) == UNION {{ {f.ifaces[i][j], f.ifaces[i][j + 1]} : j \in 1..(Len(f.ifaces[i]) - 1)} : i \in DOMAIN f.ifaces}

DecompOK(m, f)    == IfaceSet(f) = Paths(m)
NoDupOK(m, f)     == Cardinality(IfaceSet(f)) = Len(f.ifaces)
PartitionOK(m, f) == \* every mesh edge of a cell that has a junction lies in exactly one interface
  LET cellsWithJ == {c \in Ce(m) : \E i \in DOMAIN m.C[c] : IsJunction(m, m.C[c][i])}
      need == UNION {{ {m.C[c][i], m.C[c][Nxt(i, Len(m.C[c]))]} : i \in DOMAIN m.C[c]} : c \in cellsWithJ}
      ps   == PairSet(f)
  IN  need \subseteq ps /\ Cardinality(ps) = SumLen(f.ifaces, 1)
ClassFlagOK(m, f)  == \A i \in DOMAIN f.ifaces : f.ext_flag[i] = ~InternalPath(m, f.ifaces[i])
ClassListOK(m, f)  == {f.internal[k] : k \in DOMAIN f.internal} = InternalIdx(m, f)
                      /\ Len(f.internal) = Cardinality(InternalIdx(m, f))
TwoCellsBad(m, f)  == {i \in InternalIdx(m, f) :
                         ~(/\ Len(f.own_cells[i]) = 2 /\ f.own_cells[i][1] # f.own_cells[i][2]
                           /\ Rng(f.own_cells[i]) = SepCells(m, f.ifaces[i]))}
\* Known finding (DESIGN §5.3): a TWO-point interface on a ragged border whose two ends both touch
\* >= 2 cells (one of them >= 3) satisfies the vertex rule for "internal" although it borders one
\* cell only; the code reports that single cell. The statement's two sentences conflict there.
KF_BorderTwoPoint(m, f, i) == LET p == f.ifaces[i] IN
                         /\ Len(p) = 2 /\ Cardinality(SepCells(m, p)) = 1
                         /\ Rng(f.own_cells[i]) = SepCells(m, p)
TwoCellsOK(m, f)   == \A i \in TwoCellsBad(m, f) : KF_BorderTwoPoint(m, f, i)
EdgesOK(m, f)      == \A i \in DOMAIN f.ifaces : LET p == f.ifaces[i] IN
                         /\ Len(f.edges[i]) = Len(p) - 1
                         /\ \A j \in DOMAIN f.edges[i] : f.edges[i][j] \in Ed(m) /\ Ends(m, f.edges[i][j]) = {p[j], p[j + 1]}
TableOK(m, f)      == /\ f.table_raised = ""
                      /\ {f.table[k] : k \in DOMAIN f.table} = InternalIdx(m, f)
                      /\ Len(f.table) = Cardinality(InternalIdx(m, f))
LookupOK(m, f)     == \* an interface with an interior point that is the only common interface of its two cells
  LET sepOf == {<<i, SepCells(m, f.ifaces[i])>> : i \in DOMAIN f.ifaces} IN
  \A k \in DOMAIN f.lookup : LET a == f.lookup[k][1] b == f.lookup[k][2] r == f.lookup[k][3]
       common == {p[1] : p \in {q \in sepOf : {a, b} \subseteq q[2]}}
   IN (Cardinality(common) = 1 /\ \A i \in common : Len(f.ifaces[i]) > 2) => r \in common

\* drift-only (not demanded by C08): Frame.external_edges_id is the "some vertex has < 2 cells" copy
ClassBorderOK(m, f) == \A i \in DOMAIN f.ifaces :
                          f.ext_ids[i] = (\E j \in DOMAIN f.ifaces[i] : NCells(m, f.ifaces[i][j]) < 2)
ImplMatches(m, f)   == f.ifaces = ImplInterfaces(m)

C08Verdict(m, f) ==
  {c \in {"C08.decomposition", "C08.no_duplicates", "C08.partition", "C08.class_flag", "C08.class_list",
          "C08.two_cells", "C08.edges", "C08.table", "C08.lookup"} :
     \/ c = "C08.decomposition" /\ ~DecompOK(m, f)
     \/ c = "C08.no_duplicates" /\ ~NoDupOK(m, f)
     \/ c = "C08.partition"     /\ ~PartitionOK(m, f)
     \/ c = "C08.class_flag"    /\ ~ClassFlagOK(m, f)
     \/ c = "C08.class_list"    /\ ~ClassListOK(m, f)
     \/ c = "C08.two_cells"     /\ ~TwoCellsOK(m, f)
     \/ c = "C08.edges"         /\ ~EdgesOK(m, f)
     \/ c = "C08.table"         /\ ~TableOK(m, f)
     \/ c = "C08.lookup"        /\ ~LookupOK(m, f)}
C08KF(m, f) == {c \in {"KF_BorderTwoPoint:C08.two_cells"} :
     c = "KF_BorderTwoPoint:C08.two_cells" /\ \E i \in TwoCellsBad(m, f) : KF_BorderTwoPoint(m, f, i)}
C08Drift(m, f) == {c \in {"drift.class_border", "drift.impl_order"} :
     \/ c = "drift.class_border" /\ ~ClassBorderOK(m, f)
     \/ c = "drift.impl_order"   /\ ~ImplMatches(m, f)}
=============================================================================

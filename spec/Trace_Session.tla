---------------------------- MODULE Trace_Session ----------------------------
(***************************************************************************)
(* Trace validation of real `ForSys` sessions against Session.tla (C10).    *)
(* Events (one per line, see harness/props/c10.py):                         *)
(*   Begin : {struct}          structure of the series the case was run on  *)
(*   Call  : {op, t, limit, fit, method, bm, frames, snapid, raised, obs}   *)
(*           obs = everything observable after the call, floats projected   *)
(*           to label sets: obs.vt[k] = labels of the k-th distinct value,  *)
(*           all other fields hold indices k into obs.vt.                   *)
(* Labels (integers):  0 = 0.0   1 = -1.0   2 = None/NaN                    *)
(*   1000 + KeyId*32 + i   = i-th entry of the FRESH-OBJECT solution for    *)
(*                           (t, limit, fit, method, b_matrix) = KeyId      *)
(*   100000 + snap*16 + c  = pressure of cell c on a FRESH object whose     *)
(*                           interfaces carry tension snapshot `snap`       *)
(*   negative              = some other value (interned per case)           *)
(* Two layers (DESIGN 2.2):                                                 *)
(*   I  the successor is computed with Session's own action operators and   *)
(*      every observed label is compared with it           -> `drift`       *)
(*   D  the declarative clauses of C10 are evaluated on the OBSERVED labels *)
(*      and a ghost `gh` that depends on the call history only -> `fails`,  *)
(*      failing instances matched by a known-finding predicate -> `kf`.     *)
(* Verdicts are total: exactly one VJ line per event.                       *)
(***************************************************************************)
EXTENDS Session, TraceKit

VARIABLES l, gh, snapTab, ok
tvars == <<svars, l, gh, snapTab, ok>>

(* ---- labels --------------------------------------------------------------------------- *)
LimIdx(x) == CASE x = "pi" -> 0 [] x = "low" -> 1 [] x = "inf" -> 2
FitIdx(x) == IF x = "dlite" THEN 0 ELSE 1
MethIdx(x) == CASE x = "default" -> 0 [] x = "lsq_linear" -> 1 [] x = "lsq" -> 2 [] x = "fix_stress" -> 3
BmIdx(x) == IF x = "static" THEN 0 ELSE 1
KeyId(t, lim, fit, m, b) == (((t * 3 + LimIdx(lim)) * 2 + FitIdx(fit)) * 4 + MethIdx(m)) * 2 + BmIdx(b)
KeysPerFrame == 48
LZero == 0
LMinusOne == 1
LNoVal == 2
SolLab(kid, i) == 1000 + kid * 32 + i
PresLab(sid, c) == 100000 + sid * 16 + c
IsSolLabOf(lab, t, i) == /\ lab >= 1000 /\ lab < 100000 /\ (lab - 1000) % 32 = i
                         /\ ((lab - 1000) \div 32) \div KeysPerFrame = t

In(o, lab, k) == k > 0 /\ k <= Len(o.vt) /\ \E q \in 1..Len(o.vt[k]) : o.vt[k][q] = lab
Eq(o, a, b) == a = b \/ (a > 0 /\ a <= Len(o.vt) /\ \E q \in 1..Len(o.vt[a]) : In(o, o.vt[a][q], b))

(* ---- declarative ghost: depends on the call history (and logged snapshot ids) only ------ *)
Gh0 == [t \in Frames |-> [build |-> NoBuild, stress |-> NoStress, pbuilt |-> 0, psnap |-> 0, prev |-> {},
                          fixed |-> FALSE]]
GKey(t, s) == KeyId(t, s.limit, s.fit, s.method, s.bm)
Raised(e) == e.raised # ""
Visited(e) == {e.frames[q] : q \in DOMAIN e.frames}
GhAfter(g, e) ==
  LET t == e.t IN
  IF e.op = "BuildForce" THEN
       IF Raised(e) THEN g ELSE [g EXCEPT ![t].build = [has |-> TRUE, limit |-> e.limit, fit |-> e.fit]]
  ELSE IF e.op = "SysVel" THEN
       IF Raised(e) THEN g
       ELSE [u \in Frames |-> IF u \in Visited(e)
                              THEN [g[u] EXCEPT !.build = [has |-> TRUE, limit |-> e.limit, fit |-> "dlite"]]
                              ELSE g[u]]
  ELSE IF e.op = "SolveStress" THEN
       LET g1 == IF e.method = "fix_stress" THEN [g EXCEPT ![t].fixed = TRUE] ELSE g IN
       IF Raised(e) THEN g1
       ELSE [g1 EXCEPT ![t].stress = [has |-> TRUE, limit |-> g[t].build.limit, fit |-> g[t].build.fit,
                                      method |-> e.method, bm |-> e.bm],
                       ![t].prev = IF g[t].stress.has THEN g[t].prev \cup {GKey(t, g[t].stress)} ELSE g[t].prev]
  ELSE IF e.op = "BuildPressure" THEN
       IF Raised(e) THEN g ELSE [g EXCEPT ![t].pbuilt = e.snapid]
  ELSE IF e.op = "SolvePressure" THEN
       IF Raised(e) THEN g ELSE [g EXCEPT ![t].psnap = g[t].pbuilt]
  ELSE g
DEnabled(g, e) ==
  CASE e.op = "SolveStress" -> e.t \in Frames /\ g[e.t].build.has
    [] e.op = "SolvePressure" -> e.t \in Frames /\ g[e.t].pbuilt > 0
    [] e.op = "SysVel" -> Visited(e) \subseteq Frames
    [] e.op \in {"BuildForce", "BuildPressure"} -> e.t \in Frames
    [] OTHER -> FALSE

(* ---- clause instances: <<clause, known-finding tag or "", where>> ------------------------ *)
W(c, t, kind, j) == c \o ":t" \o ToString(t) \o ":" \o kind \o ":" \o ToString(j)

\* KF_StaleExcluded(t, j) on observed labels: j is excluded under the matrix of the last solve and the
\* value shown is the FRESH-OBJECT value of an EARLIER solve of this frame at j's position
ObsStaleExcluded(g, o, t, j, k) ==
  LET s == g[t].stress
      p == Pos(t, j)
  IN  /\ s.has /\ p > 0 /\ p \in Excl(t, s.limit, s.fit)
      /\ \E kid \in g[t].prev : kid # GKey(t, s) /\ In(o, SolLab(kid, p), k)
Tag(g, o, t, kind, j, k) ==
  IF g[t].fixed THEN "KF_FixStress"
  ELSE IF kind \in {"ifc", "edge", "tab"} /\ ObsStaleExcluded(g, o, t, j, k) THEN "KF_StaleExcluded"
  ELSE ""
I(c, g, o, t, kind, j, k) == <<c, Tag(g, o, t, kind, j, k), W(c, t, kind, j)>>

SolvedG(g, t) == g[t].stress.has
PSolvedG(g, t) == g[t].psnap > 0
ExclG(g, t) == IF g[t].stress.has THEN Excl(t, g[t].stress.limit, g[t].stress.fit) ELSE {}
\* ideal labels of frame t, materialised once per event and frame (`\o <<>>` forces TLC to evaluate the
\* function into a tuple instead of re-evaluating its body at every application)
IdealI0(g, t, j) == LET p == Pos(t, j) IN
                    IF SolvedG(g, t) /\ p > 0 /\ p \notin ExclG(g, t) THEN SolLab(GKey(t, g[t].stress), p) ELSE LZero
IdealsOf(g, t) ==
  LET ex == ExclG(g, t)
      kid == IF SolvedG(g, t) THEN GKey(t, g[t].stress) ELSE 0
  IN  [ifc |-> [j \in 1..NB(t) |-> IF SolvedG(g, t) /\ Pos(t, j) > 0 /\ Pos(t, j) \notin ex
                                    THEN SolLab(kid, Pos(t, j)) ELSE LZero] \o <<>>,
       frc |-> [i \in 1..NI(t) |-> IF i \in ex THEN LMinusOne ELSE SolLab(kid, i)] \o <<>>,
       cel |-> [c \in 1..NC(t) |-> IF PSolvedG(g, t) THEN PresLab(g[t].psnap, c) ELSE LNoVal] \o <<>>,
       ex |-> ex]
IdealI(x, t, j) == x.ifc[j]
IdealF(x, t, i) == x.frc[i]
IdealC(x, t, c) == x.cel[c]

\* C10.pure: everything reported for t carries the label a fresh object shows after the last calls' arguments
PureForces(x, g, o, t, tab, kind) ==
  IF tab.has # SolvedG(g, t) THEN {I("C10.pure", g, o, t, kind, 0, 0)}
  ELSE IF ~tab.has THEN {}
  ELSE IF Len(tab.v) # NI(t) THEN {I("C10.pure", g, o, t, kind, 0, 0)}
  ELSE {I("C10.pure", g, o, t, kind, i, tab.v[i]) : i \in {i \in 1..NI(t) : ~In(o, IdealF(x, t, i), tab.v[i])}}
PureAt(x, g, o, t) ==
  LET f == o.fr[t + 1] IN
  PureForces(x, g, o, t, f.forces, "forces") \cup PureForces(x, g, o, t, f.ff, "fforces")
  \cup {I("C10.pure", g, o, t, "ifc", j, f.ifc[j]) : j \in {j \in 1..NB(t) : ~In(o, IdealI(x, t, j), f.ifc[j])}}
  \cup UNION {{I("C10.pure", g, o, t, "edge", j, f.edge[j][q]) :
                  q \in {q \in 1..Len(f.edge[j]) : ~In(o, IdealI(x, t, j), f.edge[j][q])}} : j \in 1..NB(t)}
  \cup {I("C10.pure", g, o, t, "tab", f.tab[r][1], f.tab[r][2]) :
          r \in {r \in 1..Len(f.tab) : f.tab[r][1] \in 1..NB(t) /\ ~In(o, IdealI(x, t, f.tab[r][1]), f.tab[r][2])}}
  \cup {I("C10.pure", g, o, t, "cellp", c, f.cellp[c]) : c \in {c \in 1..NC(t) : ~In(o, IdealC(x, t, c), f.cellp[c])}}
  \cup {I("C10.pure", g, o, t, "gp", f.gp[r][1], f.gp[r][2]) :
          r \in {r \in 1..Len(f.gp) : f.gp[r][1] \in 1..NC(t) /\ ~In(o, IdealC(x, t, f.gp[r][1]), f.gp[r][2])}}

\* C10.aligned: the i-th reported tension equals the tension stored on the i-th internal interface and on
\* each of its mesh edges, unless excluded
AlignedObs(x, g, o, t) ==
  LET f == o.fr[t + 1] IN
  IF ~SolvedG(g, t) THEN {}
  ELSE IF ~f.forces.has \/ Len(f.forces.v) # NI(t) THEN {I("C10.aligned", g, o, t, "forces", 0, 0)}
  ELSE {I("C10.aligned", g, o, t, "ifc", IntAt(t, i), f.ifc[IntAt(t, i)]) :
           i \in {i \in 1..NI(t) : i \notin x.ex /\ ~Eq(o, f.forces.v[i], f.ifc[IntAt(t, i)])}}
       \cup {I("C10.aligned", g, o, t, "edge", IntAt(t, i), 0) :
           i \in {i \in 1..NI(t) : i \notin x.ex /\
                    \E q \in 1..Len(f.edge[IntAt(t, i)]) : ~Eq(o, f.forces.v[i], f.edge[IntAt(t, i)][q])}}

\* C10.external_zero: external interfaces stay at zero (interface, its mesh edges, its table row)
ExternalZeroObs(x, g, o, t) ==
  LET f == o.fr[t + 1] IN
  IF ~SolvedG(g, t) THEN {}
  ELSE {I("C10.external_zero", g, o, t, "ifc", j, f.ifc[j]) :
           j \in {j \in 1..NB(t) : IsExt(t, j) /\ ~In(o, LZero, f.ifc[j])}}
       \cup {I("C10.external_zero", g, o, t, "edge", j, 0) :
           j \in {j \in 1..NB(t) : IsExt(t, j) /\ \E q \in 1..Len(f.edge[j]) : ~In(o, LZero, f.edge[j][q])}}
       \cup {I("C10.external_zero", g, o, t, "tab", f.tab[r][1], f.tab[r][2]) :
           r \in {r \in 1..Len(f.tab) : f.tab[r][1] \in 1..NB(t) /\ IsExt(t, f.tab[r][1]) /\ ~In(o, LZero, f.tab[r][2])}}

\* C10.table_order: the tension table lists exactly the internal interfaces, in that order, each row with the
\* tension stored on that interface
TableOrderObs(x, g, o, t) ==
  LET f == o.fr[t + 1]
      inner == SelectSeq(f.tab, LAMBDA r : r[1] \in 1..NB(t) /\ Pos(t, r[1]) > 0)
  IN
  IF ~SolvedG(g, t) THEN {}
  ELSE (IF f.tabi # FR(t).internal THEN {I("C10.table_order", g, o, t, "tabi", 0, 0)} ELSE {})
       \cup (IF [r \in 1..Len(inner) |-> inner[r][1]] # FR(t).internal
             THEN {I("C10.table_order", g, o, t, "tab", 0, 0)} ELSE {})
       \cup {I("C10.table_order", g, o, t, "row", f.tab[r][1], f.tab[r][2]) :
               r \in {r \in 1..Len(f.tab) : f.tab[r][1] \notin 1..NB(t)
                                            \/ ~Eq(o, f.tab[r][2], f.ifc[f.tab[r][1]])}}

\* C10.cell_pressure: each cell carries its own pressure (and the pressure table shows it under the cell's id)
CellPressureObs(x, g, o, t) ==
  LET f == o.fr[t + 1] IN
  IF ~PSolvedG(g, t) THEN {}
  ELSE {I("C10.cell_pressure", g, o, t, "cellp", c, f.cellp[c]) :
           c \in {c \in 1..NC(t) : ~In(o, IdealC(x, t, c), f.cellp[c])}}
       \cup {I("C10.cell_pressure", g, o, t, "gp", c, 0) :
           c \in {c \in 1..NC(t) : Cardinality({r \in 1..Len(f.gp) : f.gp[r][1] = c}) # 1
                                   \/ \E r \in 1..Len(f.gp) : f.gp[r][1] = c /\ ~Eq(o, f.gp[r][2], f.cellp[c])}}

\* C10.keyed_forces: ForSys.forces[t] (and Frame t's .forces) hold frame t's tensions under key t, nothing
\* is stored under the key of a frame that was never solved
KeyedForcesObs(x, g, o, t) ==
  LET f == o.fr[t + 1] IN
  IF ~SolvedG(g, t)
  THEN (IF f.forces.has THEN {I("C10.keyed_forces", g, o, t, "unsolved", 0, 0)} ELSE {})
  ELSE IF ~f.forces.has \/ ~f.ff.has \/ Len(f.forces.v) # NI(t) \/ Len(f.ff.v) # NI(t)
  THEN {I("C10.keyed_forces", g, o, t, "forces", 0, 0)}
  ELSE {I("C10.keyed_forces", g, o, t, "forces", i, f.forces.v[i]) :
          i \in {i \in 1..NI(t) : \/ ~Eq(o, f.forces.v[i], f.ff.v[i])
                                  \/ ~\E q \in 1..Len(o.vt[f.forces.v[i]]) :
                                        \/ o.vt[f.forces.v[i]][q] = LMinusOne
                                        \/ IsSolLabOf(o.vt[f.forces.v[i]][q], t, i)}}

\* C10.keyed_pressures: ForSys.pressures holds frame t's pressures under key t
KeyedPressuresObs(g, o) ==
  IF o.ps.kind # "dict"
  THEN IF \E t \in Frames : PSolvedG(g, t)
       THEN {<<"C10.keyed_pressures", IF o.ps.kind = "list" THEN "KF_PressuresOverwritten" ELSE "",
               "C10.keyed_pressures:store:" \o o.ps.kind>>}
       ELSE {}
  ELSE UNION {
       LET d == o.ps.d[t + 1]
           x == IdealsOf(g, t)
       IN
       IF ~PSolvedG(g, t)
       THEN (IF d.has THEN {<<"C10.keyed_pressures", "", W("C10.keyed_pressures", t, "unsolved", 0)>>} ELSE {})
       ELSE IF ~d.has \/ Len(d.v) # NC(t)
       THEN {<<"C10.keyed_pressures", "", W("C10.keyed_pressures", t, "store", 0)>>}
       ELSE {<<"C10.keyed_pressures", "", W("C10.keyed_pressures", t, "cell", c)>> :
               c \in {c \in 1..NC(t) : ~\E q \in 1..Len(d.v) : In(o, IdealC(x, t, c), d.v[q])}}
       : t \in Frames}

\* C10.raised: an enabled call raised
RaisedObs(g, e) ==
  IF ~Raised(e) THEN {}
  ELSE {<<"C10.raised",
          IF e.op = "SolveStress" /\ (e.method = "fix_stress" \/ g[e.t].fixed) THEN "KF_FixStress" ELSE "",
          "C10.raised:" \o e.op \o ":" \o e.raised>>}

Instances(g, e) ==
  LET o == e.obs IN
  RaisedObs(g, e) \cup KeyedPressuresObs(g, o)
  \cup UNION {LET x == IdealsOf(g, t) IN
              PureAt(x, g, o, t) \cup AlignedObs(x, g, o, t) \cup ExternalZeroObs(x, g, o, t)
              \cup TableOrderObs(x, g, o, t) \cup CellPressureObs(x, g, o, t) \cup KeyedForcesObs(x, g, o, t)
              : t \in Frames}
Hits(g) ==
  {"C10.pure", "C10.raised"}
  \cup (IF \E t \in Frames : SolvedG(g, t)
        THEN {"C10.aligned", "C10.external_zero", "C10.table_order", "C10.keyed_forces"} ELSE {})
  \cup (IF \E t \in Frames : PSolvedG(g, t) THEN {"C10.cell_pressure", "C10.keyed_pressures"} ELSE {})

(* ---- implementation-shaped layer: Session's successor vs the observation -> drift ------- *)
SnapIdOf(t, snap) == IF \E x \in snapTab : x[1] = t /\ x[2] = snap
                     THEN (CHOOSE x \in snapTab : x[1] = t /\ x[2] = snap)[3] ELSE 0
LabOf(v) == CASE v[1] = "Z" -> LZero
              [] v[1] = "M" -> LMinusOne
              [] v[1] = "N" -> LNoVal
              [] v[1] = "S" -> SolLab(KeyId(v[2], v[3][1], v[3][2], v[3][3], v[3][4]), v[4])
              [] v[1] = "P" -> PresLab(SnapIdOf(v[2], v[3]), v[4])
              [] OTHER -> -1000000000
Match(o, v, k) == v = Junk \/ In(o, LabOf(v), k)
MatchTab(o, tab, otab) == /\ tab.has = otab.has
                          /\ tab.has => /\ Len(tab.v) = Len(otab.v)
                                        /\ \A i \in 1..Len(tab.v) : Match(o, tab.v[i], otab.v[i])
ToSet(s) == {s[q] : q \in DOMAIN s}
Drift(nx, e, predictedRaise, keyedObs) ==
  LET o == e.obs IN
  (IF Raised(e) # predictedRaise THEN {"drift.raise"} ELSE {})
  \cup (IF e.op = "SolvePressure" /\ keyedObs # PressuresKeyed THEN {"drift.pressures_keyed_differs_from_model_constant"} ELSE {})
  \cup (IF \E t \in Frames : ~MatchTab(o, nx.forces[t], o.fr[t + 1].forces) \/ ~MatchTab(o, nx.forces[t], o.fr[t + 1].ff)
        THEN {"drift.forces"} ELSE {})
  \cup (IF \E t \in Frames : \E j \in 1..NB(t) : ~Match(o, nx.ifcT[t][j], o.fr[t + 1].ifc[j]) THEN {"drift.ifc"} ELSE {})
  \cup (IF \E t \in Frames : \E j \in 1..NB(t) : \E q \in 1..Len(o.fr[t + 1].edge[j]) :
             ~Match(o, nx.edgeT[t][j], o.fr[t + 1].edge[j][q]) THEN {"drift.edge"} ELSE {})
  \cup (IF \E t \in Frames : \E c \in 1..NC(t) : ~Match(o, nx.cellP[t][c], o.fr[t + 1].cellp[c]) THEN {"drift.cellp"} ELSE {})
  \cup (IF \E t \in Frames : LET m == nx.fmat[t]
                                 fm == o.fr[t + 1].fm
                             IN  \/ m.has # fm.has
                                 \/ m.has /\ (Excl(t, m.limit, m.fit) # ToSet(fm.excl) \/ m.shrunk # (fm.short > 0))
        THEN {"drift.fmat"} ELSE {})
  \cup (IF \E t \in Frames : nx.pmat[t].has # o.fr[t + 1].pm.has THEN {"drift.pmat"} ELSE {})
  \cup (IF nx.pressures.kind # o.ps.kind THEN {"drift.pressures_store_kind"}
        ELSE IF o.ps.kind = "list"
        THEN (IF Len(o.ps.l) # Len(nx.pressures.l) \/ \E c \in 1..Len(o.ps.l) : ~Match(o, nx.pressures.l[c], o.ps.l[c])
              THEN {"drift.pressures_store"} ELSE {})
        ELSE IF o.ps.kind = "dict"
        THEN (IF \E t \in Frames : ~MatchTab(o, nx.pressures.d[t], o.ps.d[t + 1]) THEN {"drift.pressures_store"} ELSE {})
        ELSE {})

ModelEnabled(e) ==
  CASE e.op = "SolveStress" -> SolveStressEnabled(e.t)
    [] e.op = "SolvePressure" -> SolvePressureEnabled(e.t)
    [] OTHER -> TRUE
ModelPost(e, keyedObs) ==
  CASE e.op = "BuildForce" -> BuildForcePost(e.t, e.limit, e.fit)
    [] e.op = "SolveStress" -> SolveStressPost(e.t, e.method, e.bm)
    [] e.op = "BuildPressure" -> BuildPressurePost(e.t)
    [] e.op = "SolvePressure" -> SolvePressurePostK(e.t, keyedObs)
    [] e.op = "SysVel" -> SystemVelocityPostOn(Visited(e), e.limit)
ModelRaises(e) == e.op = "SolveStress" /\ SolveStressRaises(e.t, e.method)

EmitW(e, inst, hits, drift, rejected) ==
  PrintT("VJ " \o ToJson([case |-> e.case, ev |-> e.ev,
                          fails |-> {x[1] : x \in {y \in inst : y[2] = ""}},
                          kf |-> {x[2] \o ":" \o x[1] : x \in {y \in inst : y[2] # ""}},
                          hits |-> hits, drift |-> drift, rejected |-> rejected,
                          where |-> {x[3] : x \in inst}]))

TInit == Init /\ l = 1 /\ gh = Gh0 /\ snapTab = {} /\ ok = FALSE

DoBegin(e) ==
  /\ e.ev = "Begin"
  /\ Apply(InitVal) /\ gh' = Gh0 /\ snapTab' = {}
  /\ ok' = (e.struct = Series)
  /\ EmitW(e, {}, {}, IF e.struct = Series THEN {} ELSE {"drift.series_structure_differs"}, e.struct # Series)

DoCall(e) ==
  /\ e.ev = "Call"
  /\ IF ~ok \/ ~DEnabled(gh, e) \/ ~ModelEnabled(e)
     THEN /\ UNCHANGED <<svars, gh, snapTab, ok>>
          /\ EmitW(e, {}, {}, {}, TRUE)
     ELSE LET keyedObs == e.obs.ps.kind = "dict"
              nx == ModelPost(e, keyedObs)
              g2 == GhAfter(gh, e)
          IN  /\ Apply(nx)
              /\ gh' = g2
              /\ snapTab' = IF e.op = "BuildPressure" THEN snapTab \cup {<<e.t, nx.pmat[e.t].v, e.snapid>>} ELSE snapTab
              /\ UNCHANGED ok
              /\ EmitW(e, Instances(g2, e), Hits(g2), Drift(nx, e, ModelRaises(e), keyedObs), FALSE)

TNext == /\ l <= Len(TR)
         /\ LET e == TR[l] IN DoBegin(e) \/ DoCall(e)
         /\ l' = l + 1

TSpec == TInit /\ [][TNext]_tvars
Done == TLCGet("stats").diameter - 1 = Len(TR)
=============================================================================

SPECIFICATION Spec
CONSTANT CONFS = {1, 2, 3, 4, 5, 6}
CONSTANT TRS = {1, 2, 3, 4}
CONSTANT LAYS = {0, 1, 2}
CONSTANT BOTHMODES = FALSE
CONSTANT PATS = {1, 2, 4}
INVARIANT PremiseHolds
INVARIANT Linear
INVARIANT UniformEqual
INVARIANT NormalisedMeanOne
INVARIANT ImplWindowIsD
INVARIANT ImplKeyIsD
INVARIANT WalkIsD
INVARIANT Emit
CHECK_DEADLOCK FALSE

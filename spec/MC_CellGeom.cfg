SPECIFICATION Spec
CONSTANT MODE = "poly"
CONSTANT GRID = 4
CONSTANT NMAX = 5
CONSTANT EMIT_ALL = TRUE
CONSTANT KS = {0}
INVARIANT LeafIsSimple
INVARIANT NoDeadEnd
INVARIANT RawEqualsAnchored
INVARIANT ReversalFlips
INVARIANT ShiftInvariant
INVARIANT ReversalKeepsEdges
INVARIANT PerimBoundsSound
INVARIANT TranslationInvariant
INVARIANT Scaling
INVARIANT SignConvention
INVARIANT SqrtSound
INVARIANT NavigationLaws
INVARIANT ModelNavIsIndexPlusSign
INVARIANT EmitPoly
CHECK_DEADLOCK FALSE

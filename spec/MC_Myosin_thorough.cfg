SPECIFICATION Spec
CONSTANT CONFS = {1, 2, 3, 4, 5, 6, 7, 8, 9, 10}
CONSTANT TRS = {1, 2, 3, 4, 5, 6, 7, 8}
CONSTANT LAYS = {0, 1, 2, 3}
CONSTANT BOTHMODES = TRUE
CONSTANT PATS = {1, 2, 3, 4, 5, 6}
INVARIANT PremiseHolds
INVARIANT Linear
INVARIANT UniformEqual
INVARIANT NormalisedMeanOne
INVARIANT ImplWindowIsD
INVARIANT ImplKeyIsD
INVARIANT WalkIsD
INVARIANT Emit
CHECK_DEADLOCK FALSE

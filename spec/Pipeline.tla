------------------------------ MODULE Pipeline ------------------------------
(***************************************************************************)
(* Top-level specification of a ForSys analysis: which objects exist, in   *)
(* which order the public calls are legal, and what each call makes        *)
(* available. It composes the mechanisms specified in the other modules    *)
(*   Parse (SEDump / Skeleton / Tessellation)  ->  Resample (Resample.tla) *)
(*   ->  Frame (Interfaces.tla)  ->  Session (Session.tla: build / solve)  *)
(*   ->  pressure (Equations / Certificates)  ->  stress tensor, myosin    *)
(* at the level of a protocol: every public call is an action whose guard  *)
(* is the condition under which the implementation does NOT raise, and a   *)
(* call outside its guard is a `Refused` step that changes nothing.        *)
(* Conformance (Trace_Pipeline): every call of a recorded run raised iff   *)
(* its guard was false, and the availability flags evolve as specified.    *)
(***************************************************************************)
EXTENDS Naturals, FiniteSets, Sequences

CONSTANT Frames            \* frame ids of the series, e.g. 0..NF-1

VARIABLES mesh,     \* [Frames -> {"none", "parsed", "resampled"}]   the three dictionaries of a frame
          frame,    \* [Frames -> {"none", "built", "stale"}]        Frame object (stale: mesh resampled afterwards)
          session,  \* BOOLEAN                                        the ForSys object exists
          fmat,     \* [Frames -> BOOLEAN]                            force matrix built
          solved,   \* [Frames -> BOOLEAN]                            tensions reported for the frame
          pmat,     \* [Frames -> BOOLEAN]                            pressure matrix built
          psolved,  \* [Frames -> BOOLEAN]                            pressures reported for the frame
          tensor,   \* [Frames -> BOOLEAN]                            principal stresses available
          last      \* the last call: [call, t, refused]              (observation only)
vars == <<mesh, frame, session, fmat, solved, pmat, psolved, tensor, last>>

Calls == {"Parse", "Resample", "BuildFrame", "NewSession", "BuildForce", "SolveStress", "BuildPressure",
          "SolvePressure", "SystemVelocity", "StressTensor", "GetTensions", "GetPressures"}

TypeOK == /\ mesh \in [Frames -> {"none", "parsed", "resampled"}]
          /\ frame \in [Frames -> {"none", "built", "stale"}]
          /\ session \in BOOLEAN
          /\ fmat \in [Frames -> BOOLEAN] /\ solved \in [Frames -> BOOLEAN]
          /\ pmat \in [Frames -> BOOLEAN] /\ psolved \in [Frames -> BOOLEAN] /\ tensor \in [Frames -> BOOLEAN]

Init == /\ mesh = [t \in Frames |-> "none"] /\ frame = [t \in Frames |-> "none"] /\ session = FALSE
        /\ fmat = [t \in Frames |-> FALSE] /\ solved = [t \in Frames |-> FALSE]
        /\ pmat = [t \in Frames |-> FALSE] /\ psolved = [t \in Frames |-> FALSE] /\ tensor = [t \in Frames |-> FALSE]
        /\ last = [call |-> "none", t |-> 0, refused |-> FALSE]

(* guards: the call does not raise *)
Enabled(call, t) ==
  CASE call = "Parse"          -> ~session /\ mesh[t] = "none"
    [] call = "Resample"       -> ~session /\ mesh[t] # "none" /\ frame[t] = "none"      \* resampling under a live Frame is not modelled
    [] call = "BuildFrame"     -> ~session /\ mesh[t] # "none" /\ frame[t] = "none"
    [] call = "NewSession"     -> ~session /\ \A u \in Frames : frame[u] = "built"
    [] call = "BuildForce"     -> session
    [] call = "SolveStress"    -> session /\ fmat[t]
    [] call = "BuildPressure"  -> session
    [] call = "SolvePressure"  -> session /\ pmat[t]
    [] call = "SystemVelocity" -> session
    [] call = "StressTensor"   -> session /\ psolved[t]
    [] call = "GetTensions"    -> frame[t] = "built"
    [] call = "GetPressures"   -> frame[t] = "built"
    [] OTHER -> FALSE

Effect(call, t) ==
  /\ mesh' = IF call = "Parse" THEN [mesh EXCEPT ![t] = "parsed"] ELSE IF call = "Resample" THEN [mesh EXCEPT ![t] = "resampled"] ELSE mesh
  /\ frame' = IF call = "BuildFrame" THEN [frame EXCEPT ![t] = "built"] ELSE frame
  /\ session' = (session \/ call = "NewSession")
  /\ fmat' = IF call = "BuildForce" THEN [fmat EXCEPT ![t] = TRUE]
             ELSE IF call = "SystemVelocity" THEN [u \in Frames |-> TRUE]        \* documented side effect: rebuilds every matrix
             ELSE fmat
  /\ solved' = IF call = "SolveStress" THEN [solved EXCEPT ![t] = TRUE] ELSE solved
  /\ pmat' = IF call = "BuildPressure" THEN [pmat EXCEPT ![t] = TRUE] ELSE pmat
  /\ psolved' = IF call = "SolvePressure" THEN [psolved EXCEPT ![t] = TRUE] ELSE psolved
  /\ tensor' = IF call = "StressTensor" THEN [tensor EXCEPT ![t] = TRUE] ELSE tensor

Do(call, t) == /\ Enabled(call, t) /\ Effect(call, t) /\ last' = [call |-> call, t |-> t, refused |-> FALSE]
Refused(call, t) == /\ ~Enabled(call, t)
                    /\ last' = [call |-> call, t |-> t, refused |-> TRUE]
                    /\ UNCHANGED <<mesh, frame, session, fmat, solved, pmat, psolved, tensor>>

\* calls that can be issued at all in the current state (there is an object to call them on, and the combination
\* is within the modelled protocol: one parse, optional resampling before the Frame is built, one Frame per mesh)
Modelled(call, t) ==
  CASE call = "Parse"      -> ~session /\ mesh[t] = "none"
    [] call = "Resample"   -> ~session /\ mesh[t] # "none" /\ frame[t] = "none"
    [] call = "BuildFrame" -> ~session /\ mesh[t] # "none" /\ frame[t] = "none"
    [] call = "NewSession" -> ~session /\ \A u \in Frames : frame[u] = "built"
    [] call \in {"GetTensions", "GetPressures"} -> frame[t] = "built"
    [] OTHER -> session

Next == \E call \in Calls, t \in Frames : Modelled(call, t) /\ (Do(call, t) \/ Refused(call, t))
Spec == Init /\ [][Next]_vars

(* what the protocol guarantees *)
ResultsNeedPrerequisites ==
  \A t \in Frames : /\ solved[t] => (session /\ fmat[t])
                    /\ psolved[t] => (session /\ pmat[t])
                    /\ tensor[t] => psolved[t]
                    /\ fmat[t] => session
                    /\ session => \A u \in Frames : frame[u] = "built" /\ mesh[u] # "none"
FramesNeverStale == \A t \in Frames : frame[t] # "stale"
RefusalChangesNothing == [][last'.refused => UNCHANGED <<mesh, frame, session, fmat, solved, pmat, psolved, tensor>>]_vars
=============================================================================

--------------------------- MODULE MC_CellRemoval ---------------------------
(***************************************************************************)
(* Bounded-exhaustive model check of cell removal (CellRemoval.tla) in a   *)
(* two-frame session built twice from one catalogue tissue (BASE_FILE) with *)
(* k interior points per base edge:                                        *)
(*   RC  remove_cell(t, c)            every frame number t, every cell c   *)
(*   RO  remove_outermost_edges(t, 1) every t, is_border flags of the two  *)
(*       frames from the family {outer cells (skeleton parser's rule),     *)
(*       none, one outer cell}                                             *)
(* and every sequence of at most MaxDepth of them (a session in which D    *)
(* failed is not extended: the premise of the next edit would not hold).   *)
(* The implementation-shaped operators I are judged by the declarative D;  *)
(*   DeviationsKnown    every deviation of I from D is an instance of a    *)
(*                      known-finding matcher (KF_FrameZero,               *)
(*                      KF_SharedEndsEdgeKept)                             *)
(*   AcceptedIsSubMesh  a frame that D accepts is SubTissue.tla's          *)
(*                      SubMesh(remaining cells, k) under the renaming phi *)
(*   RepairedSatisfiesD the repaired function (frames[frame_number], sweep *)
(*                      of the removed cell's exclusive edges) satisfies D *)
(*   ISatisfiesD        vacuity guard, expected to be VIOLATED: TLC shows  *)
(*                      the design-level counterexample                    *)
(* Every reached state is emitted (`EJ {json}`) with the model's verdicts   *)
(* and replayed on a real ForSys object.                                   *)
(***************************************************************************)
EXTENDS CellRemoval

CONSTANTS KS, MaxDepth, Frames
VARIABLES k, B, S, hist, res, live
vars == <<k, B, S, hist, res, live>>

LOCAL Rn(q) == {q[j] : j \in DOMAIN q}

FullMesh(kk) == LET m == SubMesh(1..Base.nc, kk) IN
                m @@ [vid |-> [v \in 1..m.nv |-> v], pos |-> [v \in 1..m.nv |-> <<0, 0>>]]

Init == /\ k \in KS
        /\ B = [name |-> Base.name, cells |-> Base.cells, nv |-> Base.nv, nc |-> Base.nc,
                pairs |-> Dedup(AllPairs(Base.cells, 1), <<>>)]
        /\ S = [fr |-> <<>>, big |-> <<>>, bord |-> <<>>, err |-> "unbuilt"]
        /\ hist = <<>> /\ res = <<>> /\ live = FALSE

Start == /\ S.err = "unbuilt"
         /\ \E s \in {StateOf(FullMesh(k))} : \E fb \in {FrameBuild(s)} :
              S' = [fr |-> [u \in 1..Frames |-> s], big |-> [u \in 1..Frames |-> fb.ifl],
                    bord |-> [u \in 1..Frames |-> {}], err |-> fb.err]
         /\ live' = TRUE
         /\ UNCHANGED <<k, B, hist, res>>

\* ---- the model's verdict on one call -------------------------------------------------
Judge(Sb, Sa, t0, keepAsked, isRO) ==
  LET Vb    == Views(Sb)
      Va    == Views(Sa)
      t     == t0 + 1
      mb    == Vb[t].m
      ma    == Va[t].m
      keep  == IF isRO THEN CellLabs(ma) ELSE keepAsked
      asked == IF isRO THEN keepAsked ELSE CellLabs(ma)
      unt   == \A u \in DOMAIN Vb \ {t} : Va[u] = Vb[u]
      fails == RemovalVerdict(mb, ma, Va[t].ifl, keep, asked, Sa.err, unt, FALSE)
      tri   == RemovalTriage(fails, mb, ma, Va[t].ifl, keep, t0, Sa.err, Va[1] # Vb[1],
                             isRO /\ Sb.bord[1] # Sb.bord[t], FALSE)
  IN  [fails |-> tri.fails, kf |-> tri.kf, all |-> fails, err |-> Sa.err]

Op(o, t0, c, b) == [op |-> o, t |-> t0, c |-> c, bord |-> b]

Live == live /\ S.err = "" /\ Len(hist) < MaxDepth
Do(o, Sn, v) == /\ S' = [Sn EXCEPT !.err = ""] /\ hist' = Append(hist, o) /\ res' = Append(res, v)
                /\ live' = (v.all = {})
                /\ UNCHANGED <<k, B>>

DoRC == /\ Live
        /\ \E t0 \in 0..(Frames - 1) : \E c \in DOMAIN S.fr[t0 + 1].C :
             \E Sn \in {RemoveCellI(S, t0, c)} :
               \E v \in {Judge(S, Sn, t0, CellLabs(AbstractOf(S.fr[t0 + 1])) \ {c}, FALSE)} :
                 Do(Op("RC", t0, c, [u \in 1..Frames |-> {}]), Sn, v)

FlagFamily(s) == LET o == OuterCells(s) IN
                 {o, {}, IF o = {} THEN {} ELSE {CHOOSE c \in o : \A d \in o : c <= d}}
FlagChoices == LET o == [u \in 1..Frames |-> OuterCells(S.fr[u])] IN
               {o} \cup UNION {{[o EXCEPT ![u] = f] : f \in FlagFamily(S.fr[u])} : u \in 1..Frames}
DoRO == /\ Live
        /\ \E t0 \in 0..(Frames - 1) : \E b \in FlagChoices :
             \E S1 \in {[S EXCEPT !.bord = b]} : \E Sn \in {RemoveOutermostI(S1, t0)} :
               \E v \in {Judge(S1, Sn, t0, CellLabs(AbstractOf(S.fr[t0 + 1])) \ b[t0 + 1], TRUE)} :
                 Do(Op("RO", t0, 0, b), Sn, v)

Next == Start \/ DoRC \/ DoRO
Spec == Init /\ [][Next]_vars

\* ---- SubTissue.tla: a frame accepted by D is SubMesh(remaining cells, k) ---------------------------
IsoToSubMesh(ma, cs) ==
  LET X    == SubMesh(cs, k)
      ids  == SeqOfSetSorted(cs)
      subc == [j \in DOMAIN ids |-> B.cells[ids[j]]]
      used == UsedV(subc)
      nvS  == Cardinality(used)
      sp   == Dedup(AllPairs(Renumber(subc), 1), <<>>)
      phi(lab) == IF lab <= B.nv THEN Rank(used, lab)
                  ELSE LET e  == ((lab - B.nv - 1) \div k) + 1
                           j  == ((lab - B.nv - 1) % k) + 1
                           e2 == PairIndex(sp, {Rank(used, x) : x \in B.pairs[e]})
                       IN  nvS + (e2 - 1) * k + j
  IN  /\ ma.nv = X.nv /\ ma.ne = X.ne /\ ma.nc = X.nc
      /\ \A j \in DOMAIN ids : LET c == CellByLab(ma, ids[j]) IN
            [i \in DOMAIN ma.C[c] |-> phi(VLab(ma, ma.C[c][i]))] = X.C[j]
      /\ {{phi(a) : a \in pr} : pr \in EdgePairsL(ma)} = {{X.E[e][1], X.E[e][2]} : e \in Ed(X)}

Built == S.err # "unbuilt"
InitOK == (Built /\ Len(hist) = 0) =>
            /\ S.err = ""
            /\ \A u \in 1..Frames : LET m == AbstractOf(S.fr[u]) IN
                  CleanMesh(m) /\ IsoToSubMesh(m, 1..B.nc) /\ DecompL(m, CellLabs(m), S.big[u])
DeviationsKnown == \A i \in DOMAIN res : res[i].fails = {}
AcceptedIsSubMesh == (Built /\ live /\ Len(hist) >= 1) =>
            \A u \in 1..Frames : LET m == AbstractOf(S.fr[u]) IN
               CleanMesh(m) /\ (CellLabs(m) # {} => IsoToSubMesh(m, CellLabs(m)))
Emit == Len(hist) >= 1 =>
          PrintT("EJ " \o ToJson([base |-> B.name, k |-> k, hist |-> hist,
                                  res |-> [i \in DOMAIN res |-> [fails |-> res[i].fails, kf |-> res[i].kf,
                                                                 all |-> res[i].all, err |-> res[i].err]]]))

\* the proposed repair satisfies D wherever the code is applied in this model (checked from every live state)
RepairedSatisfiesD ==
  (Built /\ live /\ S.err = "" /\ Len(hist) < MaxDepth) =>
    /\ \A t0 \in 0..(Frames - 1) : \A c \in DOMAIN S.fr[t0 + 1].C :
          Judge(S, RemoveCellG(S, t0, c, FALSE), t0, CellLabs(AbstractOf(S.fr[t0 + 1])) \ {c}, FALSE).all = {}
    /\ \A t0 \in 0..(Frames - 1) : \A b \in FlagChoices :
          LET S1 == [S EXCEPT !.bord = b] IN
          Judge(S1, RemoveOutermostG(S1, t0, FALSE), t0, CellLabs(AbstractOf(S.fr[t0 + 1])) \ b[t0 + 1], TRUE).all = {}

\* vacuity guards, expected to be VIOLATED when checked alone
ISatisfiesD == \A i \in DOMAIN res : res[i].all = {}
NoKeptEdge  == \A i \in DOMAIN res : \A x \in res[i].kf : x # "KF_SharedEndsEdgeKept:E2.removed_mesh"
=============================================================================

----------------------------- MODULE Trace_Mesh -----------------------------
(* Trace validation of mesh construction / editing (C09) and frame           *)
(* decomposition (C08). Events:                                              *)
(*   Mesh  : {mesh: <projected mesh>, raised: "" | exception name, src}      *)
(*   Frame : {f: <projected frame>, raised}  — judged against the last Mesh  *)
EXTENDS Interfaces, TraceKit

VARIABLES l, m
vars == <<l, m>>

NoMesh == [nv |-> 0]

Init == l = 1 /\ m = NoMesh

DoMesh(e) ==
  /\ e.ev = "Mesh"
  /\ LET fails == IF e.raised # "" THEN {"C09.raised"} ELSE Consistent(e.mesh)
     IN  EmitV(e, fails, {}, {"C09.consistent"}, {}, FALSE)
  /\ m' = IF e.raised # "" THEN NoMesh ELSE e.mesh

DoFrame(e) ==
  /\ e.ev = "Frame"
  /\ LET fails == IF e.raised # "" THEN {"C08.raised"}
                  ELSE IF m.nv = 0 THEN {"C08.no_mesh"} ELSE C08Verdict(m, e.f)
         drift == IF e.raised # "" \/ m.nv = 0 THEN {} ELSE C08Drift(m, e.f)
         hits  == IF e.raised # "" \/ m.nv = 0 THEN {} ELSE
                    {"C08.decomposition"} \cup (IF InternalIdx(m, e.f) # {} THEN {"C08.internal"} ELSE {})
                    \cup (IF Len(e.f.lookup) > 0 THEN {"C08.lookup"} ELSE {})
         kf    == IF e.raised # "" \/ m.nv = 0 THEN {} ELSE C08KF(m, e.f)
     IN  EmitV(e, fails, kf, hits, drift, FALSE)
  /\ UNCHANGED m

Next == /\ l <= Len(TR)
        /\ LET e == TR[l] IN DoMesh(e) \/ DoFrame(e)
        /\ l' = l + 1

Spec == Init /\ [][Next]_vars
Done == TLCGet("stats").diameter - 1 = Len(TR)
=============================================================================

SPECIFICATION Spec
CONSTANT K = 2
INVARIANT SameInterfaces
INVARIANT SameInternal
INVARIANT SameOwnCells
INVARIANT SameDeclarative
CHECK_DEADLOCK FALSE

---------------------------- MODULE MC_Skeleton ----------------------------
(***************************************************************************)
(* Spec -> code direction of C15, pixel level.                             *)
(*                                                                         *)
(* Bounded-exhaustive enumeration of three-armed junction windows: in a    *)
(* (2N+1)x(2N+1) pixel window, three digital rays leave the centre towards *)
(* three pixels of the window's ring -- EVERY triple of ring pixels whose  *)
(* consecutive directions are between 25 and 180 degrees apart, hence      *)
(* every orientation of Y- and T-junctions that fits the window. The       *)
(* specification's notion of "minimal junction pixels" (Skeleton.tla:      *)
(* Deletable / MinimalCode on 8-neighbourhood codes) is applied by an      *)
(* implementation-shaped thinning CleanI (delete the first deletable pixel *)
(* in raster order, repeat), and TLC checks that its result satisfies the  *)
(* declarative notion: still one 8-connected piece containing the three    *)
(* exits, no deletable interior pixel, one pixel wide, and -- as a theorem *)
(* about the premise -- that such a minimal window has the pixel statistic *)
(* the premise of C15 asks for (2 or 3 neighbours except in one junction   *)
(* cluster of <= 3 pixels, no 2x2 block).                                  *)
(* Every leaf is emitted (`EJ {json}`: window pixels, exits); the driver   *)
(* embeds it in a three-cell tissue image and replays it through the real  *)
(* parser under Trace_Skeleton.                                            *)
(* Coordinates: <<x, y>>, y grows downwards (screen).                      *)
(***************************************************************************)
EXTENDS Skeleton, TLC, Json

CONSTANT N
VARIABLES a, b, c, stage, w
vars == <<a, b, c, stage, w>>

Abs(x) == IF x < 0 THEN 0 - x ELSE x
Max(x, y) == IF x > y THEN x ELSE y

\* ring pixel number p (0..8N-1), counter-clockwise on the screen starting at East
RingAt(p) ==
  IF p <= N THEN <<N, 0 - p>>
  ELSE IF p <= 3 * N THEN <<2 * N - p, 0 - N>>
  ELSE IF p <= 5 * N THEN <<0 - N, p - 4 * N>>
  ELSE IF p <= 7 * N THEN <<p - 6 * N, N>>
  ELSE <<N, 8 * N - p>>

Cross(u, v) == u[1] * v[2] - u[2] * v[1]
Dot(u, v)   == u[1] * v[1] + u[2] * v[2]
\* v follows u counter-clockwise on the screen, at least 25 and less than 180 degrees away
\* (cos^2 25deg = 0.8214)
GapOK(u, v) == /\ Cross(u, v) < 0
               /\ (Dot(u, v) <= 0 \/ 10000 * Dot(u, v) * Dot(u, v) <= 8214 * Dot(u, u) * Dot(v, v))

\* digital ray from the centre to ring pixel q: N steps, coordinates rounded half away from zero
Rnd(x, n) == IF x >= 0 THEN (2 * x + n) \div (2 * n) ELSE 0 - ((n - 2 * x) \div (2 * n))
Ray(q) == {<<Rnd(s * q[1], N), Rnd(s * q[2], N)>> : s \in 0..N}

Interior(p) == Abs(p[1]) < N /\ Abs(p[2]) < N
DX == <<1, 1, 0, -1, -1, -1, 0, 1>>
DY == <<0, -1, -1, -1, 0, 1, 1, 1>>
Nbr(p, k) == <<p[1] + DX[k + 1], p[2] + DY[k + 1]>>
CodeOf(S, p) == LET RECURSIVE F(_) F(k) == IF k > 7 THEN 0 ELSE
                       (IF Nbr(p, k) \in S THEN Pow2[k + 1] ELSE 0) + F(k + 1) IN F(0)

(* ------------------- implementation-shaped thinning ------------------- *)
\* two digital rays may touch again diagonally and enclose a few background pixels: such pockets are
\* filled first (a pocket = 4-connected background component of the window that does not reach its ring)
Square == {<<x, y>> : x \in (0 - N)..N, y \in (0 - N)..N}
Adj4(p, q) == Abs(p[1] - q[1]) + Abs(p[2] - q[2]) = 1
RECURSIVE Reach4(_, _, _)
Reach4(B, seen, front) == IF front = {} THEN seen ELSE
                            LET nxt == {q \in B \ seen : \E p \in front : Adj4(p, q)}
                            IN  Reach4(B, seen \cup nxt, nxt)
FillPockets(S) == LET B    == Square \ S
                      ring == {p \in B : ~Interior(p)}
                      open == Reach4(B, ring, ring)
                  IN  S \cup (B \ open)
RasterFirst(D) == CHOOSE p \in D : \A q \in D : p[2] < q[2] \/ (p[2] = q[2] /\ p[1] <= q[1])
RECURSIVE CleanI(_)
CleanI(S) == LET D == {p \in S : Interior(p) /\ Deletable(CodeOf(S, p))}
             IN  IF D = {} THEN S ELSE CleanI(S \ {RasterFirst(D)})

(* ----------------------- declarative properties ----------------------- *)
Adj8(p, q) == p # q /\ Abs(p[1] - q[1]) <= 1 /\ Abs(p[2] - q[2]) <= 1
RECURSIVE Reach(_, _, _)
Reach(S, seen, front) == IF front = {} THEN seen ELSE
                           LET nxt == {q \in S \ seen : \E p \in front : Adj8(p, q)}
                           IN  Reach(S, seen \cup nxt, nxt)
Connected8(S) == S = {} \/ LET p == CHOOSE x \in S : TRUE IN Reach(S, {p}, {p}) = S
Components8(S) == {Reach(S, {p}, {p}) : p \in S}

Exits == {RingAt(a), RingAt(b), RingAt(c)}
MinimalD(S) == \A p \in S : Interior(p) => ~Deletable(CodeOf(S, p))
\* pixel statistic of the premise, on the pixels whose whole neighbourhood lies in the window
JunctionPixels(S) == {p \in S : Interior(p) /\ Pop(CodeOf(S, p)) >= 3}
ThinD(S) == /\ \A p \in S : Interior(p) => Pop(CodeOf(S, p)) >= 2 /\ ~Block(CodeOf(S, p))
            /\ \A K \in Components8(JunctionPixels(S)) : Cardinality(K) <= 3
\* the three arms still meet in a junction: some pixel has three neighbours, and taking the junction pixels
\* out separates any two exits that are not themselves neighbours on the ring
ArmsMeet(S) == LET J == JunctionPixels(S) IN
               /\ J # {}
               /\ \A e1, e2 \in Exits : (e1 # e2 /\ ~Adj8(e1, e2)) => e2 \notin Reach(S \ J, {e1}, {e1})

(* ------------------------------ machine ------------------------------- *)
Init == a = -1 /\ b = -1 /\ c = -1 /\ stage = "a" /\ w = {}
PickA == /\ stage = "a" /\ a' \in 0..(8 * N - 3) /\ stage' = "b" /\ UNCHANGED <<b, c, w>>
PickB == /\ stage = "b" /\ b' \in {q \in (a + 1)..(8 * N - 2) : GapOK(RingAt(a), RingAt(q))}
         /\ stage' = "c" /\ UNCHANGED <<a, c, w>>
PickC == /\ stage = "c" /\ c' \in {q \in (b + 1)..(8 * N - 1) : GapOK(RingAt(b), RingAt(q)) /\ GapOK(RingAt(q), RingAt(a))}
         /\ stage' = "draw" /\ UNCHANGED <<a, b, w>>
Draw  == /\ stage = "draw" /\ w' = FillPockets(Ray(RingAt(a)) \cup Ray(RingAt(b)) \cup Ray(RingAt(c)))
         /\ stage' = "clean" /\ UNCHANGED <<a, b, c>>
Clean == /\ stage = "clean" /\ w' = CleanI(w) /\ stage' = "leaf" /\ UNCHANGED <<a, b, c>>
Next == PickA \/ PickB \/ PickC \/ Draw \/ Clean
Spec == Init /\ [][Next]_vars

Leaf == stage = "leaf"

(* design-level invariants: the implementation-shaped thinning satisfies the declarative notion *)
CleanKeepsTopology == Leaf => /\ Exits \subseteq w /\ Connected8(w)
CleanIsMinimal     == Leaf => MinimalD(w)
MinimalIsThin      == Leaf => ThinD(w)          \* "minimal" implies the premise's pixel statistic
JunctionSurvives   == Leaf => ArmsMeet(w)
DrawnIsSuperset    == stage = "clean" => Exits \subseteq w /\ Connected8(w) /\ FillPockets(w) = w

SeqOfPixels(S) == LET RECURSIVE F(_) F(T) == IF T = {} THEN <<>> ELSE
                        LET p == RasterFirst(T) IN <<p>> \o F(T \ {p}) IN F(S)
Emit == Leaf => PrintT("EJ " \o ToJson([n |-> N, ring |-> <<a, b, c>>,
                                        exits |-> <<RingAt(a), RingAt(b), RingAt(c)>>,
                                        window |-> SeqOfPixels(w),
                                        njunction |-> Cardinality(JunctionPixels(w))]))
=============================================================================

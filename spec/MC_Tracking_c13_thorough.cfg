SPECIFICATION Spec
CONSTANT N = 3
CONSTANT SITES <- Sites7
CONSTANT STENCIL <- Stencil9
CONSTANT GUESSMODES <- GuessNW
CONSTANT STAMPS <- Stamps3
CONSTANT WITHVEL = TRUE
CONSTANT EMITMOD = 1499
INVARIANT InvInjective
INVARIANT InvVelocity
INVARIANT InvRhs
INVARIANT Emit
CHECK_DEADLOCK FALSE

---------------------------- MODULE Acceleration ----------------------------
(***************************************************************************)
(* Accelerations of tracked vertices (extension check `accel`, not one of  *)
(* the listed properties): TimeSeries.calculate_acceleration,              *)
(* whole_tissue_acceleration, acceleration_per_edge, velocity_per_edge and *)
(* the b_matrix = "acceleration" right-hand side of set_velocity_matrix.   *)
(*                                                                         *)
(* A series has nf >= 3 frames (1-based here). The correspondence of step  *)
(* f (frame f -> f+1) is a record mp = [none, pairs] as in Tracking.tla;   *)
(* D works on its tabulation  tab = [none, fw, bk]  (DTable):              *)
(*   fw[p]  image of vertex p of frame f   (vertex, NoneV, Unres, Raise)   *)
(*   bk[j]  the unique pre-image of vertex j of frame f+1 (vertex),        *)
(*          NoneV = no pre-image, Unres = several / unresolvable           *)
(*                                                                         *)
(* WHAT THE CODE COMPUTES (x = position, t = the frame asked for):         *)
(*   last frame   (backward)  tt1 = t-1, tt2 = t-2   a = x(t)   - 2 x(t-1) + x(t-2)   *)
(*   first frame  (forward)   tt1 = t+1, tt2 = t+2   a = x(t+2) - 2 x(t+1) + x(t)     *)
(*   otherwise    (central)   tt1 = t+1, tt2 = t-1   a = x(t+1) - 2 x(t)   + x(t-1)   *)
(* i.e. always  x(latest) - 2 x(middle) + x(earliest)  of three consecutive *)
(* time points, where x(.) at the other time points is the position of the *)
(* TRACKED PARTNER of the vertex there (D: DAccLo, DAccValue).             *)
(*                                                                         *)
(* OBSERVATION (not a violation - no listed property states it): no case   *)
(* divides by the squared time step. The result is a second DIFFERENCE of  *)
(* positions, not a second derivative; with unequal time stamps it is not  *)
(* even proportional to one (the code reads t0.time / t2.time and then     *)
(* ignores them). D below writes down exactly that.                        *)
(*                                                                         *)
(* D = declarative clauses;  I = transcription of get_point_id_by_map /    *)
(* calculate_acceleration / set_velocity_matrix on exact integer grids.    *)
(***************************************************************************)
EXTENDS Tracking

\* extra result codes of the transcription (Tracking.tla: NoneV 0, Unres -1, Unset -2, Raise -3)
Stale   == -7     \* an id of ANOTHER frame is returned unchanged (loop left at a skipped step)
AttrErr == -8     \* AttributeError: 'NoneType' object has no attribute 'items'

(* ======================================================================= *)
(* D                                                                       *)
(* ======================================================================= *)
DTable(mp, n) ==
  IF mp.none THEN [none |-> TRUE, fw |-> <<>>, bk |-> <<>>]
  ELSE [none |-> FALSE,
        fw |-> [p \in 1..n |-> DFwd(mp, p)],
        bk |-> [j \in 1..n |-> LET B == DBackSet(mp, j) IN
                               IF B = {} THEN NoneV
                               ELSE IF Cardinality(B) = 1 /\ B \subseteq 1..n THEN CHOOSE q \in B : TRUE
                               ELSE Unres]]

\* generic second difference  x - 2y + z, written as a difference of two first differences (the same number):
\* fixed-point coordinates up to 2000 Q would overflow TLC's 32-bit integers in 2 * y
SecondDiff(x, y, z) == <<(x[1] - y[1]) - (y[1] - z[1]), (x[2] - y[2]) - (y[2] - z[2])>>

\* the three consecutive time points used for frame F of nf: <<lo, lo + 1, lo + 2>>
\* (forward at the first frame, backward at the last one, central otherwise)
DAccLo(nf, F)   == IF F = 1 THEN 1 ELSE IF F = nf THEN nf - 2 ELSE F - 1
AccPlace(nf, F) == IF F = nf THEN "last" ELSE IF F = 1 THEN "first" ELSE "middle"

\* some step between frames a and b was skipped as "different tissue"
SpanSkipped(tabs, a, b) == \E f \in Min(a, b)..(Max(a, b) - 1) : tabs[f].none
AccSkipped(tabs, nf, F) == LET lo == DAccLo(nf, F) IN SpanSkipped(tabs, lo, lo + 2)

\* tracked partner of vertex p of frame F at frame G (no skipped step in between):
\* a vertex of frame G, NoneV = there is none, Unres = cannot be told
RECURSIVE DPartner(_, _, _, _)
DPartner(tabs, p, F, G) ==
  IF F = G THEN p
  ELSE IF F < G
       THEN LET q == tabs[F].fw[p] IN
            IF q \in {NoneV, Raise} THEN NoneV ELSE IF q = Unres THEN Unres ELSE DPartner(tabs, q, F + 1, G)
       ELSE LET q == tabs[F - 1].bk[p] IN
            IF q = NoneV THEN NoneV ELSE IF q = Unres THEN Unres ELSE DPartner(tabs, q, F - 1, G)

\* what D expects of calculate_acceleration(p, F):
\*   <<"skipped" | "value" | "nan" | "open", q_lo, q_mid, q_hi>>  (partners at the three time points, p itself at F)
DAccelKind(tabs, nf, p, F) ==
  IF AccSkipped(tabs, nf, F) THEN <<"skipped", 0, 0, 0>>
  ELSE LET lo == DAccLo(nf, F)
           q  == [k \in 1..3 |-> DPartner(tabs, p, F, lo + k - 1)]
       IN  IF q[1] > 0 /\ q[2] > 0 /\ q[3] > 0 THEN <<"value", q[1], q[2], q[3]>>
           ELSE IF q[1] = NoneV \/ q[2] = NoneV \/ q[3] = NoneV THEN <<"nan", 0, 0, 0>>   \* no tracked partner at either time point
           ELSE <<"open", 0, 0, 0>>

\* the acceleration D expects: second difference  x(lo+2) - 2 x(lo+1) + x(lo)  of the tracked positions
\* (NOT divided by any time step, see the observation above); pos[F][p] = <<x, y>>, d = DAccelKind with "value"
DAccValue(pos, nf, F, d) == LET lo == DAccLo(nf, F) IN SecondDiff(pos[lo + 2][d[4]], pos[lo + 1][d[3]], pos[lo][d[2]])

\* exact judgement (integer grids); r = <<kind, ax, ay>> with kind in
\* "val" | "nan" | "dte" (DifferentTissueException) | "attr" | "stale"
DAccelOK(pos, tabs, nf, p, F, r) ==
  LET d == DAccelKind(tabs, nf, p, F) IN
  CASE d[1] = "skipped" -> r[1] \in {"nan", "dte"}
    [] d[1] = "value"   -> r[1] = "val" /\ <<r[2], r[3]>> = DAccValue(pos, nf, F, d)
    [] d[1] = "nan"     -> r[1] = "nan"
    [] OTHER            -> TRUE

\* right-hand side in acceleration mode: rows row[j]+1, row[j]+2 (1-based) of junction j hold its
\* acceleration, NaN replaced by zeros; accs[j] = <<kind, ax, ay>>
DAccRhsOK(b, used, row, accs) ==
  \A j \in Range(used) :
     IF accs[j][1] = "val" THEN b[row[j] + 1] = accs[j][2] /\ b[row[j] + 2] = accs[j][3]
     ELSE IF accs[j][1] = "nan" THEN b[row[j] + 1] = 0 /\ b[row[j] + 2] = 0
     ELSE TRUE

\* per interface and step: the ids of the two ends at frame G, followed forward from frame F0;
\* <<"skipped" | "nan" | "both" | "open", q0, q1>>  ("nan": an end has no successor (None) at G)
DEdgeKind(tabs, p0, p1, F0, G) ==
  IF SpanSkipped(tabs, F0, G) THEN <<"skipped", 0, 0>>
  ELSE LET q0 == DPartner(tabs, p0, F0, G)  q1 == DPartner(tabs, p1, F0, G) IN
       IF q0 > 0 /\ q1 > 0 THEN <<"both", q0, q1>>
       ELSE IF q0 = NoneV \/ q1 = NoneV THEN <<"nan", 0, 0>>
       ELSE <<"open", 0, 0>>

(* ======================================================================= *)
(* I — transcription on integer grids                                      *)
(*   ims[f]  = IMapping of step f ([none, map]),  ords[f] = dict order of  *)
(*   the interface end points of frame f                                   *)
(* ======================================================================= *)
\* get_point_id_by_map, forward: `if point == None or tempMapping == None: break` returns the point as it is
RECURSIVE IPbmFwd(_, _, _, _)
IPbmFwd(ims, point, ii, G) ==
  IF ii = G THEN point
  ELSE IF point = NoneV THEN NoneV
  ELSE IF ims[ii].none THEN Stale
  ELSE LET q == IFwd(ims[ii], point) IN IF q = Raise THEN Raise ELSE IPbmFwd(ims, q, ii + 1, G)
\* backward: the dict of step ii-1 is inverted first (AttributeError on a skipped step), then the same test
RECURSIVE IPbmBack(_, _, _, _, _)
IPbmBack(ims, ords, point, ii, G) ==
  IF ii = G THEN point
  ELSE IF ims[ii - 1].none THEN AttrErr
  ELSE IF point = NoneV THEN NoneV
  ELSE LET q == IBack(ims[ii - 1], ords[ii - 1], point) IN
       IF q = Raise THEN Raise ELSE IPbmBack(ims, ords, q, ii - 1, G)
IPbm(ims, ords, p, F, G) == IF F <= G THEN IPbmFwd(ims, p, F, G) ELSE IPbmBack(ims, ords, p, F, G)

\* calculate_acceleration (0-based t = F - 1 as in the code): tt1, tt2 by the position of t, then
\* v1 and v2 inside one try; KeyError (None / unknown id) -> NaN; the three formulas f0 = x(t), f1 = x(tt1), f2 = x(tt2)
ITimes(nf, t) == IF t = nf - 1 THEN <<t - 1, t - 2>> ELSE IF t = 0 THEN <<t + 1, t + 2>> ELSE <<t + 1, t - 1>>
IFormula(nf, t, f0, f1, f2) ==
  IF t = nf - 1 THEN <<f0[1] - 2 * f1[1] + f2[1], f0[2] - 2 * f1[2] + f2[2]>>
  ELSE IF t = 0 THEN <<f2[1] - 2 * f1[1] + f0[1], f2[2] - 2 * f1[2] + f0[2]>>
  ELSE <<f1[1] - 2 * f0[1] + f2[1], f1[2] - 2 * f0[2] + f2[2]>>
IAccel(pos, ims, ords, nf, p, F) ==
  LET tt == ITimes(nf, F - 1)
      G1 == tt[1] + 1
      G2 == tt[2] + 1
      q1 == IPbm(ims, ords, p, F, G1)
      q2 == IPbm(ims, ords, p, F, G2)
      a  == IFormula(nf, F - 1, pos[F][p], pos[G1][q1], pos[G2][q2])
  IN  IF q1 = AttrErr THEN <<"attr", 0, 0>>
      ELSE IF q1 = Stale THEN <<"stale", 0, 0>>
      ELSE IF q1 \in {NoneV, Raise} THEN <<"nan", 0, 0>>
      ELSE IF q2 = AttrErr THEN <<"attr", 0, 0>>
      ELSE IF q2 = Stale THEN <<"stale", 0, 0>>
      ELSE IF q2 \in {NoneV, Raise} THEN <<"nan", 0, 0>>
      ELSE <<"val", a[1], a[2]>>

\* set_velocity_matrix(b_matrix = "acceleration"): b[j] = value[0], b[j+1] = value[1], NaN -> [0, 0]
IAccRhs(nrows, used, row, accs) ==
  LET RECURSIVE F(_, _)
      F(k, b) == IF k > Len(used) THEN b
                 ELSE LET j == used[k]
                          v == IF accs[j][1] = "val" THEN <<accs[j][2], accs[j][3]>> ELSE <<0, 0>>
                      IN  F(k + 1, [b EXCEPT ![row[j] + 1] = v[1], ![row[j] + 2] = v[2]])
  IN  F(1, [k \in 1..nrows |-> 0])

\* acceleration_per_edge, one step: ids of the two ends by get_point_id_by_map(initial -> ii), None -> nan,
\* otherwise |a0| + |a1| (nan as soon as one of them is nan); accs[G][q] = IAccel of vertex q of frame G:
\* <<"nan" | "sum" | "stale" | "attr" | "key", q0, q1>>
IEdgeStep(ims, accs, p0, p1, F0, G) ==
  LET q0 == IPbmFwd(ims, p0, F0, G)  q1 == IPbmFwd(ims, p1, F0, G) IN
  IF q0 = Stale \/ q1 = Stale THEN <<"stale", 0, 0>>
  ELSE IF q0 = Raise \/ q1 = Raise THEN <<"key", 0, 0>>
  ELSE IF q0 = NoneV \/ q1 = NoneV THEN <<"nan", 0, 0>>
  ELSE LET a0 == accs[G][q0]  a1 == accs[G][q1] IN
       IF a0[1] = "attr" \/ a1[1] = "attr" THEN <<"attr", 0, 0>>
       ELSE IF a0[1] = "stale" \/ a1[1] = "stale" THEN <<"stale", 0, 0>>
       ELSE IF a0[1] = "nan" \/ a1[1] = "nan" THEN <<"nan", 0, 0>>
       ELSE <<"sum", q0, q1>>

(* ======================================================================= *)
(* Known-finding matchers (instance level)                                 *)
(* ======================================================================= *)
\* findings/accel_skipped_step.py: a step inside the three time points was skipped as "different tissue"
\* (mapping[f] is None). calculate_velocity raises DifferentTissueException there (and acceleration_per_edge
\* catches exactly that), calculate_acceleration instead crashes with AttributeError (backward over the
\* skipped step) or goes on with the id of another frame (forward) and returns a number for a vertex that is not
\* the tracked partner. outcome = "attr" | "value"
KF_AccelSkippedStep(skipped, outcome) == skipped /\ outcome \in {"attr", "stale", "value"}
\* findings/accel_per_edge_stale_id.py: the same loop exit in get_point_id_by_map inside acceleration_per_edge /
\* velocity_per_edge / whole_tissue_acceleration: after a skipped step the id of an earlier frame is looked up in a
\* later frame (KeyError, AttributeError or the value of an unrelated vertex instead of nan)
KF_PerEdgeSkippedStep(skipped, outcome) == skipped /\ outcome \in {"key", "attr", "stale", "value"}
=============================================================================

SPECIFICATION Spec
CONSTANT Scope = "thorough"
INVARIANT EnvInPremise
INVARIANT ImplSatisfiesD
INVARIANT DefectIsVerticalRidge
INVARIANT RepairedImplSatisfiesD
INVARIANT ImplStoresCCW
INVARIANT SenseRoutesAgree
INVARIANT Emit
CHECK_DEADLOCK FALSE

------------------------------ MODULE Resample ------------------------------
(***************************************************************************)
(* Property C11 - mesh resampling (generate_mesh) keeps junctions,         *)
(* topology and interface shape.                                           *)
(*                                                                         *)
(* D (declarative)  C11Eval(b, a, lk, ne, rse, eps): one clause per phrase *)
(*   of the statement, on a snapshot b taken before the call, a snapshot a *)
(*   taken after it (both projected meshes, Mesh.tla, plus                 *)
(*      vid[v] / cid[c]  original ids,                                     *)
(*      pid[v]           interned exact position: equal floats <=> equal,  *)
(*      pos[v]           <<x, y>> fixed point, origin preserving),         *)
(*   and the link lk between them BY ORIGINAL ID:                          *)
(*      lk.b2a[v] / lk.a2b[j]    vertex of a / of b with the same id, or 0 *)
(*      lk.cb2a[c] / lk.ca2b[d]  the same for cells.                       *)
(* I (implementation-shaped)  ImplResample(b, ne, rse): generate_mesh as   *)
(*   the composition GenerateMesh of MeshEdits.tla, on the state of b.     *)
(*                                                                         *)
(* Readings (the least demanding one wherever the statement leaves room):  *)
(*  R1 "the same point / junction" = a vertex with the same id AND the     *)
(*     same exact position (get_unused_id may give a new vertex the id of  *)
(*     a removed one: such a vertex is a NEW point).                       *)
(*  R2 "interface" = maximal path between vertices with >= 3 mesh edges    *)
(*     through vertices with 2 (Interfaces.tla Paths).  Cells without any  *)
(*     such vertex have no interface; nothing is demanded of them.         *)
(*  R3 "cell that has a junction" = its cycle contains a vertex listed by  *)
(*     >= 3 cells (the junctions of the first clause); "survives" = a cell *)
(*     with the same id exists afterwards.                                 *)
(*  R4 "adjacent" = an interface lies on the boundary of both cells.  Kept *)
(*     = both cells survive and afterwards share a mesh edge (consecutive  *)
(*     pair of both cycles) or - when their common interface may have been *)
(*     contracted - a new vertex.                                          *)
(*  R5 "on the tissue border" (two-point interface) = both ends listed by  *)
(*     < 3 cells (the code's test).  Contraction is demanded for ne >= 2   *)
(*     with replace_short_edges; for ne = 1 (every interface is cut to its *)
(*     two ends anyway) contracted and unchanged are both accepted;        *)
(*     without replace_short_edges it is forbidden.                        *)
(*  R6 two contractible interfaces that share an end ("chain") cannot both *)
(*     be contracted to their own midpoints: a member of a chain may be    *)
(*     contracted or left, and a new vertex of a chain is only required to *)
(*     lie in the bounding box of the contractible ends.                   *)
(*  R7 "replaced by an ordered subsequence": the surviving points of the   *)
(*     interface, in order, are joined pairwise by mesh edges afterwards;  *)
(*     an end that was contracted away is represented by a new vertex.     *)
(*     The returned nEdgeArray is compared as drift only.                  *)
(*  R8 "at most ne+1 points": at most ne-1 interior points survive.        *)
(*  R9 a closed-loop interface (both ends the same junction) cannot be     *)
(*     drawn with one segment: ne = 1 on a mesh with a closed loop is a    *)
(*     rejected input.  An inconsistent mesh (C09) is a rejected input.    *)
(*  R10 "changes nothing" = same vertex ids at the same exact positions,   *)
(*     same cell ids with the same cycles up to rotation, same set of      *)
(*     mesh edges as vertex pairs (mesh-edge ids may be renumbered).  Not  *)
(*     demanded of inputs with a chain (R6): what is left of a chain after *)
(*     one contraction is again a two-point border interface.              *)
(***************************************************************************)
EXTENDS MeshEdits, TLC

LOCAL Rs(q) == {q[i] : i \in DOMAIN q}

\* |2m - a - b| <= eps per coordinate (positions are bounded by 5*10^8 in magnitude: no overflow)
MidOK(m, p, q, eps)    == /\ AbsI(2 * m[1] - (p[1] + q[1])) <= eps
                          /\ AbsI(2 * m[2] - (p[2] + q[2])) <= eps
\* the mirrored midpoint (|p + q| / 2 per coordinate) with at least one coordinate actually mirrored
Mirrored(m, p, q, eps) == /\ AbsI(2 * m[1] - AbsI(p[1] + q[1])) <= eps
                          /\ AbsI(2 * m[2] - AbsI(p[2] + q[2])) <= eps
                          /\ (p[1] + q[1] < -eps \/ p[2] + q[2] < -eps)

LinkOK(b, a, lk) ==
  /\ Len(lk.b2a) = b.nv /\ Len(lk.a2b) = a.nv /\ Len(lk.cb2a) = b.nc /\ Len(lk.ca2b) = a.nc
  /\ \A v \in V(b) : lk.b2a[v] # 0 => (a.vid[lk.b2a[v]] = b.vid[v] /\ lk.a2b[lk.b2a[v]] = v)
  /\ \A j \in V(a) : lk.a2b[j] # 0 => lk.b2a[lk.a2b[j]] = j
  /\ LET bids == Rs(b.vid) IN \A j \in V(a) : lk.a2b[j] = 0 => a.vid[j] \notin bids
  /\ \A c \in Ce(b) : lk.cb2a[c] # 0 => (a.cid[lk.cb2a[c]] = b.cid[c] /\ lk.ca2b[lk.cb2a[c]] = c)
  /\ \A d \in Ce(a) : lk.ca2b[d] # 0 => lk.cb2a[lk.ca2b[d]] = d
  /\ LET bids == Rs(b.cid) IN \A d \in Ce(a) : lk.ca2b[d] = 0 => a.cid[d] \notin bids

PosInRange(m) == \A v \in V(m) : AbsI(m.pos[v][1]) <= 500000000 /\ AbsI(m.pos[v][2]) <= 500000000

AllClauses == {"C11.junction_positions", "C11.cells_kept", "C11.adjacency_kept", "C11.ends_kept",
               "C11.max_points", "C11.subsequence", "C11.short_unchanged", "C11.contracted",
               "C11.midpoint", "C11.cycle_subsequence"}

(*********************************** D *************************************)
\* returns [fails, kf, hits, rejected, drift]
C11Eval(b, a, lk, ne, rse, eps) ==
  LET alive(v)  == lk.b2a[v] # 0 /\ a.pid[lk.b2a[v]] = b.pid[v]                       \* R1
      newA      == {j \in V(a) : lk.a2b[j] = 0 \/ ~alive(lk.a2b[j])}
      PB        == Paths(b)                                                           \* R2
      may       == rse                                                                \* R5
      must      == rse /\ ne >= 2
      CT        == {p \in PB : Len(p) = 2 /\ NCells(b, p[1]) < 3 /\ NCells(b, p[2]) < 3}
      CE        == UNION {{p[1], p[2]} : p \in CT}
      chain(p)  == \E q \in CT : q # p /\ ({q[1], q[2]} \cap {p[1], p[2]}) # {}
      hasChain  == \E p \in CT : chain(p)
      loops     == {p \in PB : p[1] = p[Len(p)]}
      aPairs    == {{a.E[e][1], a.E[e][2]} : e \in Ed(a)}
      \* bounding box of the contractible ends (R6)
      ceX       == {b.pos[v][1] : v \in CE}
      ceY       == {b.pos[v][2] : v \in CE}
      inBox(m)  == /\ (\E x \in ceX : x <= m[1] + eps) /\ (\E x \in ceX : x >= m[1] - eps)
                   /\ (\E y \in ceY : y <= m[2] + eps) /\ (\E y \in ceY : y >= m[2] - eps)
      posOK(n, p) == IF chain(p) THEN inBox(a.pos[n]) ELSE MidOK(a.pos[n], b.pos[p[1]], b.pos[p[2]], eps)
      \* a chain of mirrored midpoints ends between 0 and the largest |coordinate| of the contractible ends
      maxAbs(S)   == CHOOSE x \in {AbsI(y) : y \in S} : \A y \in S : AbsI(y) <= x
      inAbsBox(m) == /\ m[1] >= -eps /\ m[1] <= maxAbs(ceX) + eps /\ m[2] >= -eps /\ m[2] <= maxAbs(ceY) + eps
                     /\ ((\E x \in ceX : x < -eps) \/ (\E y \in ceY : y < -eps))
      posKF(n, p) == IF chain(p) THEN inAbsBox(a.pos[n])
                     ELSE Mirrored(a.pos[n], b.pos[p[1]], b.pos[p[2]], eps)

      \* ---- junctions, cells, adjacency ----
      junctionsOK == \A v \in V(b) : NCells(b, v) >= 3 => alive(v)
      hasJ(c)     == \E i \in DOMAIN b.C[c] : NCells(b, b.C[c][i]) >= 3                  \* R3
      cellsOK     == \A c \in Ce(b) : hasJ(c) => lk.cb2a[c] # 0
      adjAfter(c, d) ==                                                               \* R4
        /\ lk.cb2a[c] # 0 /\ lk.cb2a[d] # 0
        /\ LET cc == a.C[lk.cb2a[c]]  dd == a.C[lk.cb2a[d]]  ds == Rs(dd)  cs == Rs(cc)
           IN  \/ \E i \in DOMAIN cc : LET u == cc[i]  w == cc[Nxt(i, Len(cc))]
                                       IN  u \in ds /\ w \in ds /\ ConsecutiveIn(dd, u, w)
               \/ may /\ \E n \in newA : n \in ds /\ n \in cs
      adjPairs    == UNION {LET sc == SepCells(b, p) IN {cd \in sc \X sc : cd[1] < cd[2]} : p \in PB}
      adjOK       == \A cd \in adjPairs : adjAfter(cd[1], cd[2])

      \* ---- interfaces ----
      endOK(x)    == alive(x) \/ (may /\ x \in CE)
      endsOK      == \A p \in PB : endOK(p[1]) /\ endOK(p[Len(p)])
      nInt(p)     == Cardinality({i \in 2..(Len(p) - 1) : alive(p[i])})
      maxOK       == \A p \in PB : nInt(p) <= ne - 1                                  \* R8
      gone(p)     == ~alive(p[1]) /\ ~alive(p[Len(p)])
      \* the surviving points in order as vertices of a; 0 = "a new vertex" for a contracted end (R7)
      image(p)    == LET keepI == {i \in DOMAIN p : alive(p[i]) \/ (i \in {1, Len(p)} /\ endOK(p[i]))}
                         idx   == SeqOfSetSorted(keepI)
                     IN  [k \in DOMAIN idx |-> IF alive(p[idx[k]]) THEN lk.b2a[p[idx[k]]] ELSE 0]
      joined(x, y) == IF x # 0 /\ y # 0 THEN {x, y} \in aPairs
                      ELSE IF x = 0 /\ y = 0 THEN \E n1, n2 \in newA : n1 # n2 /\ {n1, n2} \in aPairs
                      ELSE \E n \in newA : {n, x + y} \in aPairs
      chainOK(p)  == LET t == image(p) IN Len(t) >= 2 /\ \A k \in 1..(Len(t) - 1) : joined(t[k], t[k + 1])
      subseqOK    == \A p \in PB : (p \in CT /\ may /\ gone(p)) \/ chainOK(p)
      shortOK     == \A p \in PB : Len(p) <= ne + 1 => \A i \in 2..(Len(p) - 1) : alive(p[i])
      contractedOK == must => \A p \in CT : gone(p) \/ chain(p)                       \* R6
      \* ---- the new vertices (R5, R6) ----
      doneCT      == IF may THEN {p \in CT : gone(p)} ELSE {}
      badCT       == {p \in doneCT : ~\E n \in newA : posOK(n, p)}
      badNew      == {n \in newA : ~(may /\ \E p \in CT : posOK(n, p))}
      kfCT        == {p \in badCT : \E n \in newA : posKF(n, p)}
      kfNew       == {n \in badNew : may /\ \E p \in CT : posKF(n, p)}
      midOK       == badCT = kfCT /\ badNew = kfNew
      \* ---- cell cycles ----
      match(x, y) == IF x = 0 THEN may /\ y \in CE ELSE x = y
      cycOK(d)    ==
        /\ lk.ca2b[d] # 0
        /\ LET t  == b.C[lk.ca2b[d]]
               n  == Len(t)
               s0 == a.C[d]
               s  == [i \in DOMAIN s0 |-> IF s0[i] = 0 THEN -1             \* the cycle names a vertex the result does not contain
                                          ELSE IF s0[i] \in newA THEN 0 ELSE lk.a2b[s0[i]]]
               RECURSIVE Emb(_, _, _)
               Emb(r, i, j) == \* s[i..] embeds in order into t[r + j], t[r + j + 1], ... , t[r + n - 1] (cyclically)
                  IF i > Len(s) THEN TRUE
                  ELSE IF j > n - 1 THEN FALSE
                  ELSE IF match(s[i], t[((r - 1 + j) % n) + 1]) THEN Emb(r, i + 1, j + 1) ELSE Emb(r, i, j + 1)
           IN  Len(s) = 0 \/ \E r \in DOMAIN t : match(s[1], t[r]) /\ Emb(r, 2, 1)
      cyclesOK    == \A d \in Ce(a) : cycOK(d)

      rejected    == Consistent(b) # {} \/ ~PosInRange(b) \/ (ne = 1 /\ loops # {}) \/ ne < 1       \* R9
      fails0      == {c \in AllClauses :
                        \/ c = "C11.junction_positions" /\ ~junctionsOK
                        \/ c = "C11.cells_kept"         /\ ~cellsOK
                        \/ c = "C11.adjacency_kept"     /\ ~adjOK
                        \/ c = "C11.ends_kept"          /\ ~endsOK
                        \/ c = "C11.max_points"         /\ ~maxOK
                        \/ c = "C11.subsequence"        /\ ~subseqOK
                        \/ c = "C11.short_unchanged"    /\ ~shortOK
                        \/ c = "C11.contracted"         /\ ~contractedOK
                        \/ c = "C11.midpoint"           /\ ~midOK
                        \/ c = "C11.cycle_subsequence"  /\ ~cyclesOK}
      hits0       == {c \in AllClauses :
                        \/ c = "C11.junction_positions" /\ \E v \in V(b) : NCells(b, v) >= 3
                        \/ c = "C11.cells_kept"         /\ \E c2 \in Ce(b) : hasJ(c2)
                        \/ c = "C11.adjacency_kept"     /\ adjPairs # {}
                        \/ c = "C11.ends_kept"          /\ PB # {}
                        \/ c = "C11.max_points"         /\ \E p \in PB : Len(p) > ne + 1
                        \/ c = "C11.subsequence"        /\ \E p \in PB : Len(p) > ne + 1
                        \/ c = "C11.short_unchanged"    /\ \E p \in PB : Len(p) <= ne + 1 /\ Len(p) > 2
                        \/ c = "C11.contracted"         /\ must /\ CT # {}
                        \/ c = "C11.midpoint"           /\ doneCT # {}
                        \/ c = "C11.cycle_subsequence"  /\ \E v \in V(b) : ~alive(v)}
  IN  IF rejected THEN [fails |-> {}, kf |-> {}, hits |-> {}, rejected |-> TRUE, chain |-> FALSE]
      ELSE [fails |-> fails0,
            kf |-> IF kfCT # {} \/ kfNew # {} THEN {"KF_MirroredMidpoint:C11.midpoint"} ELSE {},
            hits |-> hits0, rejected |-> FALSE, chain |-> must /\ hasChain]

\* verdict on a call that raised: a refusal on a chain of contractible interfaces (R6) is the
\* known finding KF_ContractionChain; on a rejected input (R9) nothing is demanded
C11Raised(b, ne, rse) ==
  LET PB    == Paths(b)
      CT    == {p \in PB : Len(p) = 2 /\ NCells(b, p[1]) < 3 /\ NCells(b, p[2]) < 3}
      chain == \E p, q \in CT : q # p /\ ({q[1], q[2]} \cap {p[1], p[2]}) # {}
      loops == {p \in PB : p[1] = p[Len(p)]}
      rejected == Consistent(b) # {} \/ ~PosInRange(b) \/ (ne = 1 /\ loops # {}) \/ ne < 1
  IN  IF rejected THEN [fails |-> {}, kf |-> {}, hits |-> {}, rejected |-> TRUE, chain |-> FALSE]
      ELSE IF rse /\ ne >= 2 /\ chain
           THEN [fails |-> {}, kf |-> {"KF_ContractionChain:C11.raised"}, hits |-> {"C11.raised"},
                 rejected |-> FALSE, chain |-> TRUE]
           ELSE [fails |-> {"C11.raised"}, kf |-> {}, hits |-> {"C11.raised"}, rejected |-> FALSE, chain |-> FALSE]

\* R6: the mesh has two contractible two-point interfaces that share an end, and contraction is demanded
ChainInput(b, ne, rse) ==
  rse /\ ne >= 2 /\ Consistent(b) = {} /\
  LET PB == Paths(b)
      CT == {p \in PB : Len(p) = 2 /\ NCells(b, p[1]) < 3 /\ NCells(b, p[2]) < 3}
  IN  \E p, q \in CT : q # p /\ ({q[1], q[2]} \cap {p[1], p[2]}) # {}

\* R10: resampling an already resampled mesh changes nothing
RotEq(s, t) == /\ Len(s) = Len(t)
               /\ (Len(s) = 0 \/ \E r \in DOMAIN t : t[r] = s[1] /\
                                    \A i \in DOMAIN s : s[i] = t[((r + i - 2) % Len(t)) + 1])
Unchanged(b, a, lk) ==
  /\ b.nv = a.nv /\ \A v \in V(b) : lk.b2a[v] # 0 /\ a.pid[lk.b2a[v]] = b.pid[v]
  /\ b.nc = a.nc /\ \A c \in Ce(b) : lk.cb2a[c] # 0 /\
        LET s0 == a.C[lk.cb2a[c]] IN RotEq([i \in DOMAIN s0 |-> IF s0[i] = 0 THEN 0 ELSE lk.a2b[s0[i]]], b.C[c])
  /\ {{lk.a2b[a.E[e][1]], lk.a2b[a.E[e][2]]} : e \in {x \in Ed(a) : a.E[x][1] # 0 /\ a.E[x][2] # 0}}
       = {{b.E[e][1], b.E[e][2]} : e \in Ed(b)}
  /\ \A e \in Ed(a) : a.E[e][1] # 0 /\ a.E[e][2] # 0

(*********************************** I *************************************)
\* generate_mesh on the state of b; the new objects get the handles b.nv + 1, b.nv + 2, ...
ImplResample(b, ne, rse) == GenerateMeshM(StateOf(b), [hs |-> [v \in 1..b.nv |-> v]] @@ b, ne, rse, b.nv + 1)

\* the (a, lk) a harness would log for the state reached by I (pid: old vertices keep theirs, a new
\* vertex gets a fresh one)
ImplAfter(b, s) ==
  LET m    == AbstractOf(s)
      NB   == b.nv
      NA   == Len(m.hs)
      rv   == RankAcc(s.vd, MaxOf(s.vd), 1, 0, <<>>)
      newH == {h \in s.vd : h > NB}
      pid  == [i \in DOMAIN m.hs |-> IF m.hs[i] <= NB THEN b.pid[m.hs[i]] ELSE 1000000 + m.hs[i]]
      a    == [m EXCEPT !.cid = [i \in DOMAIN s.co |-> b.cid[s.co[i]]]] @@ [pid |-> pid]
      \* the link BY ID, as a harness sees it (a new vertex may carry the id of a removed one)
      b2a(v) == IF v \in s.vd THEN rv[v]
                ELSE IF \E h \in newH : s.V[h].id = b.vid[v] THEN rv[CHOOSE h \in newH : s.V[h].id = b.vid[v]] ELSE 0
      a2b(j) == LET h == m.hs[j] IN
                IF h <= NB THEN h
                ELSE IF \E v \in V(b) : b.vid[v] = s.V[h].id THEN CHOOSE v \in V(b) : b.vid[v] = s.V[h].id ELSE 0
  IN  [a |-> a,
       lk |-> [b2a |-> [v \in V(b) |-> b2a(v)], a2b |-> [j \in 1..NA |-> a2b(j)],
               cb2a |-> [c \in Ce(b) |-> IndexIn(s.co, c)], ca2b |-> [d \in 1..Len(s.co) |-> s.co[d]]]]

\* code ~ I (drift only): the logged result against the transcription's
ImplDrift(b, a, arr, raised, ne, rse, eps) ==
  LET r  == ImplResample(b, ne, rse)
      s  == r.s
      ia == ImplAfter(b, s).a
      rcls == IF raised = "" THEN "" ELSE raised
      posClose == \A j \in V(a) : AbsI(a.pos[j][1] - ia.pos[j][1]) <= eps /\ AbsI(a.pos[j][2] - ia.pos[j][2]) <= eps
  IN  IF s.err # "" \/ raised # ""
      THEN (IF s.err = rcls THEN {} ELSE {"drift.raised:" \o s.err \o "/" \o rcls})
      ELSE {d \in {"drift.vertex_ids", "drift.cycles", "drift.edges", "drift.own_edges", "drift.own_cells",
                   "drift.returned_list", "drift.new_position"} :
              \/ d = "drift.vertex_ids"    /\ a.vid # ia.vid
              \/ d = "drift.cycles"        /\ (a.cid # ia.cid \/ a.C # ia.C)
              \/ d = "drift.edges"         /\ (a.eid # ia.eid \/ a.E # ia.E)
              \/ d = "drift.own_edges"     /\ a.oe # ia.oe
              \/ d = "drift.own_cells"     /\ a.oc # ia.oc
              \/ d = "drift.returned_list" /\ arr # r.arr
              \/ d = "drift.new_position"  /\ a.vid = ia.vid /\ ~posClose}
=============================================================================

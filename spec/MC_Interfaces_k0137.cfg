SPECIFICATION Spec
CONSTANT KS = {0, 1, 3, 7}
INVARIANT ModelMeshConsistent
INVARIANT ImplSatisfiesD
INVARIANT ThreeCopiesAgree
INVARIANT Emit
CHECK_DEADLOCK FALSE

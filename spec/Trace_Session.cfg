SPECIFICATION TSpec
CONSTANT NF = 3
CONSTANT Limits = {"pi", "low", "inf"}
CONSTANT Fits = {"dlite", "taubinSVD"}
CONSTANT Methods = {"default", "lsq_linear", "lsq", "fix_stress"}
CONSTANT BModes = {"static", "velocity"}
CONSTANT PressuresKeyed = TRUE
CONSTANT ExcludedReset = TRUE
POSTCONDITION Done
CHECK_DEADLOCK FALSE

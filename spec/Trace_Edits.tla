----------------------------- MODULE Trace_Edits -----------------------------
(* Trace validation of construction / editing paths (C09).  Events of a case:  *)
(*   Mesh : {mesh, raised, src}            a parser's (or builder's) output;   *)
(*          judged exactly as Trace_Mesh.tla judges its `Mesh` event:          *)
(*          Consistent(mesh), or C09.raised when the parser raised.            *)
(*   Step : {op, ne, rse, depth, mesh, raised}  the mesh after one more public *)
(*          operation applied to the mesh at depth `depth` of the case's tree  *)
(*          of operation sequences (the root `Mesh` is depth 0; events arrive  *)
(*          in depth-first order, every node is judged once):                  *)
(*            op = "G"   generate_mesh(ne, replace_short_edges = rse)          *)
(*            op = "F"   Frame construction                                    *)
(*            op = "J"   join_two_vertices,  "T3" do_t3_transition,            *)
(*            "TRI" / "ISO" / "ORPH"  the parsers' clean-up blocks,            *)
(*            "SK"  Skeleton.create_lattice on the contours whose raw mesh     *)
(*                  (built by the harness) is the previous mesh                *)
(*          judged by Consistent(mesh); a raise is C09.raised.                 *)
(* Known-finding matchers (each evaluated on the mesh the failing operation was *)
(* applied to, per failing clause):                                            *)
(*   KF_ContractionChain  generate_mesh / join_two_vertices refuse a mesh in   *)
(*       which two contractible two-point interfaces share an end (R6)         *)
(*   KF_LensContraction   contraction of (a, b) while a cell contains a and b  *)
(*       not next to each other                                                *)
(*   KF_TriangleRemoval   the skeleton parser's "triangles in the middle" step *)
(* Premises (rejected inputs): Proper, LoopNe1, TessPremiseFails, SKPremise.   *)
EXTENDS Resample, TraceKit

VARIABLES l, stk            \* stk[d + 1] = mesh at depth d on the current path
vars == <<l, stk>>
NoMesh == [nv |-> -1]
Init == l = 1 /\ stk = <<>>

\* premise of the tessellation parser, from logged data (fixed point, 1e-6): no finite Voronoi ridge is
\* vertical after the parser's rounding to 3 decimals (division by zero in line_eq: C19's finding) and no
\* two Voronoi vertices round to the same point (a mesh edge from a vertex to itself)
TessPremiseFails(e) == Has(e, "min_dx") /\ (e.min_dx < 1000 \/ e.min_sep < 2000)
DoMesh(e) ==
  /\ e.ev = "Mesh"
  /\ LET rej   == e.raised # "" /\ TessPremiseFails(e)
         fails == IF rej THEN {} ELSE IF e.raised # "" THEN {"C09.raised"} ELSE Consistent(e.mesh)
     IN  EmitV(e, fails, {}, {"C09.consistent"}, {}, rej)
  /\ stk' = <<IF e.raised # "" THEN NoMesh ELSE e.mesh>>

\* the premise of a step: the mesh it is applied to is a proper cell complex - Consistent, every cell has at
\* least 3 vertices, no two mesh edges join the same pair of vertices.  (create_edges_new lists two two-point
\* interfaces between the same junctions once, so generate_mesh cannot keep a doubled edge: C11's finding
\* KF_ParallelEdges; what follows from a degenerate mesh is not judged here.)
Proper(mm) == /\ \A c \in Ce(mm) : Len(mm.C[c]) >= 3
              /\ Cardinality({{mm.E[e][1], mm.E[e][2]} : e \in Ed(mm)}) = mm.ne

\* two contractible two-point interfaces of mm share an end
HasChain(mm) ==
  LET PB == Paths(mm)
      CT == {p \in PB : Len(p) = 2 /\ NCells(mm, p[1]) < 3 /\ NCells(mm, p[2]) < 3}
  IN  \E p, q \in CT : q # p /\ ({q[1], q[2]} \cap {p[1], p[2]}) # {}
\* ne = 1 on a mesh with a closed-loop interface asks for a mesh edge from a vertex to itself
LoopNe1(mm, ne) == ne = 1 /\ \E p \in Paths(mm) : p[1] = p[Len(p)]

\* a contractible two-point interface (a, b) and a cell whose cycle contains a and b but not next to each
\* other (a second interface a - x - b runs along that cell: a sliver between the two that is not a cell).
\* Cell.replace_vertex then substitutes the new vertex for one end and REMOVES the other, so x ends up on
\* the wrong side of the merged vertex
HasLens(mm) ==
  LET PB == Paths(mm)
      CT == {p \in PB : Len(p) = 2 /\ NCells(mm, p[1]) < 3 /\ NCells(mm, p[2]) < 3}
      Rc(q) == {q[i] : i \in DOMAIN q}
  IN  \E p \in CT, c \in Ce(mm) : p[1] \in Rc(mm.C[c]) /\ p[2] \in Rc(mm.C[c]) /\ ~ConsecutiveIn(mm.C[c], p[1], p[2])
LensClauses == {"C09.cycle_edges", "C09.cycle_simple"}
\* two interfaces with the same pair of ends: what the skeleton parser's "triangles in the middle" step looks
\* for.  That step (op TRI) deletes the edges of the vertex it merges while iterating the vertex's live
\* ownEdges list (every other edge survives and keeps referring to the deleted vertex) and raises IndexError
\* when the interface listed next contains all vertices of the short one.
HasTwin(mm) == LET PB == Paths(mm) IN
               \E p, q \in PB : p # q /\ Len(p) <= 3 /\ {p[1], p[Len(p)]} = {q[1], q[Len(q)]}
TriClauses == {"C09.edge_missing", "C09.edge_listed", "C09.cycle_edges"}
\* premise of the skeleton parser (op SK): its contours are pixel chains, so every interface has interior
\* points, except the sides of artefact triangles (both ends with 3 mesh edges and 2 cells).  On coarser
\* generated contours get_artifacts takes ordinary border junctions for artefacts; a failure there that is
\* not the triangle-removal finding is a rejected input, not a verdict.
SKPremise(mm) == \A p \in Paths(mm) : Len(p) >= 4 \/ (/\ Deg(mm, p[1]) = 3 /\ NCells(mm, p[1]) = 2
                                                     /\ Deg(mm, p[Len(p)]) = 3 /\ NCells(mm, p[Len(p)]) = 2)

DoStep(e) ==
  /\ e.ev = "Step"
  /\ LET m      == IF e.depth + 1 <= Len(stk) THEN stk[e.depth + 1] ELSE NoMesh
         ok     == e.raised = ""
         prevOK == m.nv >= 0 /\ Consistent(m) = {} /\ Proper(m)
         joins  == (e.op = "G" /\ e.rse /\ e.ne >= 2) \/ e.op = "J"
         chainK == ~ok /\ joins /\ prevOK /\ HasChain(m)
         \* the premise of a step is a Consistent mesh: an inconsistency is reported once, where it appears
         \* (a mesh with a cell of fewer than two vertices cannot be written as a Surface Evolver dump: the
         \*  harness reports that as the pseudo exception CannotSerialize - no input for the parser, no verdict)
         rej    == ~prevOK \/ (~ok /\ e.op = "G" /\ LoopNe1(m, e.ne)) \/ e.raised = "CannotSerialize"
         bad    == IF rej \/ ~ok THEN {} ELSE Consistent(e.mesh)
         lensK  == ok /\ ~rej /\ joins /\ (bad \cap LensClauses) # {} /\ HasLens(m)
         triR   == ~ok /\ ~rej /\ e.op \in {"TRI", "SK"} /\ e.raised = "IndexError" /\ HasTwin(m)
         triL   == ok /\ ~rej /\ e.op \in {"TRI", "SK"} /\ (bad \cap TriClauses) # {} /\ HasTwin(m)
         bad0   == IF ~ok THEN {"C09.raised"} ELSE bad
         skRej  == e.op = "SK" /\ ~rej /\ ~triR /\ ~triL /\ bad0 # {} /\ ~SKPremise(m)
         fails  == IF rej \/ chainK \/ triR \/ skRej THEN {} ELSE IF ~ok THEN {"C09.raised"}
                   ELSE IF lensK THEN bad \ LensClauses ELSE IF triL THEN bad \ TriClauses ELSE bad
         kf     == (IF chainK THEN {"KF_ContractionChain:C09.raised"} ELSE {}) \cup
                   (IF lensK THEN {"KF_LensContraction:" \o c : c \in bad \cap LensClauses} ELSE {}) \cup
                   (IF triR THEN {"KF_TriangleRemoval:C09.raised"} ELSE {}) \cup
                   (IF triL THEN {"KF_TriangleRemoval:" \o c : c \in bad \cap TriClauses} ELSE {})
         hits   == {"C09.consistent", "C09.after_" \o e.op}
     IN  EmitV(e, fails, kf, hits, {}, rej \/ skRej)
  /\ stk' = SubSeq(stk, 1, e.depth + 1) \o <<IF e.raised # "" THEN NoMesh ELSE e.mesh>>

Next == /\ l <= Len(TR)
        /\ LET e == TR[l] IN DoMesh(e) \/ DoStep(e)
        /\ l' = l + 1
Spec == Init /\ [][Next]_vars
Done == TLCGet("stats").diameter - 1 = Len(TR)
=============================================================================

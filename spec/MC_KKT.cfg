SPECIFICATION Spec
CONSTANT CoefRange <- CoefRangeSmall
CONSTANT RhsRange <- RhsRangeDef
CONSTANT G = 2
CONSTANT ZMax = 5
INVARIANT Sound
INVARIANT GradientIdentity
INVARIANT BestLamIsBest
CHECK_DEADLOCK FALSE

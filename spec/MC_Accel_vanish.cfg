SPECIFICATION Spec
CONSTANT N = 4
CONSTANT SITES <- Sites4
CONSTANT STENCIL1 <- StV1
CONSTANT STENCIL2 <- StV2
CONSTANT VANISH <- Vanish4
CONSTANT ALLORDERS = TRUE
CONSTANT EMITMOD = 149
INVARIANT InvAccel
INVARIANT InvTotal
INVARIANT InvSame
INVARIANT InvRhs
INVARIANT InvEdges
INVARIANT Emit
CHECK_DEADLOCK FALSE

------------------------------- MODULE Mesh -------------------------------
(***************************************************************************)
(* The vertex / mesh-edge / cell mesh of ForSys, abstracted.               *)
(*                                                                         *)
(* A mesh record m (dense indices 1..n assigned by the projection, 0 = a   *)
(* reference that does not resolve to an existing, identical object):      *)
(*   m.nv, m.ne, m.nc     numbers of vertices, mesh edges, cells           *)
(*   m.oe[v]   sequence of mesh-edge indices listed by vertex v (ownEdges) *)
(*   m.oc[v]   sequence of cell indices listed by vertex v (ownCells)      *)
(*   m.E[e]    <<v1, v2>> end vertices of mesh edge e                      *)
(*   m.C[c]    vertex cycle of cell c                                      *)
(*   m.vkey[v], m.ekey[e], m.ckey[c]  "stored under its own id"            *)
(* C09 is the predicate Consistent(m) = {} (set of failed clause names).   *)
(***************************************************************************)
EXTENDS Integers, Sequences, FiniteSets

LOCAL RangeOf(s) == {s[i] : i \in DOMAIN s}

V(m)  == 1..m.nv
Ed(m) == 1..m.ne
Ce(m) == 1..m.nc

Ends(m, e) == {m.E[e][1], m.E[e][2]}
Deg(m, v)  == Len(m.oe[v])
NCells(m, v) == Len(m.oc[v])
IsJunction(m, v) == Deg(m, v) > 2

Other(m, e, v) == IF m.E[e][1] = v THEN m.E[e][2] ELSE m.E[e][1]

NoDup(s) == \A i, j \in DOMAIN s : i # j => s[i] # s[j]

\* successor position in a cycle of length n
Nxt(i, n) == IF i = n THEN 1 ELSE i + 1

EdgeBetween(m, a, b) == \E e \in RangeOf(m.oe[a]) : e # 0 /\ e \in RangeOf(m.oe[b]) /\ Ends(m, e) = {a, b}

(***************************************************************************)
(* C09 — every clause separately, so that a verdict names what failed.     *)
(***************************************************************************)
EdgeListedOK(m)  == \A v \in V(m) : \A i \in DOMAIN m.oe[v] :
                      LET e == m.oe[v][i] IN e \in Ed(m) /\ v \in Ends(m, e)
EdgeMissingOK(m) == \A e \in Ed(m) : \A v \in Ends(m, e) : v \in V(m) /\ e \in RangeOf(m.oe[v])
EdgeDupOK(m)     == \A v \in V(m) : NoDup(m.oe[v])
CellListedOK(m)  == \A v \in V(m) : \A i \in DOMAIN m.oc[v] :
                      LET c == m.oc[v][i] IN c \in Ce(m) /\ v \in RangeOf(m.C[c])
CellMissingOK(m) == \A c \in Ce(m) : \A i \in DOMAIN m.C[c] :
                      LET v == m.C[c][i] IN v \in V(m) /\ c \in RangeOf(m.oc[v])
CellDupOK(m)     == \A v \in V(m) : NoDup(m.oc[v])
KeysOK(m)        == /\ \A v \in V(m) : m.vkey[v]
                    /\ \A e \in Ed(m) : m.ekey[e]
                    /\ \A c \in Ce(m) : m.ckey[c]
CycleSimpleOK(m) == \A c \in Ce(m) : NoDup(m.C[c])
CycleEdgesOK(m)  == \A c \in Ce(m) : LET cyc == m.C[c] n == Len(cyc) IN
                      n >= 2 => \A i \in 1..n :
                         cyc[i] \in V(m) /\ cyc[Nxt(i, n)] \in V(m) /\ cyc[i] # cyc[Nxt(i, n)]
                         /\ EdgeBetween(m, cyc[i], cyc[Nxt(i, n)])
EdgeProperOK(m)  == \A e \in Ed(m) : m.E[e][1] # m.E[e][2]

Consistent(m) ==
  {c \in {"C09.edge_listed", "C09.edge_missing", "C09.edge_dup", "C09.cell_listed", "C09.cell_missing",
          "C09.cell_dup", "C09.keys", "C09.cycle_simple", "C09.cycle_edges", "C09.edge_proper"} :
     \/ c = "C09.edge_listed"  /\ ~EdgeListedOK(m)
     \/ c = "C09.edge_missing" /\ ~EdgeMissingOK(m)
     \/ c = "C09.edge_dup"     /\ ~EdgeDupOK(m)
     \/ c = "C09.cell_listed"  /\ ~CellListedOK(m)
     \/ c = "C09.cell_missing" /\ ~CellMissingOK(m)
     \/ c = "C09.cell_dup"     /\ ~CellDupOK(m)
     \/ c = "C09.keys"         /\ ~KeysOK(m)
     \/ c = "C09.cycle_simple" /\ ~CycleSimpleOK(m)
     \/ c = "C09.cycle_edges"  /\ ~(EdgeListedOK(m) /\ CycleEdgesOK(m))
     \/ c = "C09.edge_proper"  /\ ~EdgeProperOK(m)}

(***************************************************************************)
(* Model-side construction of meshes from cell cycles (used by MC_* specs) *)
(* A "cell complex" is a sequence of vertex cycles over vertices 1..nv;    *)
(* the mesh has one mesh edge per unordered pair of consecutive vertices,  *)
(* numbered in order of first occurrence (as every parser does).           *)
(***************************************************************************)
RECURSIVE PairsOfCycle(_, _)
PairsOfCycle(cyc, i) ==
  IF i > Len(cyc) THEN <<>>
  ELSE <<{cyc[i], cyc[Nxt(i, Len(cyc))]}>> \o PairsOfCycle(cyc, i + 1)

RECURSIVE AllPairs(_, _)
AllPairs(cycles, c) == IF c > Len(cycles) THEN <<>> ELSE PairsOfCycle(cycles[c], 1) \o AllPairs(cycles, c + 1)

RECURSIVE Dedup(_, _)
Dedup(s, acc) == IF Len(s) = 0 THEN acc
                 ELSE IF \E i \in DOMAIN acc : acc[i] = Head(s) THEN Dedup(Tail(s), acc)
                 ELSE Dedup(Tail(s), Append(acc, Head(s)))

SeqOfSetSorted(S) == \* ascending sequence of a finite set of integers
  LET RECURSIVE F(_) F(T) == IF T = {} THEN <<>> ELSE
        LET x == CHOOSE y \in T : \A z \in T : y <= z IN <<x>> \o F(T \ {x}) IN F(S)

MeshOfCycles(nv, cycles) ==
  LET pairs == Dedup(AllPairs(cycles, 1), <<>>)
      E     == [e \in DOMAIN pairs |-> LET a == CHOOSE x \in pairs[e] : \A y \in pairs[e] : x <= y
                                           b == CHOOSE x \in pairs[e] : x # a IN <<a, b>>]
  IN [nv |-> nv, ne |-> Len(pairs), nc |-> Len(cycles),
      oe |-> [v \in 1..nv |-> SeqOfSetSorted({e \in DOMAIN pairs : v \in pairs[e]})],
      oc |-> [v \in 1..nv |-> SeqOfSetSorted({c \in DOMAIN cycles : v \in RangeOf(cycles[c])})],
      E  |-> E, C |-> cycles,
      vkey |-> [v \in 1..nv |-> TRUE], ekey |-> [e \in DOMAIN pairs |-> TRUE],
      ckey |-> [c \in DOMAIN cycles |-> TRUE]]
=============================================================================

-------------------------- MODULE MC_SeriesQueries --------------------------
(***************************************************************************)
(* Bounded-exhaustive exploration of the query surface on ALL tiny series: *)
(*   NF frames (2..4), each with k \in KS tracked vertices (2..4) placed   *)
(*   on the corners of an integer rectangle (SHAPES: 96 x 96 / 96 x 136 -  *)
(*   a change of shape makes the step "different tissue", mapping None)    *)
(*   x ALL numberings of every frame (which id sits on which corner;       *)
(*     the first CANON frames sorted - relabelling a frame is a symmetry  *)
(*     of the model; ONESET: one set of corners per k)                     *)
(*   x per step ALL partial injective maps (GUESSMAX = 99) handed to the   *)
(*     tracker as initial guess, or guesses with at most GUESSMAX pairs    *)
(*   x unequal integer time stamps (StampsTab).                            *)
(* The correspondence of every step IS the tracker's answer               *)
(* (Tracking!IMapping on the positions and the guess):                     *)
(*   FAR  = TRUE : frames are far apart (origins OriginFar): no vertex has *)
(*          a candidate inside the 8% search radius, so the correspondence *)
(*          is exactly the guess completed by None - invariant InvForced - *)
(*          and enumerating the guesses enumerates ALL partial injective   *)
(*          successor maps on the REAL tracker;                            *)
(*   FAR  = FALSE: frames drift by a few units (OriginNear): the tracker   *)
(*          links by proximity, guesses steal partners, vertices of a      *)
(*          corner that is empty in the next frame are lost and reappear.  *)
(* This is the premise "the real tracker links like this" stated in TLA+:  *)
(* nothing is filtered in Python.                                          *)
(* Invariants (leaf = the series is built): I => D for every query of      *)
(* SeriesQueries.tla and the cross-call algebra (round trip, composition,  *)
(* detours, injectivity, translation by the centres of mass, re-import of  *)
(* the exported mapping).  HIST = TRUE additionally explores the state     *)
(* machine: up to two queries (Ask) after construction, with the           *)
(* accumulating store.  A hash-selected sample of the leaves is printed    *)
(* (`EJ {json}`, the complete series and the complete list of queries) and *)
(* replayed on real Frame / ForSys / TimeSeries objects.                   *)
(*                                                                         *)
(* Registered configurations (harness/props/tsqueries.py):                 *)
(*  quick    MC_SeriesQueries          NF 3, k 2..3, far, all maps         *)
(*           _nf2    NF 2, k 2..4, far, all maps                           *)
(*           _skip   NF 3, two shapes (skipped steps), <= 1 guess per step *)
(*           _near   NF 3, drifting frames, all corner sets, frame 3 in    *)
(*                   every numbering, no guess (tracker by proximity)      *)
(*           _hist   NF 2, the state machine with one / two queries        *)
(*  thorough _thorough  NF 3, frames 2 and 3 in every numbering, all maps  *)
(*           _allsets   NF 3, every set of corners, all maps               *)
(*           _nf4       NF 4, k 3, all maps (34^3 per placement)           *)
(*           _nf2_thorough  NF 2, k 2..4, two shapes, every corner set and *)
(*                   every numbering of frame 2, all maps                  *)
(*           _skip_thorough NF 4, k 2..3, two shapes, <= 1 guess per step  *)
(*           _near_thorough NF 3, drifting, every corner set, ALL dict     *)
(*                   orders; _near_guess: numberings x one stolen partner  *)
(*           _hist_thorough NF 3, all maps, one / two queries              *)
(***************************************************************************)
EXTENDS SeriesQueries, Json

CONSTANTS NF, KS, SHAPES, FAR, CANON, ONESET, GUESSMAX, ALLORDERS, EMITMOD, HIST

\* ---- constant tables ------------------------------------------------------------------------
Corner(sh) == IF sh = 1 THEN <<<<0, 0>>, <<96, 0>>, <<96, 96>>, <<0, 96>>>>
              ELSE <<<<0, 0>>, <<96, 0>>, <<96, 136>>, <<0, 136>>>>
OriginFar  == <<<<0, 0>>, <<37, 23>>, <<57, 71>>, <<110, 90>>>>
OriginNear == <<<<0, 0>>, <<3, 2>>, <<4, 6>>, <<9, 7>>>>
Origin == IF FAR THEN OriginFar ELSE OriginNear
StampsTab == <<<<0, 1, 3, 7>>, <<2, 3, 8, 9>>, <<-3, 0, 1, 5>>, <<0, 2, 3, 4>>, <<5, 9, 10, 12>>>>

KS2 == {2}
KS3 == {3}
KS23 == {2, 3}
KS34 == {3, 4}
KS234 == {2, 3, 4}
ShapesA == {1}
ShapesAB == {1, 2}

VARIABLES fr, gs, asked
vars == <<ser, store, out, fr, gs, asked>>

\* ---- choices ---------------------------------------------------------------------------------
\* the corners used by a frame must span the whole rectangle (so that the shape is the rectangle's)
Spans(S) == /\ Cardinality({Corner(1)[c][1] : c \in S}) = 2 /\ Cardinality({Corner(1)[c][2] : c \in S}) = 2
Increasing(pl) == \A a, b \in DOMAIN pl : a < b => pl[a] < pl[b]
OneSet(k) == IF k = 2 THEN {1, 3} ELSE 1..k
Placements(k, canon) == {pl \in [1..k -> 1..4] : /\ \A a, b \in 1..k : a # b => pl[a] # pl[b]
                                                  /\ Spans(Range(pl))
                                                  /\ (ONESET => Range(pl) = OneSet(k))
                                                  /\ (canon => Increasing(pl))}
PermsOf(k) == {o \in [1..k -> 1..k] : \A a, b \in 1..k : a # b => o[a] # o[b]}
Ident(k) == [i \in 1..k |-> i]
NonZero(m) == {i \in DOMAIN m : m[i] # 0}
PartialInj(k0, k1) == {m \in [1..k0 -> 0..k1] : /\ \A a, b \in 1..k0 : (a # b /\ m[a] # 0) => m[a] # m[b]
                                                /\ Cardinality(NonZero(m)) <= GUESSMAX}
PairsOf(m) == LET RECURSIVE F(_)
                  F(i) == IF i > Len(m) THEN <<>> ELSE (IF m[i] # 0 THEN <<<<i, m[i]>>>> ELSE <<>>) \o F(i + 1)
              IN  F(1)

\* ---- the series of the chosen frames and guesses ---------------------------------------------
KOf(F) == Len(fr[F].pl)
PosOf(F) == [i \in 1..KOf(F) |-> <<Corner(fr[F].sh)[fr[F].pl[i]][1] + Origin[F][1],
                                   Corner(fr[F].sh)[fr[F].pl[i]][2] + Origin[F][2]>>]
IfcOf(k) == IF k = 2 THEN <<<<1, 2>>, <<2, 1>>, <<1, 2>>>>
            ELSE [i \in 1..(2 * k) |-> LET j == ((i - 1) % k) + 1 IN <<j, (j % k) + 1>>]
ChoiceHash ==
  LET RECURSIVE A(_, _)
      A(F, i) == IF F > NF THEN 0 ELSE IF i > KOf(F) THEN 11 * F * fr[F].sh + A(F + 1, 1)
                 ELSE (13 * F * F + 5 * F + 3) * i * (fr[F].pl[i] + 7 * fr[F].o[i]) + A(F, i + 1)
      RECURSIVE B(_, _)
      B(f, i) == IF f > NF - 1 THEN 0 ELSE IF i > Len(gs[f]) THEN B(f + 1, 1)
                 ELSE (29 * f * f + 3 * f + 1) * i * (gs[f][i] + 1) + B(f, i + 1)
  IN  A(1, 1) + B(1, 1)
StepIn(F) == [pos0 |-> PosOf(F), pos1 |-> PosOf(F + 1), ord0 |-> fr[F].o, ord1 |-> fr[F + 1].o, guess |-> PairsOf(gs[F])]
Build == [nf |-> NF,
          stamp |-> [F \in 1..NF |-> StampsTab[(ChoiceHash % 5) + 1][F]],
          k |-> [F \in 1..NF |-> KOf(F)],
          pos |-> [F \in 1..NF |-> PosOf(F)],
          ord |-> [F \in 1..NF |-> fr[F].o],
          guess |-> [f \in 1..(NF - 1) |-> PairsOf(gs[f])],
          ims |-> [f \in 1..(NF - 1) |-> IMapping(StepIn(f))],
          ifc |-> [F \in 1..NF |-> IfcOf(KOf(F))]]

Init == ser = NoSeries /\ store = EmptyStore /\ out = NoOut /\ fr = <<>> /\ gs = <<>> /\ asked = <<0, 0, 0>>

PickFrame == /\ Len(fr) < NF
             /\ \E sh \in SHAPES : \E k \in KS : \E pl \in Placements(k, Len(fr) < CANON) :
                \E o \in (IF ALLORDERS THEN PermsOf(k) ELSE {Ident(k)}) :
                   fr' = Append(fr, [sh |-> sh, pl |-> pl, o |-> o])
             /\ UNCHANGED <<ser, store, out, gs, asked>>
PickGuess == /\ Len(fr) = NF /\ Len(gs) < NF - 1
             /\ LET f == Len(gs) + 1 IN \E m \in PartialInj(KOf(f), KOf(f + 1)) : gs' = Append(gs, m)
             /\ UNCHANGED <<ser, store, out, fr, asked>>
\* everything derived is computed once, from the current state, and stored (invariants read variables only)
Run == /\ Len(gs) = NF - 1 /\ ser.nf = 0
       /\ \E x \in {Build} : ser' = x
       /\ UNCHANGED <<store, out, fr, gs, asked>>
\* the state machine proper: up to two public queries on the constructed series
\* (any query first; a second one only after whole_tissue_velocity, the query whose answer depends on the store)
MAsk == /\ HIST /\ ser.nf > 0 /\ asked[3] < 2
        /\ \E q \in Queries(ser) :
             /\ asked[3] = 1 => (out[1][1] = "wvel" /\ q[1] = "wvel")
             /\ Ask(q)
             /\ asked' = IF q[1] = "wvel" /\ ~SNone(ser, VStep(ser, q[2] + 1))
                         THEN <<Max(asked[1], asked[2]), NIfc(ser, q[2] + 1), asked[3] + 1>>
                         ELSE <<asked[1], asked[2], asked[3] + 1>>
        /\ UNCHANGED <<fr, gs>>
Next == PickFrame \/ PickGuess \/ Run \/ MAsk
Spec == Init /\ [][Next]_vars

Leaf == ser.nf > 0 /\ out = NoOut        \* once per series (HIST: not again after every query)
Built == ser.nf > 0
V(F) == 1..ser.k[F]
Fs == 1..ser.nf

(* ======================================================================= *)
(* I => D                                                                  *)
(* ======================================================================= *)
IOutcome(i) == IF i[1] = "ok" THEN (IF i[2] = NoneV THEN "none" ELSE "value") ELSE i[1]
CPbm == \A F \in Fs : \A G \in Fs : \A p \in V(F) :
          LET d == PointByMap(ser, p, F, G)  i == IPoint(ser, p, F, G) IN
          IF d # Undef THEN i = <<"ok", d>>
          ELSE \/ i = <<"ok", NoneV>> \/ i[1] = "key"
               \/ KF_QuerySkippedStep(SpanNone(ser, F, G), IOutcome(i))
\* without a skipped step the transcription never raises AttributeError and never returns a foreign id
CPbmTotal == \A F \in Fs : \A G \in Fs : \A p \in V(F) :
               ~SpanNone(ser, F, G) => LET i == IPoint(ser, p, F, G) IN
                                        i[1] \in {"ok", "key"} /\ (i[1] = "ok" => i[2] = PointByMap(ser, p, F, G))
TMs(t0) == {-1} \cup (t0 + 1)..ser.nf
CVPos == \A t0 \in 0..(ser.nf - 1) : \A tm \in TMs(t0) : \A v \in V(t0 + 1) :
           LET d == VertexPosition(ser, v, t0, tm)  i == IVertexPosition(ser, v, t0, tm)
               sk == \E G \in SpanFrames(ser, t0, tm) : SpanNone(ser, t0 + 1, G)
           IN  IF d[1] = "list" THEN i = d
               ELSE \/ i = <<"raised", "key">>
                    \/ KF_QuerySkippedStep(sk, IF i[1] = "list" THEN "value" ELSE i[2])
CVel == \A F \in Fs : \A p \in V(F) : IQVelocity(ser, p, F) = Velocity(ser, p, F)
CEdge == \A F0 \in Fs : \A G \in F0..ser.nf : \A e \in 1..NIfc(ser, F0) :
           LET a == ser.ifc[F0][e][1]  b == ser.ifc[F0][e][2]
               d == EdgeStepVel(ser, a, b, F0, G)  i == IEdgeStepVel(ser, a, b, F0, G)
           IN  IF d[1] = "sum" THEN i = d
               ELSE \/ i = <<"nan">>
                    \/ KF_QuerySkippedStep(SpanNone(ser, F0, G), IF i[1] = "sum" THEN "value" ELSE i[1])
CTtu == /\ \A L \in 2..ser.nf : ITimesToUse(ser, L) = <<"list", TimesToUse(ser, L)>>
        /\ ITimesToUse(ser, -1) = <<"list", TimesToUse(ser, ser.nf)>>
        /\ \A a \in {-2, 1} : LET i == ITimesToUse(ser, a) IN
              i[1] = "list" \/ KF_TimesToUseTrue(a, IF i[1] = "unbound" THEN "UnboundLocalError" ELSE "KeyError")
\* two whole_tissue_velocity queries in a row: the second answer has exactly the interfaces of its frame, each with
\* the declarative value - or the recorded finding (surplus keys of the frame asked before)
CWhole == \A F1 \in Fs : \A F2 \in Fs :
            LET s1 == IWholeVelStore(ser, EmptyStore, F1)
                r  == IWholeVel(ser, s1, F2)
                d  == WholeTissueVelocity(ser, F2)
            IN  IF d[1] = "dte" THEN r = d
                ELSE /\ r[1] = "dict"
                     /\ \A i \in 1..NIfc(ser, F2) : i \in DOMAIN r[2] /\ r[2][i] = <<F2, d[2][i]>>
                     /\ LET extra == DOMAIN r[2] \ 1..NIfc(ser, F2) IN
                        extra = {} \/ KF_WholeStaleKeys(extra, IF SNone(ser, VStep(ser, F1)) THEN 0 ELSE NIfc(ser, F1), NIfc(ser, F2))

(* ======================================================================= *)
(* cross-call algebra of the declarative layer                             *)
(* ======================================================================= *)
P(p, F, G) == PointByMap(ser, p, F, G)
\* PointByMap(PointByMap(p, t0, t1), t1, t0) = p when defined
CRoundTrip == \A F \in Fs : \A G \in Fs : \A p \in V(F) : P(p, F, G) # Undef => P(P(p, F, G), G, F) = p
\* composition: over [t0, t2] equals two hops through any frame in between
CCompose == \A F \in Fs : \A G \in Fs : \A H \in Fs : \A p \in V(F) :
              ((F <= G /\ G <= H) \/ (F >= G /\ G >= H)) => P(p, F, H) = P(P(p, F, G), G, H)
\* a detour through a frame outside the span can only lose the vertex, never change it
CDetour == \A F \in Fs : \A G \in Fs : \A H \in Fs : \A p \in V(F) :
             LET x == P(P(p, F, G), G, H) IN x = Undef \/ x = P(p, F, H)
CInjective == \A F \in Fs : \A G \in Fs : \A p \in V(F) : \A q \in V(F) :
                (p # q /\ P(p, F, G) # Undef) => P(p, F, G) # P(q, F, G)
CRange == \A F \in Fs : \A G \in Fs : \A p \in V(F) : P(p, F, G) \in {Undef} \cup V(G)
\* every step is a partial injective map, one entry per tracked vertex (what export_mapping writes)
CExport == \A f \in 1..(ser.nf - 1) :
             LET x == ExportMapping(ser)[f] IN
             x.none = SNone(ser, f) /\
             (~x.none => /\ {pr[1] : pr \in x.pairs} = V(f) /\ Cardinality(x.pairs) = ser.k[f]
                         /\ \A a, b \in x.pairs : (a # b /\ a[2] # Undef) => a[2] # b[2]
                         /\ \A pr \in x.pairs : pr[2] \in {Undef} \cup V(f + 1))
\* the exported mapping handed back as initial guess reproduces the correspondence
SeqOfPairs(S) == LET RECURSIVE F(_)
                     F(T) == IF T = {} THEN <<>> ELSE LET x == CHOOSE y \in T : \A z \in T : y[1] <= z[1] IN <<x>> \o F(T \ {x})
                 IN  F(S)
CReimport == \A f \in 1..(ser.nf - 1) :
               ~SNone(ser, f) =>
                 IMapping([pos0 |-> ser.pos[f], pos1 |-> ser.pos[f + 1], ord0 |-> ser.ord[f], ord1 |-> ser.ord[f + 1],
                           guess |-> SeqOfPairs(ExportMapping(ser)[f].pairs)]) = ser.ims[f]
\* translating every frame to its centre of mass changes no correspondence-based answer except by the drift of
\* the centres: velocity differences between two vertices of a frame are unchanged
CCm == LET c == [F \in Fs |-> CentreOfMass(ser.pos[F])]
           t == Translate(ser, c)
       IN  /\ \A F \in Fs : \A p \in V(F) :
                LET a == Velocity(ser, p, F)  b == Velocity(t, p, F)  G == VOther(ser, F) IN
                IF a[1] = "dte" THEN b = a
                ELSE IF P(p, F, G) = Undef THEN a = b
                ELSE /\ b[4] = a[4]
                     /\ b[2] - a[2] = -(c[G][1] - c[F][1]) /\ b[3] - a[3] = -(c[G][2] - c[F][2])
           /\ ser.nf >= 3 =>
                \A F \in Fs : \A p \in V(F) :
                  LET a == Accel(ser, p, F)  b == Accel(t, p, F)  lo == DAccLo(ser.nf, F) IN
                  IF a[1] # "val" THEN b = a
                  ELSE b[1] = "val" /\ \A x \in 1..2 : b[x + 1] - a[x + 1] = -((c[lo + 2][x] - c[lo + 1][x]) - (c[lo + 1][x] - c[lo][x]))
\* FAR: the correspondence is exactly the guess completed by None; a step is skipped iff the shape changes
CForced == FAR => \A f \in 1..(NF - 1) :
             /\ ser.ims[f].none = (fr[f].sh # fr[f + 1].sh)
             /\ ~ser.ims[f].none => \A p \in V(f) : ser.ims[f].map[p] = gs[f][p]
\* the answers of the state machine are functions of the series (HIST)
CAnswer == out = NoOut \/ out[2] = Answer(ser, out[1])
\* (HIST) the store after the queries asked so far: every entry belongs to the frame asked last, or the finding
CStore == (out # NoOut /\ out[1][1] = "wvel" /\ out[2][1] = "dict") =>
            LET F == out[1][2] + 1  extra == {i \in DOMAIN store : store[i][1] # F} IN
            extra = {} \/ KF_WholeStaleKeys(extra, asked[1], NIfc(ser, F))

InvPbm      == Leaf => CPbm /\ CPbmTotal /\ CRange
InvAlgebra  == Leaf => CRoundTrip /\ CCompose /\ CDetour /\ CInjective
InvVPos     == Leaf => CVPos
InvVel      == Leaf => CVel /\ CEdge
InvTtu      == Leaf => CTtu
InvWhole    == Leaf => CWhole
InvExport   == Leaf => CExport /\ CReimport
InvCm       == Leaf => CCm
InvForced   == Leaf => CForced
InvMachine  == Built => CAnswer /\ CStore

(* ======================================================================= *)
(* emission of a sample of the leaves (asked = <<0, 0, 0>>: once per series)  *)
(* ======================================================================= *)
AnyNone   == \E f \in 1..(NF - 1) : SNone(ser, f)
Lost      == \E f \in 1..(NF - 1) : ~SNone(ser, f) /\ \E p \in V(f) : Succ(ser, f, p) = Undef
Appears   == \E f \in 1..(NF - 1) : ~SNone(ser, f) /\ \E q \in V(f + 1) : Pred(ser, f, q) = Undef
Renumber  == \E f \in 1..(NF - 1) : ~SNone(ser, f) /\ \E p \in V(f) : Succ(ser, f, p) \notin {Undef, p}
\* a vertex followed over at least two steps
LongLink  == NF >= 3 /\ \E p \in V(1) : P(p, 1, 3) # Undef
\* lost and found again: a corner that is empty in frame 2 is occupied in frames 1 and 3
SizeChange == \E F \in 1..(NF - 1) : ser.k[F] # ser.k[F + 1]
NonTrivial == Renumber /\ (Lost \/ Appears \/ LongLink)
QueryGroups ==
  {[q |-> "pbm", a |-> <<t0, t1>>] : t0 \in 0..(NF - 1), t1 \in 0..(NF - 1)} \cup
  {[q |-> "vpos", a |-> <<x[1], x[2]>>] : x \in {y \in (0..(NF - 1)) \X ({-1} \cup 1..NF) : y[2] = -1 \/ y[2] > y[1]}} \cup
  {[q |-> "vel", a |-> <<t>>] : t \in 0..(NF - 1)} \cup
  {[q |-> "wvel", a |-> <<t>>] : t \in 0..(NF - 1)} \cup
  {[q |-> "wacc", a |-> <<t>>] : t \in {u \in 0..(NF - 1) : NF >= 3}} \cup
  {[q |-> "vedge", a |-> <<x[1], x[2]>>] : x \in {y \in (0..(NF - 1)) \X (1..NF) : y[2] > y[1]}} \cup
  {[q |-> "ttu", a |-> <<L>>] : L \in {-2, -1} \cup 1..NF} \cup
  {[q |-> "cm", a |-> <<t>>] : t \in 0..(NF - 1)} \cup
  {[q |-> "export", a |-> <<0>>]}
Sampled(h) == \/ (h % EMITMOD = 0 /\ NonTrivial)
              \/ (h % (EMITMOD \div 3 + 1) = 1 /\ AnyNone)
              \/ (h % (EMITMOD \div 2 + 1) = 2 /\ Lost /\ Appears /\ SizeChange)
              \/ h % (5 * EMITMOD + 1) = 3
CEmit == (asked = <<0, 0, 0>> /\ out = NoOut /\ Sampled(ChoiceHash)) =>
  PrintT("EJ " \o ToJson([nf |-> NF, k |-> ser.k, pos |-> ser.pos, ord |-> ser.ord, guess |-> ser.guess,
                          stamps |-> ser.stamp, far |-> FAR,
                          none |-> [f \in 1..(NF - 1) |-> SNone(ser, f)],
                          map |-> [f \in 1..(NF - 1) |-> IF SNone(ser, f) THEN <<>> ELSE ser.ims[f].map],
                          queries |-> QueryGroups, nontrivial |-> NonTrivial]))
Emit == Leaf => CEmit

\* vacuity guards (expected to be VIOLATED; used by hand, not in the registered cfgs)
NeverNone     == Leaf => ~AnyNone
NeverLost     == Leaf => ~Lost
NeverLong     == Leaf => ~LongLink
NeverStale    == Leaf => \A F \in Fs : \A G \in Fs : \A p \in V(F) :
                   LET i == IPoint(ser, p, F, G) IN i[1] = "ok" => i[2] = PointByMap(ser, p, F, G)
NeverSurplus  == Leaf => \A F1 \in Fs : \A F2 \in Fs : NIfc(ser, F1) <= NIfc(ser, F2)
=============================================================================

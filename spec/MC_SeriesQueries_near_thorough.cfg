SPECIFICATION Spec
CONSTANT NF = 3
CONSTANT KS <- KS23
CONSTANT SHAPES <- ShapesA
CONSTANT FAR = FALSE
CONSTANT CANON = 3
CONSTANT ONESET = FALSE
CONSTANT GUESSMAX = 0
CONSTANT ALLORDERS = TRUE
CONSTANT EMITMOD = 31
CONSTANT HIST = FALSE
INVARIANT InvPbm
INVARIANT InvAlgebra
INVARIANT InvVPos
INVARIANT InvVel
INVARIANT InvTtu
INVARIANT InvWhole
INVARIANT InvExport
INVARIANT InvCm
INVARIANT InvForced
INVARIANT InvMachine
INVARIANT Emit
PROPERTY QueriesArePure
CHECK_DEADLOCK FALSE

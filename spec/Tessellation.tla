---------------------------- MODULE Tessellation ----------------------------
(***************************************************************************)
(* C19 - a lattice built from the Voronoi tessellation of cell centres     *)
(* (forsys/tessellation.py: create_lattice_elements + create_lattice).     *)
(*                                                                         *)
(* Input `env` = abstract Voronoi output ("the Voronoi diagram of the      *)
(* given centres" = what scipy.spatial.Voronoi returns, DESIGN 5.5):       *)
(*   env.P[v]    <<x, y>> corner v rounded to 3 decimals, as INTEGERS in   *)
(*               units of 1e-3 (milli-units); v = SciPy index + 1          *)
(*   env.res[v]  <<rx, ry>> what the rounding discarded, in 1e-9 units     *)
(*               (|r| <= 500000; |r| near 500000 = rounding tie)           *)
(*   env.R[r]    vertex-index cycle of region r (0 = SciPy's -1, <<>> =    *)
(*               SciPy's empty region); orientation and start arbitrary    *)
(*   env.diam[r] diameter of a bounded region in milli-units (0 otherwise) *)
(*   env.cut     the distance cut-off in milli-units (INF_CUT = infinite)  *)
(* Output `lat` = [raised |-> "" | exception class, mesh |-> projected     *)
(* mesh of Mesh.tla + pos[v] = <<x, y>> milli-units, res[v] = distance of  *)
(* the stored float from that 3-decimal number (1e-9 units), vid/eid/cid]. *)
(*                                                                         *)
(* D  = C19Verdict (declarative, raises VIOLATION)                         *)
(* I  = ImplLattice (transcription of the region walk; mismatch = drift)   *)
(***************************************************************************)
EXTENDS Mesh, FixedPoint

LOCAL Rg(s) == {s[i] : i \in DOMAIN s}

BOUND   == 1000000000   \* premise: |coordinate| <= 1e9 milli-units, so differences fit 32 bits
BAND    == 2            \* a diameter within 2 milli-units of the cut-off is not judged (rejected input)
TIE     == 499990       \* |res| above this = within 1e-8 of a rounding tie (rejected input)
INF_CUT == 2147483000   \* projection of max_distance = infinity

(***************************************************************************)
(* Exact sign of the shoelace sum on 32-bit TLC integers.                  *)
(* Differences to the first corner are split into signed base-1000 limbs   *)
(* (4 limbs, |d| < 2^31), products are 7-coefficient vectors (each         *)
(* |coefficient| <= 4*999^2 per product), summed over the sides (< 200     *)
(* sides keeps every coefficient below 2^31), and the sign of the value is *)
(* read off after one carry pass. No rounding anywhere.                    *)
(***************************************************************************)
Limbs(d) == LET a == Abs(d) s == Sgn(d) IN
  <<s * (a % K), s * ((a \div K) % K), s * ((a \div (K * K)) % K), s * (a \div (K * K * K))>>

ProdL(x, y) == LET a == Limbs(x) b == Limbs(y) IN
  << a[1] * b[1],
     a[1] * b[2] + a[2] * b[1],
     a[1] * b[3] + a[2] * b[2] + a[3] * b[1],
     a[1] * b[4] + a[2] * b[3] + a[3] * b[2] + a[4] * b[1],
     a[2] * b[4] + a[3] * b[3] + a[4] * b[2],
     a[3] * b[4] + a[4] * b[3],
     a[4] * b[4] >>

RECURSIVE AreaL(_, _, _)
AreaL(pc, i, acc) ==   \* limbs of twice the signed area (counter-clockwise positive)
  IF i > Len(pc) THEN acc
  ELSE LET j  == Nxt(i, Len(pc))
           p  == ProdL(pc[i][1] - pc[1][1], pc[j][2] - pc[1][2])
           q  == ProdL(pc[j][1] - pc[1][1], pc[i][2] - pc[1][2])
       IN  AreaL(pc, i + 1, << acc[1] + p[1] - q[1], acc[2] + p[2] - q[2], acc[3] + p[3] - q[3],
                               acc[4] + p[4] - q[4], acc[5] + p[5] - q[5], acc[6] + p[6] - q[6],
                               acc[7] + p[7] - q[7] >>)

RECURSIVE CarrySign(_, _, _, _)
CarrySign(c, k, carry, nz) ==
  IF k > Len(c) THEN (IF carry # 0 THEN Sgn(carry) ELSE IF nz THEN 1 ELSE 0)
  ELSE LET t == c[k] + carry
           d == t % K                      \* 0..999 (TLC's % is the mathematical modulus)
       IN  CarrySign(c, k + 1, (t - d) \div K, nz \/ d # 0)

\* small polygons: the plain integer shoelace sum cannot overflow when 2 * n * M^2 < 2^31 (M = largest
\* coordinate difference to the first corner); also exact, and much cheaper for TLC
MaxDiff(pc) == LET ds == {Abs(pc[i][1] - pc[1][1]) : i \in DOMAIN pc} \cup {Abs(pc[i][2] - pc[1][2]) : i \in DOMAIN pc}
               IN  CHOOSE d \in ds : \A x \in ds : x <= d
RECURSIVE AreaS(_, _, _)
AreaS(pc, i, acc) ==
  IF i > Len(pc) THEN acc
  ELSE LET j == Nxt(i, Len(pc)) IN
       AreaS(pc, i + 1, acc + (pc[i][1] - pc[1][1]) * (pc[j][2] - pc[1][2])
                            - (pc[j][1] - pc[1][1]) * (pc[i][2] - pc[1][2]))

\* rotational sense of a cycle of integer points: 1 counter-clockwise, -1 clockwise, 0 degenerate
\* (premise: coordinates within BOUND, so that differences fit 32 bits)
Sense(pc) ==
  IF Len(pc) < 3 THEN 0
  ELSE LET md == MaxDiff(pc) IN
       IF md <= 46340 /\ md * md <= 2147483647 \div (2 * Len(pc))
       THEN Sgn(AreaS(pc, 1, 0))
       ELSE CarrySign(AreaL(pc, 1, <<0, 0, 0, 0, 0, 0, 0>>), 1, 0, FALSE)
\* the same by the limb route only (used by the model checker to cross-check the two routes)
SenseLimbs(pc) == IF Len(pc) < 3 THEN 0 ELSE CarrySign(AreaL(pc, 1, <<0, 0, 0, 0, 0, 0, 0>>), 1, 0, FALSE)

(***************************************************************************)
(* Cycles of points up to rotation and reversal.                           *)
(***************************************************************************)
PLess(p, q) == p[1] < q[1] \/ (p[1] = q[1] /\ p[2] < q[2])
MinIdx(pc) == CHOOSE i \in DOMAIN pc : \A j \in DOMAIN pc :
                 j # i => (PLess(pc[i], pc[j]) \/ (pc[i] = pc[j] /\ i < j))
CanCyc(pc) ==
  LET n  == Len(pc) IN
  IF n = 0 THEN <<>> ELSE
  LET i0  == MinIdx(pc)
      fwd == [k \in 1..n |-> pc[((i0 - 1 + (k - 1)) % n) + 1]]
      bwd == [k \in 1..n |-> pc[((i0 - 1 + n - (k - 1)) % n) + 1]]
  IN  IF n < 3 \/ fwd[2] = bwd[2] \/ PLess(fwd[2], bwd[2]) THEN fwd ELSE bwd

RevSeq(s) == [i \in DOMAIN s |-> s[Len(s) + 1 - i]]

(***************************************************************************)
(* The environment: which regions must become cells; premises.             *)
(***************************************************************************)
NoEnv == [cut |-> -1]

EnvMalformed(env) ==
  \/ Len(env.res) # Len(env.P) \/ Len(env.diam) # Len(env.R) \/ env.cut < 0
  \/ \E r \in DOMAIN env.R : \E i \in DOMAIN env.R[r] : env.R[r][i] \notin 0..Len(env.P)
  \/ \E r \in DOMAIN env.R : env.diam[r] < 0

Bounded(env, r)  == Len(env.R[r]) > 0 /\ \A i \in DOMAIN env.R[r] : env.R[r][i] # 0
BelowCut(env, r) == env.diam[r] + BAND <= env.cut
AboveCut(env, r) == env.diam[r] >= env.cut + BAND
Kept(env)        == {r \in DOMAIN env.R : Bounded(env, r) /\ BelowCut(env, r)}
KeptVerts(env)   == UNION {Rg(env.R[r]) : r \in Kept(env)}
RegionPos(env, r) == [i \in DOMAIN env.R[r] |-> env.P[env.R[r][i]]]

CoordBoundOK(env) == \A v \in KeptVerts(env) : Abs(env.P[v][1]) <= BOUND /\ Abs(env.P[v][2]) <= BOUND

\* the premise of C19 as read by this oracle; a case for which some reason holds is neither pass nor fail
RejectReasons(env) ==
  {c \in {"premise.cutoff_band", "premise.coordinate_bound", "premise.rounding_tie", "premise.merged_corners",
          "premise.degenerate_region", "premise.duplicate_region"} :
     \/ c = "premise.cutoff_band" /\ \E r \in DOMAIN env.R : Bounded(env, r) /\ ~BelowCut(env, r) /\ ~AboveCut(env, r)
     \/ c = "premise.coordinate_bound" /\ ~CoordBoundOK(env)
     \/ c = "premise.rounding_tie" /\ \E v \in KeptVerts(env) : Abs(env.res[v][1]) > TIE \/ Abs(env.res[v][2]) > TIE
     \* two different Voronoi corners round to the same 3-decimal point (ridge shorter than the resolution):
     \* "corner points as its vertex cycle" and "the mesh is consistent" cannot both hold, the statement is silent
     \/ c = "premise.merged_corners" /\ Cardinality({env.P[v] : v \in KeptVerts(env)}) # Cardinality(KeptVerts(env))
     \/ c = "premise.degenerate_region" /\ CoordBoundOK(env) /\
          \E r \in Kept(env) : Len(env.R[r]) < 3 \/ ~NoDup(env.R[r]) \/ Sense(RegionPos(env, r)) = 0
     \/ c = "premise.duplicate_region" /\
          Cardinality({Rg(env.R[r]) : r \in Kept(env)}) # Cardinality(Kept(env))}

(***************************************************************************)
(* Known finding: line_eq divides by the x-extent of the ridge, so a ridge *)
(* whose two corners have the same rounded x (vertical at the 3-decimal    *)
(* resolution) raises FloatingPointError (forsys sets np.seterr raise).    *)
(* Matches only: the call raised that class AND some region that must      *)
(* become a cell has such a side.                                          *)
(***************************************************************************)
HasVerticalRidge(env) ==
  \E r \in Kept(env) : LET reg == env.R[r] n == Len(reg) IN
     \E i \in 1..n : env.P[reg[i]][1] = env.P[reg[Nxt(i, n)]][1]
KF_VerticalRidge(env, lat) == lat.raised = "FloatingPointError" /\ HasVerticalRidge(env)

(***************************************************************************)
(* D - the declarative verdict.                                            *)
(***************************************************************************)
CellPos(m, c) == [i \in DOMAIN m.C[c] |-> m.pos[m.C[c][i]]]
RefsOK(m)     == /\ \A c \in Ce(m) : \A i \in DOMAIN m.C[c] : m.C[c][i] \in V(m)
                 /\ \A e \in Ed(m) : m.E[e][1] \in V(m) /\ m.E[e][2] \in V(m)
PosBoundOK(m) == \A v \in V(m) : Abs(m.pos[v][1]) <= BOUND /\ Abs(m.pos[v][2]) <= BOUND
UsedVerts(m)  == UNION {Rg(m.C[c]) : c \in Ce(m)}
Sides(m)      == UNION {{ {m.C[c][i], m.C[c][Nxt(i, Len(m.C[c]))]} : i \in DOMAIN m.C[c]} : c \in Ce(m)}

\* one cell per region that is bounded and below the cut-off
CellCountOK(env, m) == m.nc = Cardinality(Kept(env))
\* the cells' cycles of points are exactly those regions' cycles of rounded corners, up to rotation and reversal
CellCyclesOK(env, m) ==
  LET cs == {CanCyc(CellPos(m, c)) : c \in Ce(m)}
      rs == {CanCyc(RegionPos(env, r)) : r \in Kept(env)}
  IN  cs = rs /\ Cardinality(cs) = m.nc
\* every stored coordinate is a 3-decimal number
RoundedOK(m) == \A v \in UsedVerts(m) : m.res[v][1] = 0 /\ m.res[v][2] = 0
\* equal rounded corner <=> same vertex (so neighbouring cells hold the same vertices at their common ridge)
SharedVerticesOK(m) == Cardinality({m.pos[v] : v \in UsedVerts(m)}) = Cardinality(UsedVerts(m))
\* one mesh edge per side (so neighbouring cells hold the same mesh edge at their common ridge)
SharedEdgesOK(m) ==
  LET sides == Sides(m)
      se    == {e \in Ed(m) : Ends(m, e) \in sides}
  IN  Cardinality(se) = Cardinality(sides) /\ {Ends(m, e) : e \in se} = sides
\* one rotational sense (either; the statement does not say which)
OrientationOK(m) == LET s == {Sense(CellPos(m, c)) : c \in Ce(m)} IN Cardinality(s) <= 1 /\ 0 \notin s

C09As19(c) == CASE c = "C09.edge_listed"  -> "C19.consistent.edge_listed"
                [] c = "C09.edge_missing" -> "C19.consistent.edge_missing"
                [] c = "C09.edge_dup"     -> "C19.consistent.edge_dup"
                [] c = "C09.cell_listed"  -> "C19.consistent.cell_listed"
                [] c = "C09.cell_missing" -> "C19.consistent.cell_missing"
                [] c = "C09.cell_dup"     -> "C19.consistent.cell_dup"
                [] c = "C09.keys"         -> "C19.consistent.keys"
                [] c = "C09.cycle_simple" -> "C19.consistent.cycle_simple"
                [] c = "C09.cycle_edges"  -> "C19.consistent.cycle_edges"
                [] c = "C09.edge_proper"  -> "C19.consistent.edge_proper"
                [] OTHER                  -> "C19.consistent"

C19Verdict(env, lat) ==
  IF lat.raised # "" THEN (IF KF_VerticalRidge(env, lat) THEN {} ELSE {"C19.raised"})
  ELSE LET m == lat.mesh IN
       IF ~RefsOK(m) THEN {"C19.consistent.dangling_reference"}
       ELSE {C09As19(c) : c \in Consistent(m)} \cup
            {c \in {"C19.cell_count", "C19.cell_cycles", "C19.rounded", "C19.shared_vertices", "C19.shared_edges",
                    "C19.orientation_uniform"} :
               \/ c = "C19.cell_count"          /\ ~CellCountOK(env, m)
               \/ c = "C19.cell_cycles"         /\ ~CellCyclesOK(env, m)
               \/ c = "C19.rounded"             /\ ~RoundedOK(m)
               \/ c = "C19.shared_vertices"     /\ ~SharedVerticesOK(m)
               \/ c = "C19.shared_edges"        /\ ~SharedEdgesOK(m)
               \/ c = "C19.orientation_uniform" /\ ~(PosBoundOK(m) /\ OrientationOK(m))}

C19KF(env, lat) == IF lat.raised # "" /\ KF_VerticalRidge(env, lat) THEN {"KF_VerticalRidge:C19.raised"} ELSE {}

RECURSIVE SumLens(_, _, _)
SumLens(env, S, acc) == IF S = {} THEN acc ELSE LET r == CHOOSE x \in S : TRUE IN
                          SumLens(env, S \ {r}, acc + Len(env.R[r]))
\* clauses really exercised by a case (vacuity accounting)
C19Hits(env, lat) ==
  LET nk == Cardinality(Kept(env)) IN
  {"C19.raised"} \cup
  (IF HasVerticalRidge(env) THEN {"input.vertical_ridge"} ELSE {"input.no_vertical_ridge"}) \cup
  (IF lat.raised # "" THEN {} ELSE
     {"C19.cell_count", "C19.consistent"}
     \cup (IF nk >= 1 THEN {"C19.cell_cycles", "C19.rounded"} ELSE {})
     \cup (IF nk >= 2 THEN {"C19.orientation_uniform"} ELSE {})
     \cup (IF SumLens(env, Kept(env), 0) >= Cardinality(KeptVerts(env)) + 2
           THEN {"C19.shared_vertices", "C19.shared_edges"} ELSE {})
     \cup (IF \E r \in DOMAIN env.R : Bounded(env, r) /\ AboveCut(env, r) THEN {"input.region_above_cutoff"} ELSE {}))

(***************************************************************************)
(* I - transcription of create_lattice_elements / create_lattice.          *)
(***************************************************************************)
LineEqRaises == FALSE   \* line_eq computed (y1 - y0) / (x1 - x0) and raised when the rounded x's were equal; repaired by fix 8690795 (vertical ridges are interpolated)

FirstIdx(s, x) == LET S == {i \in DOMAIN s : s[i] = x} IN
                  IF S = {} THEN 0 ELSE CHOOSE i \in S : \A j \in S : i <= j

\* remove_infinite_regions drops np.max(matrix) > max_distance; the walk skips empty / unbounded regions
ImplKeptSeq(env) ==
  LET RECURSIVE F(_)
      F(r) == IF r > Len(env.R) THEN <<>>
              ELSE (IF Bounded(env, r) /\ ~(env.diam[r] > env.cut) THEN <<r>> ELSE <<>>) \o F(r + 1)
  IN  F(1)

\* one side: get_vertex_number twice (identity by rounded position), get_enum (negative id = stored reversed)
ImplSide(vs, es, p0, p1) ==
  LET i1  == FirstIdx(vs, p0)
      n1  == IF i1 = 0 THEN Len(vs) + 1 ELSE i1
      vs1 == IF i1 = 0 THEN Append(vs, p0) ELSE vs
      i2  == FirstIdx(vs1, p1)
      n2  == IF i2 = 0 THEN Len(vs1) + 1 ELSE i2
      vs2 == IF i2 = 0 THEN Append(vs1, p1) ELSE vs1
      k1  == FirstIdx(es, <<n1, n2>>)
      k2  == FirstIdx(es, <<n2, n1>>)
  IN  [vs |-> vs2,
       es |-> IF k1 = 0 /\ k2 = 0 THEN Append(es, <<n1, n2>>) ELSE es,
       enum |-> IF k1 # 0 THEN k1 ELSE IF k2 # 0 THEN -k2 ELSE Len(es) + 1,
       n1 |-> n1, n2 |-> n2]

RECURSIVE ImplRegion(_, _, _, _, _, _, _, _)
ImplRegion(env, raises, c, ii, vs, es, ens, tv) ==   \* c is the closed cycle (c.append(c[0]))
  IF ii > Len(c) - 1 THEN [vs |-> vs, es |-> es, ens |-> ens, tv |-> tv, raised |-> ""]
  ELSE LET p0 == env.P[c[ii]] p1 == env.P[c[ii + 1]] IN
       IF raises /\ p0[1] = p1[1]
       THEN [vs |-> vs, es |-> es, ens |-> ens, tv |-> tv, raised |-> "FloatingPointError"]
       ELSE LET s == ImplSide(vs, es, p0, p1)
            IN  ImplRegion(env, raises, c, ii + 1, s.vs, s.es, Append(ens, s.enum), tv \o <<s.n1, s.n2>>)

RECURSIVE ImplElements(_, _, _, _, _, _, _)
ImplElements(env, raises, ks, j, vs, es, cells) ==   \* j = cnum
  IF j > Len(ks) THEN [vs |-> vs, es |-> es, cells |-> cells, raised |-> ""]
  ELSE LET reg == env.R[ks[j]]
           w   == ImplRegion(env, raises, Append(reg, reg[1]), 1, vs, es, <<>>, <<>>)
       IN  IF w.raised # "" THEN [vs |-> vs, es |-> es, cells |-> cells, raised |-> w.raised]
           ELSE \* get_cell_area_sign over the doubled list n1,n2,n2,n3,...: the repeated points add zero terms,
                \* so the sum is that of the tail vertices n1 (every second entry); positive = clockwise
                LET tails    == [i \in 1..(Len(w.tv) \div 2) |-> w.vs[w.tv[2 * i - 1]]]
                    areaSign == -Sense(tails)
                    key      == -1 * j * areaSign
                IN  ImplElements(env, raises, ks, j + 1, w.vs, w.es, Append(cells, [key |-> key, ens |-> w.ens]))

ImplLatticeP(env, raises) ==
  LET el == ImplElements(env, raises, ImplKeptSeq(env), 1, <<>>, <<>>, <<>>) IN
  IF el.raised # "" THEN [raised |-> el.raised, mesh |-> [nv |-> 0]]
  ELSE
  LET nv == Len(el.vs) ne == Len(el.es) nc == Len(el.cells)
      \* create_lattice: tail vertex of every signed edge id, reversed when the key is negative
      Cyc(c) == LET ens == el.cells[c].ens
                    f   == [i \in DOMAIN ens |-> IF ens[i] > 0 THEN el.es[ens[i]][1] ELSE el.es[-ens[i]][2]]
                IN  IF el.cells[c].key < 0 THEN RevSeq(f) ELSE f
      C  == [c \in 1..nc |-> Cyc(c)]
  IN [raised |-> "",
      mesh |-> [nv |-> nv, ne |-> ne, nc |-> nc,
                oe |-> [v \in 1..nv |-> SeqOfSetSorted({k \in 1..ne : v = el.es[k][1] \/ v = el.es[k][2]})],
                oc |-> [v \in 1..nv |-> SeqOfSetSorted({c \in 1..nc : v \in Rg(C[c])})],
                E |-> el.es, C |-> C,
                vkey |-> [v \in 1..nv |-> TRUE], ekey |-> [e \in 1..ne |-> TRUE], ckey |-> [c \in 1..nc |-> TRUE],
                pos |-> el.vs, res |-> [v \in 1..nv |-> <<0, 0>>],
                vid |-> [v \in 1..nv |-> v], eid |-> [e \in 1..ne |-> e],
                cid |-> [c \in 1..nc |-> Abs(el.cells[c].key)]]]

ImplLattice(env) == ImplLatticeP(env, LineEqRaises)

\* code ~ I (non-fatal): ids, listing orders, start corners and the counter-clockwise storage are incidental
DRIFT_MAX_REGIONS == 60
C19Drift(env, lat) ==
  IF Cardinality(Kept(env)) > DRIFT_MAX_REGIONS THEN {}
  ELSE LET im == ImplLattice(env) IN
       IF (im.raised # "") # (lat.raised # "") THEN {"drift.impl_raise"}
       ELSE IF lat.raised # "" THEN (IF im.raised = lat.raised THEN {} ELSE {"drift.impl_raise_class"})
       ELSE LET a == im.mesh b == lat.mesh IN
            IF a.nv = b.nv /\ a.ne = b.ne /\ a.nc = b.nc /\ a.pos = b.pos /\ a.E = b.E /\ a.C = b.C
               /\ a.vid = b.vid /\ a.eid = b.eid /\ a.cid = b.cid
            THEN {} ELSE {"drift.impl_lattice"}
=============================================================================

----------------------------- MODULE MC_SEDump -----------------------------
(***************************************************************************)
(* Bounded-exhaustive model check of the Surface Evolver parser (C14).     *)
(* TLC enumerates small abstract dumps:                                    *)
(*   template  (one face of 3..8 signed references; two / three faces      *)
(*              sharing edges, the shared edges referenced negatively),    *)
(*   profile   <<ids, flip, dens, orph, bord>>                             *)
(*              ids : 0 dense 1..n | 1 offset and gaps, negative and tiny  *)
(*                    coordinates | 2 records in descending id order       *)
(*              flip: 0 no edge record reversed | 1 all (every reference   *)
(*                    negative) | 2 every other one                        *)
(*              dens: 0 every edge has a density | 1 every other one has   *)
(*                    none (but `original n`) | 2 one bare `id v1 v2`      *)
(*              orph: 0 none | 1 appended: dangling edge to an unattached  *)
(*                    vertex + isolated vertex | 2 prepended: edge between *)
(*                    two unattached vertices | 3 unattached edge between  *)
(*                    two attached vertices                                *)
(*              bord: 0 bodies in face order | 1 reversed | 2 rotated      *)
(*   wrapping  EVERY way to cut  id r1 .. rn /*area*/  into physical lines *)
(*             (2^(n+1) per face, independently for each face),            *)
(* and checks that the implementation-shaped parser I satisfies D:         *)
(*   LineMachineOK    the four-case line machine reassembles every loop    *)
(*   SectionFinderOK  the section finder selects exactly the record lines  *)
(*   ImplSatisfiesD   ParseVerdict(d, ImplParse(d)) = {} (known-finding    *)
(*                    instances excepted, and those occur exactly when     *)
(*                    their trigger is present: KFExactlyWhenTriggered)    *)
(* Every leaf is emitted (`EJ {json}`), written to a real .dmp file by the *)
(* independent serialiser and parsed by the real code.                     *)
(***************************************************************************)
EXTENDS SEDump, TLC, Json, IOUtils

CONSTANTS TFull,     \* template indices explored with the full product of profiles
          TList      \* template indices explored with the short profile list

\* the thorough tier runs one TLC job per batch of templates: bit i-1 of the environment variables
\* C14_TFULL / C14_TLIST selects template i (cfg: CONSTANT TFull <- TFullEnv  TList <- TListEnv)
Bits(n) == {i \in 1..9 : (n \div (2 ^ (i - 1))) % 2 = 1}
EnvInt(name) == IF name \in DOMAIN IOEnv THEN atoi(IOEnv[name]) ELSE 0
TFullEnv == Bits(EnvInt("C14_TFULL"))
TListEnv == Bits(EnvInt("C14_TLIST"))

VARIABLES t, prof, fi, cuts, ws, d
vars == <<t, prof, fi, cuts, ws, d>>

(******************************* templates *********************************)
SingleFace(pts) == LET n == Len(pts) IN
  [pos |-> pts, E |-> [j \in 1..n |-> <<j, IF j = n THEN 1 ELSE j + 1>>], F |-> <<[j \in 1..n |-> j]>>,
   chord |-> IF n >= 4 THEN <<1, 3>> ELSE <<0, 0>>]
Templates == <<
  SingleFace(<< <<0,0>>, <<6,0>>, <<2,5>> >>),
  SingleFace(<< <<0,0>>, <<6,0>>, <<7,5>>, <<1,6>> >>),
  SingleFace(<< <<0,0>>, <<6,0>>, <<8,4>>, <<4,8>>, <<-1,4>> >>),
  SingleFace(<< <<2,0>>, <<6,0>>, <<8,4>>, <<6,8>>, <<2,8>>, <<0,4>> >>),
  SingleFace(<< <<2,0>>, <<6,0>>, <<8,3>>, <<8,6>>, <<5,9>>, <<1,8>>, <<-1,4>> >>),
  SingleFace(<< <<2,0>>, <<5,0>>, <<7,2>>, <<7,5>>, <<5,7>>, <<2,7>>, <<0,5>>, <<0,2>> >>),
  \* 7: square cut by a diagonal, the second triangle runs the diagonal backwards
  [pos |-> << <<0,0>>, <<6,0>>, <<6,6>>, <<0,6>> >>,
   E |-> << <<1,2>>, <<2,3>>, <<3,1>>, <<3,4>>, <<4,1>> >>,
   F |-> << <<1, 2, 3>>, <<-3, 4, 5>> >>, chord |-> <<2, 4>>],
  \* 8: quadrilateral and triangle
  [pos |-> << <<0,0>>, <<6,0>>, <<6,6>>, <<0,6>>, <<12,3>> >>,
   E |-> << <<1,2>>, <<2,3>>, <<3,4>>, <<4,1>>, <<2,5>>, <<5,3>> >>,
   F |-> << <<1, 2, 3, 4>>, <<5, 6, -2>> >>, chord |-> <<1, 3>>],
  \* 9: three triangles around a three-fold junction (every pair of vertices is joined: no chord)
  [pos |-> << <<4,3>>, <<0,0>>, <<9,0>>, <<4,9>> >>,
   E |-> << <<1,2>>, <<2,3>>, <<3,1>>, <<3,4>>, <<4,1>>, <<4,2>> >>,
   F |-> << <<1, 2, 3>>, <<-3, 4, 5>>, <<-5, 6, -1>> >>, chord |-> <<0, 0>>]
>>

FullProfs == {<<i, f, de, o, b>> : i \in 0..2, f \in 0..2, de \in 0..2, o \in 0..3, b \in 0..2}
ListProfs == { <<0,0,0,0,0>>, <<1,1,1,1,0>>, <<2,2,0,2,0>>, <<0,2,1,2,0>>,
               <<1,0,2,0,0>>,      \* bare edge line
               <<2,1,1,3,0>>,      \* unattached edge between attached vertices
               <<1,2,1,1,1>>,      \* bodies reversed
               <<0,1,0,0,2>> }     \* bodies rotated
Applicable(T, pf) == /\ (pf[4] = 3 => T.chord # <<0, 0>>)
                     /\ (pf[5] = 1 => Len(T.F) >= 2)
                     /\ (pf[5] = 2 => Len(T.F) >= 3)

FRAC  == << <<123456, 1>>, <<999600, 0>>, <<449, 1>>, <<300000, 0>>, <<0, 0>> >>
DVALS == << <<1,0,997000,0>>, <<1,1,7341,1>>, <<1,1,0,0>>, <<1,1,282714,1>>, <<1,0,99951,1>>, <<1,9,999951,1>> >>
MVALS == << <<1,0,50716,1>>, <<-1,0,123456,1>>, <<1,2,999960,0>> >>

RECURSIVE WrapOf(_, _, _)
WrapOf(cs, i, run) == IF i > Len(cs) THEN <<run>>
                      ELSE IF cs[i] = 1 THEN <<run>> \o WrapOf(cs, i + 1, 1) ELSE WrapOf(cs, i + 1, run + 1)

MakeDump(T, pf, wraps) ==
  LET ids == pf[1]  flip == pf[2]  dens == pf[3]  orph == pf[4]  bord == pf[5]
      nv0 == Len(T.pos)  ne0 == Len(T.E)  nf == Len(T.F)
      vpre == IF orph = 2 THEN 2 ELSE 0
      epre == IF orph = 2 THEN 1 ELSE 0
      vpost == IF orph = 1 THEN 2 ELSE 0
      epost == IF orph = 1 \/ orph = 3 THEN 1 ELSE 0
      nv == vpre + nv0 + vpost
      ne == epre + ne0 + epost
      flipped(j) == flip = 1 \/ (flip = 2 /\ j % 2 = 1)
      sh == IF ids = 1 THEN <<-3, -4>> ELSE <<0, 0>>
      xy(i) == IF i <= vpre THEN <<20 + i, 30>>
               ELSE IF i <= vpre + nv0 THEN <<T.pos[i - vpre][1] + sh[1], T.pos[i - vpre][2] + sh[2]>>
               ELSE <<25, 30 + i>>
      valOf(c, q) == LET fr == FRAC[(q % 5) + 1] IN <<IF c < 0 THEN -1 ELSE 1, Abs(c), fr[1], fr[2]>>
      vid(i) == CASE ids = 0 -> i [] ids = 1 -> 10 + 3 * i [] OTHER -> 90 - 2 * i
      eid(j) == CASE ids = 0 -> j [] ids = 1 -> 7 + 2 * j  [] OTHER -> 60 - j
      fid(k) == CASE ids = 0 -> k [] ids = 1 -> 5 + 4 * k  [] OTHER -> 30 - 3 * k
      ends(j) == IF j <= epre THEN <<1, 2>>
                 ELSE IF j <= epre + ne0
                      THEN LET e == T.E[j - epre] IN
                           IF flipped(j - epre) THEN <<vpre + e[2], vpre + e[1]>> ELSE <<vpre + e[1], vpre + e[2]>>
                 ELSE IF orph = 1 THEN <<nv - 1, vpre + 1>>
                 ELSE <<vpre + T.chord[1], vpre + T.chord[2]>>
      hd(j) == CASE dens = 0 -> TRUE [] dens = 1 -> (j % 2 = 0) [] OTHER -> j # epre + 2
      at(j) == IF dens = 2 /\ j = epre + 2 THEN 0
               ELSE IF ~hd(j) THEN 300 + j ELSE IF j % 3 = 0 THEN 300 + j ELSE 0
      ref(r) == LET s == IF flipped(Abs(r)) THEN -Sgn(r) ELSE Sgn(r) IN s * (Abs(r) + epre)
      order == CASE bord = 0 -> [l \in 1..nf |-> l]
                 [] bord = 1 -> [l \in 1..nf |-> nf + 1 - l]
                 [] OTHER    -> [l \in 1..nf |-> IF l = nf THEN 1 ELSE l + 1]
  IN [V |-> [i \in 1..nv |-> [id |-> vid(i), x |-> valOf(xy(i)[1], i), y |-> valOf(xy(i)[2], i + 2)]],
      E |-> [j \in 1..ne |-> [id |-> eid(j), a |-> ends(j)[1], b |-> ends(j)[2], hd |-> hd(j),
                              d |-> IF hd(j) THEN DVALS[(j % 6) + 1] ELSE <<1, 1, 0, 0>>, at |-> at(j)]],
      F |-> [k \in 1..nf |-> [id |-> fid(k), loop |-> [i \in DOMAIN T.F[k] |-> ref(T.F[k][i])], w |-> wraps[k]]],
      B |-> [l \in 1..nf |-> [id |-> fid(order[l]), f |-> (IF order[l] % 2 = 0 THEN -1 ELSE 1) * order[l],
                              m |-> MVALS[((order[l] - 1) % 3) + 1]]]]

(******************************* behaviour *********************************)
NoDump == [none |-> TRUE]
Init == t = 0 /\ prof = <<>> /\ fi = 0 /\ cuts = <<>> /\ ws = <<>> /\ d = NoDump

ChooseT == /\ t = 0
           /\ t' \in TFull \cup TList
           /\ UNCHANGED <<prof, fi, cuts, ws, d>>
ChooseP == /\ t # 0 /\ prof = <<>>
           /\ prof' \in {pf \in (IF t \in TFull THEN FullProfs ELSE ListProfs) : Applicable(Templates[t], pf)}
           /\ fi' = 1
           /\ UNCHANGED <<t, cuts, ws, d>>
NF == IF t = 0 THEN 0 ELSE Len(Templates[t].F)
Cut == /\ fi \in 1..NF /\ Len(cuts) < Len(Templates[t].F[fi]) + 1
       /\ \E c \in {0, 1} : cuts' = Append(cuts, c)
       /\ UNCHANGED <<t, prof, fi, ws, d>>
CloseFace == /\ fi \in 1..NF /\ Len(cuts) = Len(Templates[t].F[fi]) + 1
         /\ ws' = Append(ws, WrapOf(cuts, 1, 1))
         /\ cuts' = <<>> /\ fi' = fi + 1
         /\ UNCHANGED <<t, prof, d>>
Build == /\ t # 0 /\ fi = NF + 1 /\ d = NoDump
         /\ d' = MakeDump(Templates[t], prof, ws)
         /\ UNCHANGED <<t, prof, fi, cuts, ws>>
Next == ChooseT \/ ChooseP \/ Cut \/ CloseFace \/ Build
Spec == Init /\ [][Next]_vars

Leaf == d # NoDump
NFaceLines == SumSeq([k \in DOMAIN d.F |-> Len(d.F[k].w)])

PremiseHolds    == Leaf => WellFormed(d)
LineMachineOK   == Leaf => FaceLinesOK(d)
SectionFinderOK == Leaf => SectionsOK(d, NFaceLines)
ImplSatisfiesD  == Leaf => ParseVerdict(d, ImplParse(d)) = {}
KFExactlyWhenTriggered == Leaf => ((ParseKF(d, ImplParse(d)) # {}) <=> (prof[3] = 2 \/ prof[4] = 3 \/ prof[5] # 0))
ImplHasNoDrift  == Leaf => ParseDrift(d, ImplParse(d)) = {}
Emit == Leaf => PrintT("EJ " \o ToJson([tmpl |-> t, prof |-> prof, d |-> d]))

\* vacuity guards (not in the cfg; each is expected to be VIOLATED)
KnownFindingReachable == Leaf => ParseKF(d, ImplParse(d)) = {}
=============================================================================

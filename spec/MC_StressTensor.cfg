SPECIFICATION Spec
INVARIANT KeysInjective
INVARIANT KeyModelsAgree
INVARIANT CertificateSound
INVARIANT EmitKeys
CHECK_DEADLOCK FALSE

----------------------------- MODULE SubTissue -----------------------------
(***************************************************************************)
(* Enumeration of sub-tissues of a catalogue base tissue: every subset of  *)
(* its cells, restricted, densely renumbered, and with k interior points   *)
(* inserted on every base edge. This is the single implementation of       *)
(* "restrict a tissue to a cell subset"; drivers receive its output.       *)
(***************************************************************************)
EXTENDS Mesh, TLC, Json, IOUtils

LOCAL Rg(s) == {s[i] : i \in DOMAIN s}

Base == JsonDeserialize(IOEnv.BASE_FILE)   \* [nv, nc, pos, cells, ...]

SubCycles(sub) == LET ids == SeqOfSetSorted(sub) IN [j \in DOMAIN ids |-> Base.cells[ids[j]]]

UsedV(cycles) == UNION {Rg(cycles[c]) : c \in DOMAIN cycles}
Rank(used, v) == Cardinality({u \in used : u <= v})
Renumber(cycles) == LET used == UsedV(cycles) IN
                    [c \in DOMAIN cycles |-> [i \in DOMAIN cycles[c] |-> Rank(used, cycles[c][i])]]

\* position (1-based) of an unordered pair in a sequence of pairs
PairIndex(pairs, pr) == CHOOSE e \in DOMAIN pairs : pairs[e] = pr

RECURSIVE SubdivCycle(_, _, _, _, _)
SubdivCycle(cyc, i, pairs, nv, k) ==
  IF i > Len(cyc) THEN <<>>
  ELSE LET a == cyc[i]  b == cyc[Nxt(i, Len(cyc))]
           e == PairIndex(pairs, {a, b})
           base == nv + (e - 1) * k
           ins == IF a < b THEN [j \in 1..k |-> base + j] ELSE [j \in 1..k |-> base + k + 1 - j]
       IN  <<a>> \o ins \o SubdivCycle(cyc, i + 1, pairs, nv, k)

Subdivide(nv, cycles, k) ==
  IF k = 0 THEN cycles
  ELSE LET pairs == Dedup(AllPairs(cycles, 1), <<>>)
       IN  [c \in DOMAIN cycles |-> SubdivCycle(cycles[c], 1, pairs, nv, k)]

NPairs(cycles) == Len(Dedup(AllPairs(cycles, 1), <<>>))

\* the model mesh of (sub, k)
SubMesh(sub, k) ==
  LET rc  == Renumber(SubCycles(sub))
      nv0 == Cardinality(UsedV(SubCycles(sub)))
      cyc == Subdivide(nv0, rc, k)
  IN  MeshOfCycles(nv0 + k * NPairs(rc), cyc)
=============================================================================

---------------------------- MODULE MC_Workflow ----------------------------
(* Bounded model of Workflow.tla: every call sequence of a two-frame session up to depth MaxDepth.          *)
(* Invariants = the declarative properties relative to the known-finding matchers (main configuration) and   *)
(* the bare properties (guard configurations: each is EXPECTED to be violated - TLC's counterexample is the  *)
(* design-level finding).  `-simulate` writes behaviours whose `last` variable is the call sequence that the *)
(* harness replays on real ForSys sessions.                                                                  *)
EXTENDS Workflow

CONSTANTS MaxDepth, MaxVer

VARIABLES st, last, depth         \* depth: number of state-changing calls so far (a state variable, so that the bound is exact and
vars == <<st, last, depth>>       \* the explored set does not depend on the order in which the workers reach a state)

NoCall == [op |-> "none", t |-> 0, a |-> "", n |-> 0, nd |-> FALSE, raised |-> FALSE]
Init == st = InitState /\ last = NoCall /\ depth = 0

Counts(op) == IF op = "RemoveOutermost" THEN {0, 2} ELSE {0}
\* data-dependent outcomes are explored both ways where they can matter
NDs(S, op, t) == IF op \in {"RemoveCell", "RemoveOutermost"} THEN BOOLEAN
                 ELSE IF op = "SolveStress" /\ S.fm[t].has /\ S.gen[t] - S.fm[t].gen >= 2 THEN BOOLEAN
                 ELSE IF op = "BuildForce" /\ S.reg[t] = "stale" THEN BOOLEAN
                 ELSE IF op = "SystemVelocity" /\ (\E u \in Frames : S.reg[u] = "stale") THEN BOOLEAN ELSE {FALSE}
\* the session-wide call is issued once (t = 0); a poisoned session (KF_FrameZeroWF) is not explored further
Offered(S, op, t) == /\ \A u \in Frames : ~S.dmg[u]
                     /\ op = "SystemVelocity" => t = 0
OfferedArg(S, op, t, a) == op = "RemoveCell" => IF t = 0 THEN a = "border"
                                                ELSE (a \in {"border_absent", "interior_absent"} => S.gen[0] > 0)

Next == \E op \in Ops, t \in Frames : \E a \in Args(op), n \in Counts(op), nd \in NDs(st, op, t) :
          /\ Offered(st, op, t) /\ OfferedArg(st, op, t, a)
          /\ LET c == [op |-> op, t |-> t, a |-> a, n |-> n, nd |-> nd]
                 res == Step(st, c)
             IN  /\ st' = res.s
                 /\ last' = [op |-> op, t |-> t, a |-> a, n |-> n, nd |-> nd, raised |-> res.raised]
                 /\ depth' = IF res.s = st THEN depth ELSE depth + 1     \* queries and clean refusals may be interleaved freely
Spec == Init /\ [][Next]_vars

Bound == /\ depth <= MaxDepth
         /\ \A t \in Frames : st.gen[t] <= MaxGen /\ st.ver[t] <= MaxVer
View == <<st, depth>>

TypeOK == /\ \A t \in Frames : /\ st.gen[t] \in Nat /\ st.ver[t] \in Nat /\ st.fver[t] <= st.ver[t]
                               /\ st.reg[t] \in {"clean", "stale"} /\ st.redo[t] \in 0..4
                               /\ st.fm[t].gen <= st.gen[t] /\ st.pm[t].gen <= st.gen[t]
                               /\ st.tabz[t] => ~st.fattr[t].has
          /\ last.op \in Ops \cup {"none"}

LastCall == [op |-> last'.op, t |-> last'.t, a |-> last'.a, n |-> last'.n, nd |-> last'.nd]
LastRes == [s |-> st', raised |-> last'.raised]

(* the properties relative to the known findings: must hold *)
InvStalenessX == NoSilentStalenessX(st)
InvRecomputedX == RecomputedX(st)
InvRebuildX == RebuildPossibleX(st)
PropIsolatedX == [][IsolatedX(st, LastCall, st')]_vars
PropRefusalX == [][RefusalSafeX(st, LastCall, LastRes)]_vars
PropQueryPure == [][QueryPure(st, LastCall, LastRes)]_vars
\* refinement of Pipeline.tla's guards: a call of the old protocol is refused here exactly when a prerequisite object is
\* missing, or for a reason Pipeline.tla does not know (registry, damage)
PropRefinesPipeline ==
  [][LET c == LastCall IN
     /\ c.op = "SolveStress" => (last'.raised <=> (~st.fm[c.t].has \/ (st.gen[c.t] - st.fm[c.t].gen >= 2 /\ c.nd)))
     /\ c.op = "SolvePressure" => (last'.raised <=> ~st.pm[c.t].has)
     /\ c.op = "StressTensor" => (last'.raised <=> ~st.cp[c.t].has)
     /\ c.op = "BuildForce" => (last'.raised => KF_StaleRegistry(st, c.t))
     /\ c.op \in {"GetTensions", "GetPressures", "BuildPressure", "FilterEdges"} => ~last'.raised]_vars

(* the bare properties: guards, each expected to be violated *)
GuardStaleness == NoSilentStaleness(st)
GuardRecomputed == Recomputed(st)
GuardRebuild == RebuildPossible(st)
GuardMapping == MappingCurrent(st)
GuardIsolated == [][Isolated(st, LastCall, st')]_vars
GuardRefusal == [][RefusalSafe(st, LastRes)]_vars
\* reachability of the matchers one by one
GuardKFBorderRows == \A t \in Frames : ~(st.redo[t] = 4 /\ KF_StaleBorderRows(st, t))
GuardKFFilterCache == \A t \in Frames : ~(st.redo[t] = 4 /\ KF_FilterKeepsCache(st, t) /\ ~KF_StaleBorderRows(st, t))
=============================================================================

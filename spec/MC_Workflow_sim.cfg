SPECIFICATION Spec
CONSTANTS NF = 2
          MaxGen = 3
          MaxVer = 5
          MaxDepth = 40
CONSTRAINT Bound
CHECK_DEADLOCK FALSE

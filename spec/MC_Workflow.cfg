SPECIFICATION Spec
CONSTANTS NF = 2
          MaxGen = 2
          MaxVer = 2
          MaxDepth = 5
CONSTRAINT Bound
VIEW View
INVARIANT TypeOK
INVARIANT InvStalenessX
INVARIANT InvRecomputedX
INVARIANT InvRebuildX
PROPERTY PropIsolatedX
PROPERTY PropRefusalX
PROPERTY PropQueryPure
PROPERTY PropRefinesPipeline
CHECK_DEADLOCK FALSE

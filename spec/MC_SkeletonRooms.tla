------------------------- MODULE MC_SkeletonRooms -------------------------
(***************************************************************************)
(* Spec -> code direction of C15, tissue level.                            *)
(*                                                                         *)
(* Bounded-exhaustive enumeration of small "pixel tissues": an NX x NY     *)
(* grid of square rooms inside a closed outer wall; every interior wall    *)
(* segment is present or absent. A layout is a tissue in the sense of the  *)
(* premise iff no wall end dangles and no four walls cross (every lattice  *)
(* point carries 0, 2 or 3 segments), every wall separates two different   *)
(* regions, the walls hang together, and no region is a gap (premise.gap). *)
(* For every such layout the MODEL computes the truth the statement of C15 *)
(* talks about -- regions, which touch the outside, which pairs share a    *)
(* boundary line, which of those lines end in an interior junction -- and  *)
(* emits layout + truth. The driver draws the layout, thins it with the    *)
(* standard pipeline and replays it through the real parser; the trace     *)
(* spec judges the parser against the IMAGE-derived truth and cross-checks *)
(* the image-derived truth against this model-side truth (oracle.rooms).   *)
(*                                                                         *)
(* Rooms are numbered r = (j-1)*NX + i, i = 1..NX (column), j = 1..NY.     *)
(* Segments: <<0, i, j>> = wall below room (i, j), j = 0..NY (0 and NY     *)
(* are the outer wall); <<1, i, j>> = wall right of room (i, j),           *)
(* i = 0..NX. Lattice points <<x, y>>, x = 0..NX, y = 0..NY.               *)
(***************************************************************************)
EXTENDS Integers, Sequences, FiniteSets, TLC, Json

CONSTANTS NX, NY
VARIABLES n, walls, stage, ex
vars == <<n, walls, stage, ex>>

Rooms == 1..(NX * NY)
RoomAt(i, j) == (j - 1) * NX + i
ColOf(r) == ((r - 1) % NX) + 1
RowOf(r) == ((r - 1) \div NX) + 1

InnerH == {<<0, i, j>> : i \in 1..NX, j \in 1..(NY - 1)}
InnerV == {<<1, i, j>> : i \in 1..(NX - 1), j \in 1..NY}
Inner  == InnerH \cup InnerV
OuterW == {<<0, i, j>> : i \in 1..NX, j \in {0, NY}} \cup {<<1, i, j>> : i \in {0, NX}, j \in 1..NY}
\* enumeration order of the interior segments
InnerSeq == LET RECURSIVE F(_) F(S) == IF S = {} THEN <<>> ELSE
                  LET s == CHOOSE x \in S : \A y \in S :
                             x[1] < y[1] \/ (x[1] = y[1] /\ (x[3] < y[3] \/ (x[3] = y[3] /\ x[2] <= y[2])))
                  IN <<s>> \o F(S \ {s})
            IN F(Inner)

\* the two end points of a segment
EndsOf(s) == IF s[1] = 0 THEN {<<s[2] - 1, s[3]>>, <<s[2], s[3]>>}
                           ELSE {<<s[2], s[3] - 1>>, <<s[2], s[3]>>}
\* the two rooms a segment separates (0 = outside)
SidesOf(s) == IF s[1] = 0
              THEN <<IF s[3] >= 1 THEN RoomAt(s[2], s[3]) ELSE 0, IF s[3] < NY THEN RoomAt(s[2], s[3] + 1) ELSE 0>>
              ELSE <<IF s[2] >= 1 THEN RoomAt(s[2], s[3]) ELSE 0, IF s[2] < NX THEN RoomAt(s[2] + 1, s[3]) ELSE 0>>

Points == {<<x, y>> : x \in 0..NX, y \in 0..NY}
All(W) == W \cup OuterW
SegsAt(W, p) == {s \in All(W) : p \in EndsOf(s)}
Deg(W, p) == Cardinality(SegsAt(W, p))
OnOuter(p) == p[1] \in {0, NX} \/ p[2] \in {0, NY}

(* regions: rooms connected through absent walls *)
Open(W, r, q) == \E s \in Inner \ W : {SidesOf(s)[1], SidesOf(s)[2]} = {r, q}
RECURSIVE Flood(_, _, _)
Flood(W, seen, front) == IF front = {} THEN seen ELSE
                           LET nxt == {q \in Rooms \ seen : \E r \in front : Open(W, r, q)}
                           IN  Flood(W, seen \cup nxt, nxt)
RegionOf(W, r) == Flood(W, {r}, {r})
Regions(W) == {RegionOf(W, r) : r \in Rooms}
Min(S) == CHOOSE x \in S : \A y \in S : x <= y
\* regions in raster order of their first room: rank 1, 2, ...
RegionSeq(W) == LET RECURSIVE F(_) F(S) == IF S = {} THEN <<>> ELSE
                      LET R == CHOOSE X \in S : \A Y \in S : Min(X) <= Min(Y) IN <<R>> \o F(S \ {R})
                IN F(Regions(W))

(* walls hang together: every segment is reachable from the outer wall through shared lattice points *)
RECURSIVE Grow(_, _, _)
Grow(A, seen, front) == IF front = {} THEN seen ELSE
                          LET nxt == {s \in A \ seen : \E t \in front : EndsOf(s) \cap EndsOf(t) # {}}
                          IN  Grow(A, seen \cup nxt, nxt)
WallsConnected(W) == Grow(All(W), OuterW, OuterW) = All(W)

(* boundary lines: maximal chains of segments through lattice points carrying exactly two segments *)
RECURSIVE LineFrom(_, _, _)
LineFrom(W, seen, front) == IF front = {} THEN seen ELSE
                              LET nxt == {s \in All(W) \ seen : \E t \in front :
                                             \E p \in EndsOf(s) \cap EndsOf(t) : Deg(W, p) = 2}
                              IN  LineFrom(W, seen \cup nxt, nxt)
LineOf(W, s) == LineFrom(W, {s}, {s})
LineEnds(W, L) == {p \in UNION {EndsOf(s) : s \in L} : Deg(W, p) >= 3}

NoGap(W) == LET sizes == {<<R, Cardinality(R)>> : R \in Regions(W)}
                nreg == Cardinality(Regions(W))
                big  == CHOOSE x \in sizes : \A y \in sizes : y[2] <= x[2]
            IN  nreg >= 2 => big[2] * (nreg - 1) < 4 * (NX * NY - big[2])

Valid(W) == /\ \A p \in Points : Deg(W, p) \in {0, 2, 3}
            /\ \A s \in W : RegionOf(W, SidesOf(s)[1]) # RegionOf(W, SidesOf(s)[2])
            /\ WallsConnected(W)
            /\ Cardinality(Regions(W)) >= 2
            /\ NoGap(W)

(* the truth of the statement, computed on the layout; regions are named by rank *)
RankIn(sq, r) == CHOOSE k \in DOMAIN sq : r \in sq[k]
Expect(W) ==
  LET sq    == RegionSeq(W)
      rk    == [r \in Rooms |-> RankIn(sq, r)]
      rkseq == [r \in 1..(NX * NY) |-> rk[r]]
      pair(s) == {rk[SidesOf(s)[1]], rk[SidesOf(s)[2]]}
      deg3  == {p \in Points : Deg(W, p) = 3}
      \* interior walls whose boundary line has an end at a junction off the outer wall
      inner == {t \in W : \E p \in LineEnds(W, LineOf(W, t)) : ~OnOuter(p)}
  IN
  [ncells   |-> Len(sq),
   rooms    |-> rkseq,
   border   |-> {rk[r] : r \in {q \in Rooms : ColOf(q) \in {1, NX} \/ RowOf(q) \in {1, NY}}},
   adj      |-> {pair(s) : s \in W},
   internal |-> {pair(s) : s \in inner},
   njunction |-> Cardinality(deg3)]

Init == n = 1 /\ walls = {} /\ stage = "pick" /\ ex = [ncells |-> 0]
Pick == /\ stage = "pick" /\ n <= Len(InnerSeq)
        /\ \/ walls' = walls \cup {InnerSeq[n]}
           \/ walls' = walls
        /\ n' = n + 1 /\ UNCHANGED <<stage, ex>>
Close == /\ stage = "pick" /\ n = Len(InnerSeq) + 1 /\ Valid(walls)
         /\ stage' = "leaf" /\ ex' = Expect(walls) /\ UNCHANGED <<n, walls>>
Next == Pick \/ Close
Spec == Init /\ [][Next]_vars

Leaf == stage = "leaf"

(* design-level invariants of the model-side truth *)
\* Euler: junction points - lines + regions (+ outside) = 2 for a connected planar wall graph
LinesOf(W) == {LineOf(W, s) : s \in All(W)}
EulerOK == Leaf => Cardinality({p \in Points : Deg(walls, p) = 3}) - Cardinality(LinesOf(walls))
                     + Cardinality(Regions(walls)) + 1 = 2
InternalSubAdj == Leaf => ex.internal \subseteq ex.adj
\* a pair is internal iff some common line has an end off the outer wall; with only outer ends it is external
AllBorderWhenNoInterior == Leaf => (ex.border = 1..ex.ncells
                                      \/ \E r \in Rooms : ColOf(r) \notin {1, NX} /\ RowOf(r) \notin {1, NY})

HW(W) == [j \in 1..(NY - 1) |-> [i \in 1..NX |-> <<0, i, j>> \in W]]
VW(W) == [j \in 1..NY |-> [i \in 1..(NX - 1) |-> <<1, i, j>> \in W]]
Emit == Leaf => PrintT("EJ " \o ToJson([nx |-> NX, ny |-> NY, hwalls |-> HW(walls), vwalls |-> VW(walls),
                                        expect |-> ex]))
=============================================================================

--------------------------- MODULE Trace_Pipeline ---------------------------
(* Trace validation of the workflow protocol (Pipeline.tla): every recorded public call raised iff the     *)
(* specification refuses it, and the availability of results observed on the real objects after every call *)
(* equals the specification's flags. Events: Call {call, t, raised, obs: {fmat, solved, pmat, psolved,    *)
(* tensor: sequences of booleans per frame}}; Begin {nf} starts a case.                                    *)
EXTENDS TraceKit

VARIABLES l, st
Frs(n) == 0..(n - 1)
Fresh(n) == [nf |-> n, mesh |-> [t \in Frs(n) |-> "none"], frame |-> [t \in Frs(n) |-> "none"], session |-> FALSE,
             fmat |-> [t \in Frs(n) |-> FALSE], solved |-> [t \in Frs(n) |-> FALSE], pmat |-> [t \in Frs(n) |-> FALSE],
             psolved |-> [t \in Frs(n) |-> FALSE], tensor |-> [t \in Frs(n) |-> FALSE]]
Init == l = 1 /\ st = Fresh(1)

\* the guards and effects of Pipeline.tla on a record (same definitions, state passed explicitly so that the
\* successor is computed unprimed)
En(s, call, t) ==
  CASE call = "Parse" -> ~s.session /\ s.mesh[t] = "none"
    [] call = "Resample" -> ~s.session /\ s.mesh[t] # "none" /\ s.frame[t] = "none"
    [] call = "BuildFrame" -> ~s.session /\ s.mesh[t] # "none" /\ s.frame[t] = "none"
    [] call = "NewSession" -> ~s.session /\ \A u \in Frs(s.nf) : s.frame[u] = "built"
    [] call = "BuildForce" -> s.session
    [] call = "SolveStress" -> s.session /\ s.fmat[t]
    [] call = "BuildPressure" -> s.session
    [] call = "SolvePressure" -> s.session /\ s.pmat[t]
    [] call = "SystemVelocity" -> s.session
    [] call = "StressTensor" -> s.session /\ s.psolved[t]
    [] call \in {"GetTensions", "GetPressures"} -> s.frame[t] = "built"
    [] OTHER -> FALSE
Eff(s, call, t) ==
  [s EXCEPT !.mesh = IF call = "Parse" THEN [@ EXCEPT ![t] = "parsed"] ELSE IF call = "Resample" THEN [@ EXCEPT ![t] = "resampled"] ELSE @,
            !.frame = IF call = "BuildFrame" THEN [@ EXCEPT ![t] = "built"] ELSE @,
            !.session = (@ \/ call = "NewSession"),
            !.fmat = IF call = "BuildForce" THEN [@ EXCEPT ![t] = TRUE] ELSE IF call = "SystemVelocity" THEN [u \in Frs(s.nf) |-> TRUE] ELSE @,
            !.solved = IF call = "SolveStress" THEN [@ EXCEPT ![t] = TRUE] ELSE @,
            !.pmat = IF call = "BuildPressure" THEN [@ EXCEPT ![t] = TRUE] ELSE @,
            !.psolved = IF call = "SolvePressure" THEN [@ EXCEPT ![t] = TRUE] ELSE @,
            !.tensor = IF call = "StressTensor" THEN [@ EXCEPT ![t] = TRUE] ELSE @]

FlagsOK(s, obs) == \A t \in Frs(s.nf) :
   /\ obs.fmat[t + 1] = s.fmat[t] /\ obs.solved[t + 1] = s.solved[t] /\ obs.pmat[t + 1] = s.pmat[t]
   /\ obs.psolved[t + 1] = s.psolved[t] /\ obs.tensor[t + 1] = s.tensor[t]

Next == /\ l <= Len(TR)
        /\ LET e == TR[l] IN
           IF e.ev = "Begin" THEN EmitV(e, {}, {}, {}, {}, FALSE) /\ st' = Fresh(e.nf)
           ELSE LET en == En(st, e.call, e.t)
                    new == IF e.raised = "" /\ en THEN Eff(st, e.call, e.t) ELSE st
                    fails == (IF (e.raised # "") = en THEN {"PIPE.refusal:" \o e.call} ELSE {})
                             \cup (IF e.session /\ ~FlagsOK(new, e.obs) THEN {"PIPE.flags:" \o e.call} ELSE {})
                IN EmitV(e, fails, {}, {"PIPE." \o e.call} \cup (IF ~en THEN {"PIPE.refused"} ELSE {}), {}, FALSE) /\ st' = new
        /\ l' = l + 1
Spec == Init /\ [][Next]_<<l, st>>
Done == TLCGet("stats").diameter - 1 = Len(TR)
=============================================================================

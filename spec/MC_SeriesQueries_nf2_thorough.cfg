SPECIFICATION Spec
CONSTANT NF = 2
CONSTANT KS <- KS234
CONSTANT SHAPES <- ShapesAB
CONSTANT FAR = TRUE
CONSTANT CANON = 1
CONSTANT ONESET = FALSE
CONSTANT GUESSMAX = 99
CONSTANT ALLORDERS = FALSE
CONSTANT EMITMOD = 11
CONSTANT HIST = FALSE
INVARIANT InvPbm
INVARIANT InvAlgebra
INVARIANT InvVPos
INVARIANT InvVel
INVARIANT InvTtu
INVARIANT InvWhole
INVARIANT InvExport
INVARIANT InvCm
INVARIANT InvForced
INVARIANT InvMachine
INVARIANT Emit
PROPERTY QueriesArePure
CHECK_DEADLOCK FALSE

SPECIFICATION Spec
CONSTANT Frames = {0, 1}
INVARIANT TypeOK
CHECK_DEADLOCK FALSE

SPECIFICATION Spec
CONSTANT N = 3
CONSTANT SITES <- Sites3
CONSTANT STENCIL1 <- StA2
CONSTANT STENCIL2 <- StB2
CONSTANT VANISH <- NoVanish
CONSTANT ALLORDERS = TRUE
CONSTANT EMITMOD = 149
INVARIANT InvAccel
INVARIANT InvTotal
INVARIANT InvSame
INVARIANT InvRhs
INVARIANT InvEdges
INVARIANT Emit
CHECK_DEADLOCK FALSE

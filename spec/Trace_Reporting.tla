--------------------------- MODULE Trace_Reporting ---------------------------
(***************************************************************************)
(* Trace validation of the reporting / ground-truth API against the        *)
(* declarative layer of Reporting.tla (extension check `reporting`).       *)
(* One JSON object per line (harness/props/reporting.py):                  *)
(*                                                                         *)
(*  Frame  raised, raw (structure of the real Frame: nb, nc, ne, ext, inl, *)
(*         edges, npt, gtflag, geom + ifx, ify, cx, cy fixed-point vertex  *)
(*         coordinates per interface / cell), mesh (E mesh edges as vertex *)
(*         pairs, C cell cycles, ifv interfaces as vertex sequences; dense *)
(*         indices), obs (the values, see Reporting.tla)                   *)
(*  Call   c (the call), r (what it returned, projected: tables as rows    *)
(*         of dense indices and values, the exported FILE parsed back,     *)
(*         the returned object's index), obs (all values after the call)   *)
(*                                                                         *)
(* The state `st` is bound to the OBSERVED values after every event, so a  *)
(* wrong update is reported once, at the call that made it, and every      *)
(* query is judged against what the objects really hold.                   *)
(* touch[j] (the cells of an interface) is NOT read from the objects under *)
(* test: it is computed here from the mesh (the cells whose cycle runs     *)
(* along the first mesh edge of the interface).                            *)
(* Premises (rejected input, C08/C09 own them): the structure is well      *)
(* formed, interfaces partition the mesh edges, the k-th mesh edge of an   *)
(* interface joins its k-th and (k+1)-th vertex.                           *)
(* Verdicts are total: exactly one VJ line per event.                      *)
(***************************************************************************)
EXTENDS Reporting, TraceKit

VARIABLES l, F, st, memo, ok
tvars == <<l, F, st, memo, ok>>

NoFrame == [nb |-> 0]
NoState == [hasF |-> FALSE]

RECURSIVE SetToSeq(_)
SetToSeq(S) == IF S = {} THEN <<>> ELSE LET x == CHOOSE y \in S : \A z \in S : y <= z IN <<x>> \o SetToSeq(S \ {x})

MeshWF(raw, m) ==
  /\ Len(m.E) = raw.ne /\ Len(m.C) = raw.nc /\ Len(m.ifv) = raw.nb
  /\ \A e \in 1..raw.ne : Len(m.E[e]) = 2
  /\ \A j \in 1..raw.nb : Len(m.ifv[j]) >= 2 /\ Len(m.ifv[j]) = raw.npt[j] /\ Len(raw.edges[j]) = raw.npt[j] - 1
\* the cells whose cycle runs along the first mesh edge of interface j
TouchOf(raw, m) ==
  [j \in 1..raw.nb |->
     LET a == m.ifv[j][1]
         b == m.ifv[j][2]
     IN  SetToSeq({c \in 1..raw.nc :
                     \E p \in 1..Len(m.C[c]) :
                        LET x == m.C[c][p]
                            y == m.C[c][(p % Len(m.C[c])) + 1]
                        IN  (x = a /\ y = b) \/ (x = b /\ y = a)})]
\* the k-th mesh edge of an interface joins its k-th and (k+1)-th vertex
EdgesAlong(raw, m) ==
  \A j \in 1..raw.nb : \A k \in 1..Len(raw.edges[j]) :
     LET ed == m.E[raw.edges[j][k]]
         a == m.ifv[j][k]
         b == m.ifv[j][k + 1]
     IN  (ed[1] = a /\ ed[2] = b) \/ (ed[1] = b /\ ed[2] = a)

\* shapes the projection guarantees (anything else is a harness problem: the event is rejected, never judged)
IsPair(x) == Len(x) = 2
RowWidth(op) == CASE op = "Tensions" -> 3 [] op = "GT" -> 2 [] op = "Pressures" -> 3 [] op = "Export" -> 2
                  [] op = "CellProps" -> 6 [] op = "EdgeProps" -> 5 [] op = "LogForce" -> 3 [] op = "EdgeForce" -> 1
                  [] OTHER -> 0
CallWF(c, r) ==
  /\ c.op \in Updates \cup Queries
  /\ \A i \in 1..Len(c.g) : IsPair(c.g[i])
  /\ \A i \in 1..Len(r.rows) : Len(r.rows[i]) = RowWidth(c.op)
  /\ \A i \in 1..Len(r.rows2) : Len(r.rows2[i]) = 2

\* ---- code vs the implementation-shaped layer I (notes only) --------------------------------------------
IDrift(c, r) ==
  IF (c.op \in Updates /\ ~UpdEnabled(F, st, c)) \/ (c.op \in {"Solve", "SolveP"} /\ r.raised # "")
     \/ (c.op \in {"EdgesId", "EdgeForce"} /\ c.a \notin 1..F.nb)
     \/ (c.op = "ByCells" /\ (c.a \notin 1..F.nc \/ c.b \notin 1..F.nc \/ c.a = c.b))
  THEN {}
  ELSE LET x == IStep(F, st, c).res IN
       (IF r.raised # x.raised THEN {"drift.raised." \o c.op} ELSE {})
       \cup (IF r.raised = "" /\ x.raised = "" /\ (r.kind # x.kind \/ r.ids # x.ids \/ r.j # x.j)
             THEN {"drift.result." \o c.op} ELSE {})
       \cup (IF r.raised = "" /\ x.raised = "" /\ c.op \notin {"CellProps", "EdgeProps"} /\ (r.cols # x.cols \/ r.rows # x.rows)
             THEN {"drift.rows." \o c.op} ELSE {})

EmitW(e, inst, hits, drift, rejected, where) ==
  PrintT("VJ " \o ToJson([case |-> e.case, ev |-> e.ev, fails |-> Fails(inst), kf |-> Known(inst), hits |-> hits,
                          drift |-> drift, rejected |-> rejected, where |-> where]))

TInit == l = 1 /\ F = NoFrame /\ st = NoState /\ memo = {} /\ ok = FALSE

DoFrame(e) ==
  /\ e.ev = "Frame"
  /\ memo' = {}
  /\ IF e.raised # "" \/ ~RawWF0(e.raw) \/ ~MeshWF(e.raw, e.mesh)
     THEN /\ F' = NoFrame /\ st' = NoState /\ ok' = FALSE
          /\ EmitW(e, {}, {}, {"premise.structure"}, TRUE, {})
     ELSE \E f \in {MkFrame([e.raw EXCEPT !.touch = TouchOf(e.raw, e.mesh)])} :
            IF ~Partition(f) \/ ~EdgesAlong(e.raw, e.mesh) \/ ~StateWF(f, e.obs)
            THEN /\ F' = NoFrame /\ st' = NoState /\ ok' = FALSE
                 /\ EmitW(e, {}, {}, {"premise.partition"}, TRUE, {})
            ELSE /\ F' = f /\ st' = e.obs /\ ok' = TRUE
                 /\ EmitW(e, JudgeFrame(f, e.obs),
                          {"REP.frame.defaults"} \cup (IF f.gtflag THEN {"REP.gt_is_mean"} ELSE {}), {}, FALSE, {})

DoCall(e) ==
  /\ e.ev = "Call"
  /\ UNCHANGED <<F, ok>>
  /\ IF ~ok \/ ~CallWF(e.c, e.r) \/ ~StateWF(F, e.obs)
     THEN /\ UNCHANGED <<st, memo>>
          /\ EmitW(e, {}, {}, IF ok THEN {"premise.shape"} ELSE {}, TRUE, {})
     ELSE /\ st' = e.obs
          /\ memo' = IF e.c.op = "ByCells" THEN memo \cup {<<e.c.a, e.c.b, IF e.r.raised # "" THEN -1 ELSE e.r.j>>} ELSE memo
          /\ LET inst == Judge(F, st, e.c, e.r, e.obs, memo)
                 numfail == e.c.op \in {"Solve", "SolveP"} /\ e.r.raised # ""
             IN  EmitW(e, inst, IF numfail THEN {} ELSE HitsOf(F, st, e.c, e.r), IDrift(e.c, e.r), numfail,
                       StateDiff(st, e.obs))

TNext == /\ l <= Len(TR)
         /\ LET e == TR[l] IN DoFrame(e) \/ DoCall(e)
         /\ l' = l + 1

TSpec == TInit /\ [][TNext]_tvars
Done == TLCGet("stats").diameter - 1 = Len(TR)
=============================================================================

---------------------------- MODULE Trace_Accel ----------------------------
(***************************************************************************)
(* Trace validation of the accelerations of tracked vertices (extension    *)
(* check `accel`) against the declarative layer of Acceleration.tla.       *)
(* The events of Trace_Tracking (Env, NewSession, PointByMap, Velocity)    *)
(* are consumed by its own actions (their C12/C13 verdicts are not this    *)
(* check's business); new events, one JSON object per line:                *)
(*                                                                         *)
(*  Accel     t, acc[p] = <<code, ax, ay>>  code: 1 value, 0 NaN,          *)
(*            -1 vertex absent / not asked, -2 DifferentTissueException,   *)
(*            -3 AttributeError, -4 KeyError, -5 other exception,          *)
(*            -6 outside the fixed-point range;                            *)
(*            macc[p] (exact MC instances only): the same in model integers*)
(*  AccRHS    t, rowof[p] (-1 = not used), rows_outside, nrows, b, bnan    *)
(*            (0-based rows that hold NaN), avg, built_raised, raised, oor *)
(*  EdgeRows  kind "acc" | "vel", t0, t1, k, ends <<p0, p1>>,              *)
(*            row[s] = <<has, value>> (1 value, 0 NaN, -6 out of range),   *)
(*            raised            (acceleration_per_edge / velocity_per_edge) *)
(*  Whole     t, rows[k] = <<p0, p1, has, value>> per interface of frame t,*)
(*            extra (keys that are no interface index of frame t), raised  *)
(*                                                                         *)
(* Clauses: ACC.second_difference, ACC.which_frames, ACC.nan_without_      *)
(* partner, ACC.rhs_rows, ACC.rhs_nan_zero, ACC.per_edge_sum, ACC.raised.  *)
(* Tracked partner = the vertex designated by the session's own            *)
(* correspondence (ses.maps), tabulated once per session in `tabs`.        *)
(* Series with fewer than three frames are rejected input.                 *)
(***************************************************************************)
EXTENDS Trace_Tracking, Acceleration

VARIABLES acc, tabs, ims
avars == <<l, env, ses, prem, vel, acc, tabs, ims>>

AInit == Init /\ acc = <<>> /\ tabs = <<>> /\ ims = <<>>

Usable == SesOK /\ env.nf >= 3 /\ tabs # <<>> /\ ses.pool_outside = 0

\* second difference against the logged fixed-point positions: 4 position quantisations (2 ulp), the logged
\* acceleration (0.5 ulp); x 4
AccTol == 10
\* norms are evaluated in fixed point: components up to 30 (squares stay below 2^31 / Q)
InR(a) == Abs(a[2]) <= 30 * Q /\ Abs(a[3]) <= 30 * Q
SumTol(s) == 200 + s \div 10000
NormOf(a) == NormHi(<<a[2], a[3]>>)

\* ---- per-vertex accelerations ---------------------------------------------------------------------
\* first differences must stay inside the 32-bit range
Safe(F, d) == LET lo == DAccLo(env.nf, F)
                  x == ses.fpos[lo][d[2]]  y == ses.fpos[lo + 1][d[3]]  z == ses.fpos[lo + 2][d[4]]
              IN  \A c \in 1..2 : Abs(z[c] - y[c]) <= 1000 * Q /\ Abs(y[c] - x[c]) <= 1000 * Q
ValOK(F, d, a) == LET x == DAccValue(ses.fpos, env.nf, F, d) IN Close(a[2], x[1], AccTol) /\ Close(a[3], x[2], AccTol)
\* position of the tracked partner of p (frame F) at frame G, <<>> if there is none
PosAt(F, p, G) == IF SpanSkipped(tabs, F, G) THEN <<>>
                  ELSE LET q == DPartner(tabs, p, F, G) IN IF q > 0 THEN ses.fpos[G][q] ELSE <<>>
\* the logged value is a second difference, but over other time points / in other roles than D says
AltMatch(F, p, a) ==
  LET W == {G \in (F - 2)..(F + 2) : G >= 1 /\ G <= env.nf} IN
  \E X \in W : \E Y \in W : \E Z \in W :
     /\ X < Z /\ Y # X /\ Y # Z /\ F \in {X, Y, Z}
     /\ LET px == PosAt(F, p, X)  py == PosAt(F, p, Y)  pz == PosAt(F, p, Z) IN
        /\ px # <<>> /\ py # <<>> /\ pz # <<>>
        /\ \A c \in 1..2 : Abs(pz[c] - py[c]) <= 1000 * Q /\ Abs(py[c] - px[c]) <= 1000 * Q
        /\ LET s == SecondDiff(pz, py, px) IN Close(a[2], s[1], AccTol) /\ Close(a[3], s[2], AccTol)

\* drift of the transcription I on exact instances (model integers = gpos / 100)
MPos == [f \in 1..env.nf |-> [p \in 1..env.np |-> <<ses.gpos[f][p][1] \div 100, ses.gpos[f][p][2] \div 100>>]]
IDriftAcc(e, F, P) ==
  \E p \in P : LET i == IAccel(MPos, ims, ses.ord, env.nf, p, F)  m == e.macc[p] IN
     CASE i[1] = "val"  -> m # <<1, i[2], i[3]>>
       [] i[1] = "nan"  -> m[1] # 0
       [] i[1] = "attr" -> m[1] # -3
       [] OTHER         -> FALSE

DoAccel(e) ==
  /\ e.ev = "Accel"
  /\ LET F == e.t + 1
         P == IF Usable THEN {p \in 1..env.np : e.acc[p][1] \in {1, 0, -2, -3, -4, -5}} ELSE {}
         Val == {p \in P : DAccelKind(tabs, env.nf, p, F)[1] = "value"}
         Nan == {p \in P : DAccelKind(tabs, env.nf, p, F)[1] = "nan"}
         Sk  == {p \in P : DAccelKind(tabs, env.nf, p, F)[1] = "skipped"}
         Judged == {p \in Val : e.acc[p][1] = 1 /\ Safe(F, DAccelKind(tabs, env.nf, p, F))}
         BadVal == {p \in Judged : ~ValOK(F, DAccelKind(tabs, env.nf, p, F), e.acc[p])}
         fails ==
           (IF \E p \in BadVal : ~AltMatch(F, p, e.acc[p]) THEN {"ACC.second_difference"} ELSE {}) \cup
           (IF \E p \in BadVal : AltMatch(F, p, e.acc[p]) THEN {"ACC.which_frames"} ELSE {}) \cup
           \* NaN although a tracked partner exists at both time points
           (IF \E p \in Val : e.acc[p][1] = 0 THEN {"ACC.second_difference"} ELSE {}) \cup
           (IF \E p \in Nan : e.acc[p][1] = 1 THEN {"ACC.nan_without_partner"} ELSE {}) \cup
           (IF \E p \in Val \cup Nan : e.acc[p][1] < 0 THEN {"ACC.raised"} ELSE {}) \cup
           (IF \E p \in Sk : e.acc[p][1] \in {-4, -5} THEN {"ACC.raised"} ELSE {})
         kf == IF \E p \in Sk : KF_AccelSkippedStep(TRUE, IF e.acc[p][1] = -3 THEN "attr"
                                                          ELSE IF e.acc[p][1] = 1 THEN "value" ELSE "fine")
               THEN {"KF_AccelSkippedStep:ACC.raised"} ELSE {}
         hits == (IF Judged # {} THEN {"ACC.second_difference", "ACC.which_frames", "ACC.at_" \o AccPlace(env.nf, F)} ELSE {}) \cup
                 (IF Judged # {} /\ env.nf >= 4 THEN {"ACC.which_frames_distinct"} ELSE {}) \cup
                 (IF \E p \in Nan : e.acc[p][1] \in {0, 1} THEN {"ACC.nan_without_partner"} ELSE {}) \cup
                 (IF Val \cup Nan # {} THEN {"ACC.raised"} ELSE {}) \cup
                 (IF Sk # {} THEN {"ACC.skipped_step"} ELSE {})
         drift == IF Usable /\ env.exact /\ ims # <<>> /\ Has(e, "macc") /\ IDriftAcc(e, F, P) THEN {"ACC.I_accel"} ELSE {}
     IN  /\ EmitV(e, fails, kf, hits, drift, P = {} \/ (Val \cup Nan = {} /\ kf = {}))
         /\ acc' = IF Usable THEN [acc EXCEPT ![F] = e.acc] ELSE acc
  /\ UNCHANGED <<env, ses, prem, vel, tabs, ims>>

\* ---- right-hand side in acceleration mode ----------------------------------------------------------
DoAccRHS(e) ==
  /\ e.ev = "AccRHS"
  /\ LET F == e.t + 1
         known == Usable /\ acc[F] # <<>>
         built == e.built_raised = "" /\ ~e.oor /\ e.rows_outside = 0
         U == IF built /\ known THEN {p \in 1..env.np : e.rowof[p] >= 0} ELSE {}
         skipped == known /\ AccSkipped(tabs, env.nf, F)
         allKnown == known /\ \A p \in U : acc[F][p][1] \in {0, 1}
         NaNRows == Range(e.bnan)
         IsNaN(p) == e.rowof[p] \in NaNRows \/ (e.rowof[p] + 1) \in NaNRows
         rowsOK == \A p \in U : /\ e.rowof[p] + 2 <= e.nrows
                                /\ \A q \in U : (q # p) => (e.rowof[q] # e.rowof[p] /\ e.rowof[q] # e.rowof[p] + 1)
         X(p) == e.b[e.rowof[p] + 1]
         Y(p) == e.b[e.rowof[p] + 2]
         WithVal == {p \in U : acc[F][p][1] = 1}
         WithNaN == {p \in U : acc[F][p][1] = 0}
         judged == built /\ known /\ ~skipped /\ allKnown /\ U # {}
         fails ==
           IF ~built \/ ~known THEN {}
           ELSE IF skipped THEN (IF e.raised \in {"", "DifferentTissueException", "AttributeError"} THEN {} ELSE {"ACC.raised"})
           ELSE IF ~allKnown \/ U = {} THEN {}
           ELSE IF e.raised # "" THEN {"ACC.raised"}
           ELSE IF ~rowsOK THEN {"ACC.rhs_rows"}
           ELSE (IF (\E p \in WithVal : IsNaN(p) \/ ~Close(X(p), acc[F][p][2], 2) \/ ~Close(Y(p), acc[F][p][3], 2)) \/ e.avg # Q
                    THEN {"ACC.rhs_rows"} ELSE {}) \cup
                (IF \E p \in WithNaN : IsNaN(p) \/ X(p) # 0 \/ Y(p) # 0 THEN {"ACC.rhs_nan_zero"} ELSE {})
         kf == IF built /\ known /\ KF_AccelSkippedStep(skipped, IF e.raised = "AttributeError" THEN "attr" ELSE "fine")
               THEN {"KF_AccelSkippedStep:ACC.raised"} ELSE {}
         hits == IF ~judged THEN {}
                 ELSE {"ACC.raised"} \cup (IF WithVal # {} THEN {"ACC.rhs_rows"} ELSE {}) \cup
                      (IF WithNaN # {} THEN {"ACC.rhs_nan_zero"} ELSE {})
     IN  EmitV(e, fails, kf, hits, {}, ~judged /\ kf = {})
  /\ UNCHANGED <<env, ses, prem, vel, acc, tabs, ims>>

\* ---- per-interface rows --------------------------------------------------------------------------------
\* what D expects at frame G for the interface with ends p0, p1 in frame F0:
\* <<"skipped" | "nan" | "sum" | "open", value>>
EdgeExpect(kind, p0, p1, F0, G) ==
  LET d == DEdgeKind(tabs, p0, p1, F0, G) IN
  IF d[1] = "skipped" THEN <<"skipped", 0>>
  ELSE IF d[1] = "nan" THEN <<"nan", 0>>
  ELSE IF d[1] = "open" THEN <<"open", 0>>
  ELSE IF kind = "acc"
       THEN IF AccSkipped(tabs, env.nf, G) THEN <<"skipped", 0>>
            ELSE IF acc[G] = <<>> THEN <<"open", 0>>
            ELSE LET a0 == acc[G][d[2]]  a1 == acc[G][d[3]] IN
                 IF a0[1] = 1 /\ a1[1] = 1
                 THEN (IF InR(a0) /\ InR(a1) THEN <<"sum", NormOf(a0) + NormOf(a1)>> ELSE <<"open", 0>>)
                 ELSE IF a0[1] \in {0, 1} /\ a1[1] \in {0, 1} THEN <<"nan", 0>>      \* one of them is NaN
                 ELSE <<"open", 0>>
       ELSE \* velocities: the step used at G was skipped -> nan (DifferentTissueException is caught)
            IF StepNone(G) THEN <<"nan", 0>>
            ELSE IF vel[G] = <<>> THEN <<"open", 0>>
            ELSE IF vel[G][d[2]][1] = 1 /\ vel[G][d[3]][1] = 1 /\ InRange(G, {d[2], d[3]})
                 THEN <<"sum", Speed(G, d[2]) + Speed(G, d[3])>>
                 ELSE <<"open", 0>>

\* verdict of one step: "ok" | "bad" | "kf" | "open"
StepVerdict(x, r) ==
  CASE x[1] = "nan"     -> IF r[1] = 0 THEN "ok" ELSE IF r[1] = 1 THEN "bad" ELSE "open"
    [] x[1] = "sum"     -> IF r[1] = 1 THEN (IF Close(r[2], x[2], SumTol(x[2])) THEN "ok" ELSE "bad")
                           ELSE IF r[1] = 0 THEN "bad" ELSE "open"
    [] x[1] = "skipped" -> IF r[1] = 1 THEN "kf" ELSE "open"
    [] OTHER            -> "open"

DoEdgeRows(e) ==
  /\ e.ev = "EdgeRows"
  /\ LET F0 == e.t0 + 1
         GN == e.t1                                 \* last frame of the row (1-based)
         ok == Usable /\ e.ends[1] \in 1..env.np /\ e.ends[2] \in 1..env.np /\ F0 <= GN /\ GN <= env.nf
         Gs == IF ok THEN F0..GN ELSE {}
         Exp(G) == EdgeExpect(e.kind, e.ends[1], e.ends[2], F0, G)
         anySkipped == \E G \in Gs : Exp(G)[1] = "skipped"
         anyOpen    == \E G \in Gs : Exp(G)[1] = "open"
         lenOK == Len(e.row) = GN - F0 + 1
         V(G) == StepVerdict(Exp(G), e.row[G - F0 + 1])
         fails == IF ~ok THEN {}
                  ELSE IF e.raised # ""
                       THEN (IF anySkipped \/ anyOpen THEN (IF anySkipped /\ e.raised \notin {"KeyError", "AttributeError"} THEN {"ACC.raised"} ELSE {})
                             ELSE {"ACC.raised"})
                  ELSE IF ~lenOK THEN {"ACC.per_edge_sum"}
                  ELSE IF \E G \in Gs : V(G) = "bad" THEN {"ACC.per_edge_sum"} ELSE {}
         kf == IF ok /\ ((e.raised \in {"KeyError", "AttributeError"} /\ anySkipped) \/
                         (e.raised = "" /\ lenOK /\ \E G \in Gs : V(G) = "kf"))
               THEN {"KF_PerEdgeSkippedStep:ACC.raised"} ELSE {}
         judgedSteps == IF ok /\ e.raised = "" /\ lenOK THEN {G \in Gs : V(G) \in {"ok", "bad"}} ELSE {}
         hits == (IF \E G \in judgedSteps : Exp(G)[1] = "sum"
                     THEN {"ACC.per_edge_sum", IF e.kind = "acc" THEN "ACC.per_edge_acceleration" ELSE "ACC.per_edge_velocity"} ELSE {}) \cup
                 (IF \E G \in judgedSteps : Exp(G)[1] = "nan" THEN {"ACC.per_edge_nan"} ELSE {}) \cup
                 (IF ok /\ ~anySkipped /\ ~anyOpen THEN {"ACC.raised"} ELSE {})
     IN  EmitV(e, fails, kf, hits, {}, judgedSteps = {} /\ fails = {} /\ kf = {})
  /\ UNCHANGED <<env, ses, prem, vel, acc, tabs, ims>>

DoWhole(e) ==
  /\ e.ev = "Whole"
  /\ LET F == e.t + 1
         ok == Usable
         skipped == ok /\ AccSkipped(tabs, env.nf, F)
         KS == IF ok /\ e.raised = "" THEN {k \in DOMAIN e.rows : e.rows[k][1] \in 1..env.np /\ e.rows[k][2] \in 1..env.np} ELSE {}
         Exp(k) == EdgeExpect("acc", e.rows[k][1], e.rows[k][2], F, F)
         V(k) == StepVerdict(Exp(k), <<e.rows[k][3], e.rows[k][4]>>)
         fails == IF ~ok THEN {}
                  \* on a skipped step DifferentTissueException is accepted (whole_tissue_velocity lets it through as well)
                  ELSE IF e.raised # "" THEN (IF skipped /\ e.raised \in {"AttributeError", "DifferentTissueException"} THEN {} ELSE {"ACC.raised"})
                  ELSE IF \E k \in KS : V(k) = "bad" THEN {"ACC.per_edge_sum"} ELSE {}
         kf == IF ok /\ ((skipped /\ e.raised = "AttributeError") \/ (e.raised = "" /\ \E k \in KS : V(k) = "kf"))
               THEN {"KF_PerEdgeSkippedStep:ACC.raised"} ELSE {}
         judged == {k \in KS : V(k) \in {"ok", "bad"}}
         hits == (IF \E k \in judged : Exp(k)[1] = "sum" THEN {"ACC.per_edge_sum", "ACC.whole_tissue"} ELSE {}) \cup
                 (IF \E k \in judged : Exp(k)[1] = "nan" THEN {"ACC.per_edge_nan"} ELSE {}) \cup
                 (IF ok /\ ~skipped THEN {"ACC.raised"} ELSE {})
         \* observation: the returned dict is the accumulating self.accelerations - it still holds entries of
         \* frames asked for earlier when those have more interfaces
         drift == IF ok /\ e.raised = "" /\ e.extra > 0 THEN {"ACC.whole_stale_keys"} ELSE {}
     IN  EmitV(e, fails, kf, hits, drift, judged = {} /\ fails = {} /\ kf = {})
  /\ UNCHANGED <<env, ses, prem, vel, acc, tabs, ims>>

\* ---- the events of Trace_Tracking, with the tabulated correspondence -------------------------------------------
AEnv(e) == /\ DoEnv(e)
           /\ acc' = [f \in 1..e.nf |-> <<>>] /\ tabs' = <<>> /\ ims' = <<>>
ASession(e) ==
  /\ DoSession(e)
  /\ LET ok == e.raised = "" /\ env.nf > 0 /\ Len(e.maps) = env.nf - 1 IN
     /\ tabs' = IF ok THEN [f \in 1..(env.nf - 1) |-> DTable(e.maps[f], env.np)] ELSE <<>>
     /\ ims'  = IF ok /\ env.exact THEN [f \in 1..(env.nf - 1) |-> IMapping(IStep(env, e, f))] ELSE <<>>
  /\ UNCHANGED acc
AOld(e) == (DoPBM(e) \/ DoVelocity(e)) /\ UNCHANGED <<acc, tabs, ims>>

ANext == /\ l <= Len(TR)
         /\ LET e == TR[l] IN AEnv(e) \/ ASession(e) \/ AOld(e) \/ DoAccel(e) \/ DoAccRHS(e) \/ DoEdgeRows(e) \/ DoWhole(e)
         /\ l' = l + 1

ASpec == AInit /\ [][ANext]_avars
=============================================================================

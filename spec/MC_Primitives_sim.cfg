SPECIFICATION Spec
CONSTANT NV0 = 2
CONSTANT NV = 4
CONSTANT EIDS = {0, 1, 2}
CONSTANT CIDS = {0, 1}
CONSTANT BIDS = {0}
CONSTANT MAXE = 4
CONSTANT MAXC = 3
CONSTANT CYCLEN = 3
CONSTANT OPS <- OpsAll
CONSTANT MAXDEPTH = 12
CONSTANT EMITMOD = 1
CONSTANT WALKS = TRUE
INVARIANT TypeOK
INVARIANT InvState
INVARIANT EmitWalk
PROPERTY StepOK
CHECK_DEADLOCK FALSE

------------------------------- MODULE SEDump -------------------------------
(***************************************************************************)
(* Surface Evolver dumps and their parser — property C14.                  *)
(*                                                                         *)
(* Abstract dump d (dense 1-based indices in record order; ids are labels):*)
(*   d.V[i] = [id, x, y]                  x, y : val                       *)
(*   d.E[j] = [id, a, b, hd, d, at]       a, b indices into V; hd = the    *)
(*            record carries `density d`; at = n > 0: `original n` follows *)
(*   d.F[k] = [id, loop, w]               loop: signed indices into E;     *)
(*            w: units per physical line (units = id, refs..., comment)    *)
(*   d.B[l] = [id, f, m]                  f signed index into F, m : val   *)
(*   val    = <<sign, integer part, micro fraction 0..999999, t>>          *)
(*            (t = 1: the text carries further non-zero digits)            *)
(*                                                                         *)
(* Parsed mesh p (projection of SurfaceEvolver(path), or of ImplParse):    *)
(*   p.raised  "" | exception class name                                   *)
(*   p.V[i] = [k, id, x, y]    k = index of the record with that id (0 =   *)
(*            none), x, y = <<sign, integer part, micro fraction>>         *)
(*   p.E[j] = [k, id, a, b, g] a, b indices into p.V (0 = not a vertex of  *)
(*            the parsed mesh), g = reference tension                      *)
(*   p.C[c] = [k, id, cyc, pr] cyc indices into p.V, pr = ref. pressure    *)
(*                                                                         *)
(* D  = ParseVerdict / FrameVerdict: the statement of C14, no algorithm.   *)
(* I  = Layout + section finder + face-line machine + tail-vertex rule +   *)
(*      orphan removal + positional pressures, transcribed from            *)
(*      forsys/surface_evolver.py (ImplParse).                             *)
(***************************************************************************)
EXTENDS FixedPoint

LOCAL Rg(s) == {s[i] : i \in DOMAIN s}
MICRO == 1000000
U3 == 1000          \* three decimals, in micro units
U4 == 100           \* four decimals

RECURSIVE AscSeq(_)
AscSeq(S) == IF S = {} THEN <<>> ELSE LET x == CHOOSE y \in S : \A z \in S : y <= z IN <<x>> \o AscSeq(S \ {x})

(******************************* values ************************************)
RoundUp(v, u)   == LET r == ((v[3] + u \div 2) \div u) * u
                   IN  IF r >= MICRO THEN <<v[2] + 1, r - MICRO>> ELSE <<v[2], r>>
RoundDown(v, u) == <<v[2], (v[3] \div u) * u>>
\* within one micro unit of the half-way point: a binary double cannot be trusted to fall on the
\* decimal side the text is on, so either neighbour is accepted
NearTie(v, u)   == v[3] % u \in {u \div 2 - 1, u \div 2}
\* logged w = <<sign, ip, fp>> is v rounded to a multiple of u micro
Rounded(v, w, u) == LET m == <<w[2], w[3]>> IN
                    /\ (m = RoundUp(v, u) \/ (NearTie(v, u) /\ m = RoundDown(v, u)))
                    /\ (m = <<0, 0>> \/ w[1] = v[1])
ValOK(v) == Len(v) = 4 /\ v[1] \in {1, -1} /\ v[2] >= 0 /\ v[3] \in 0..(MICRO - 1) /\ v[4] \in {0, 1}
ONE == <<1, 1, 0>>

(***************************** dump access *********************************)
TailV(d, r) == IF r > 0 THEN d.E[r].a ELSE d.E[-r].b
HeadV(d, r) == IF r > 0 THEN d.E[r].b ELSE d.E[-r].a
FaceCycle(d, k) == [i \in DOMAIN d.F[k].loop |-> TailV(d, d.F[k].loop[i])]
UsedE(d) == UNION {{Abs(d.F[k].loop[i]) : i \in DOMAIN d.F[k].loop} : k \in DOMAIN d.F}
UsedVOf(d, ue) == UNION {{d.E[j].a, d.E[j].b} : j \in ue}
UsedV(d) == UsedVOf(d, UsedE(d))
BodyOfFace(d, k) == CHOOSE l \in DOMAIN d.B : Abs(d.B[l].f) = k
BareEdge(d, j) == ~d.E[j].hd /\ d.E[j].at = 0

IdsDistinct(s) == Cardinality({s[i].id : i \in DOMAIN s}) = Len(s) /\ \A i \in DOMAIN s : s[i].id > 0
LoopClosed(d, k) == LET lp == d.F[k].loop n == Len(lp) IN
                    \A i \in 1..n : HeadV(d, lp[i]) = TailV(d, lp[IF i = n THEN 1 ELSE i + 1])
\* premise of C14: "a dump laid out like the shipped ones", as far as the abstract dump can say it
WellFormed(d) ==
  /\ IdsDistinct(d.V) /\ IdsDistinct(d.E) /\ IdsDistinct(d.F) /\ IdsDistinct(d.B)
  /\ \A i \in DOMAIN d.V : ValOK(d.V[i].x) /\ ValOK(d.V[i].y)
  /\ \A j \in DOMAIN d.E : /\ d.E[j].a \in DOMAIN d.V /\ d.E[j].b \in DOMAIN d.V /\ d.E[j].a # d.E[j].b
                           /\ ValOK(d.E[j].d) /\ d.E[j].d[1] = 1 /\ d.E[j].d[2] < 30 /\ d.E[j].at >= 0
  /\ Cardinality({{d.E[j].a, d.E[j].b} : j \in DOMAIN d.E}) = Len(d.E)          \* no parallel records
  /\ \A k \in DOMAIN d.F : LET f == d.F[k] IN
        /\ Len(f.loop) >= 3
        /\ \A i \in DOMAIN f.loop : f.loop[i] # 0 /\ Abs(f.loop[i]) \in DOMAIN d.E
        /\ LoopClosed(d, k)
        /\ \A i \in DOMAIN f.w : f.w[i] >= 1
        /\ SumSeq(f.w) = Len(f.loop) + 2
  /\ Len(d.B) = Len(d.F)                                        \* one body per face, carrying the face's id
  /\ {Abs(d.B[l].f) : l \in DOMAIN d.B} = DOMAIN d.F
  /\ \A l \in DOMAIN d.B : ValOK(d.B[l].m) /\ d.B[l].m[2] < 2000 /\ d.B[l].id = d.F[Abs(d.B[l].f)].id

(***************************************************************************)
(* Layout of the faces section into physical lines of whitespace tokens.   *)
(***************************************************************************)
Num(x) == [k |-> "n", v |-> x]
BS == [k |-> "bs", v |-> 0]            \* the continuation backslash
CO == [k |-> "co", v |-> 0]            \* "/*area"
CC == [k |-> "cc", v |-> 0]            \* "-500*/"   (the token that contains "*/")
HasCommentEnd(t) == t.k = "cc"
IsBackslash(t)   == t.k = "bs"

Units(id, refs) == <<<<Num(id)>>>> \o [i \in DOMAIN refs |-> <<Num(refs[i])>>] \o <<<<CO, CC>>>>
RECURSIVE Flatten(_)
Flatten(us) == IF Len(us) = 0 THEN <<>> ELSE Head(us) \o Flatten(Tail(us))
RECURSIVE CutLines(_, _, _)
CutLines(us, w, i) ==
  IF i > Len(w) THEN <<>>
  ELSE <<Flatten(SubSeq(us, 1, w[i])) \o (IF i < Len(w) THEN <<BS>> ELSE <<>>)>>
       \o CutLines(SubSeq(us, w[i] + 1, Len(us)), w, i + 1)
LayoutFace(id, refs, w) == CutLines(Units(id, refs), w, 1)

RefIds(d, k) == [i \in DOMAIN d.F[k].loop |-> Sgn(d.F[k].loop[i]) * d.E[Abs(d.F[k].loop[i])].id]
RECURSIVE LayoutFacesFrom(_, _)
LayoutFacesFrom(d, k) == IF k > Len(d.F) THEN <<>>
                         ELSE LayoutFace(d.F[k].id, RefIds(d, k), d.F[k].w) \o LayoutFacesFrom(d, k + 1)
LayoutFaces(d) == LayoutFacesFrom(d, 1)

(***************************************************************************)
(* I: the face-line machine of SurfaceEvolver.get_cells (four cases).      *)
(***************************************************************************)
PySlice(s, lo, dropEnd) == SubSeq(s, lo + 1, Len(s) - dropEnd)        \* s[lo:-dropEnd]
M0 == [ids |-> <<>>, edges |-> <<>>, cur |-> <<>>, first |-> TRUE]
MStep(st, s) ==
  LET last == s[Len(s)] IN
  IF st.first /\ ~HasCommentEnd(last)                       \* first line of a record, more to come
  THEN [st EXCEPT !.ids = Append(@, s[1]), !.first = FALSE, !.cur = @ \o PySlice(s, 1, 1)]
  ELSE IF IsBackslash(last) /\ ~st.first                    \* continuation line
  THEN [st EXCEPT !.cur = @ \o PySlice(s, 0, 1)]
  ELSE IF HasCommentEnd(last)                               \* last line: first-and-last, or last of several
  THEN LET cur2 == st.cur \o (IF st.first THEN PySlice(s, 1, 2) ELSE PySlice(s, 0, 2)) IN
       [ids |-> IF st.first THEN Append(st.ids, s[1]) ELSE st.ids,
        edges |-> Append(st.edges, cur2), cur |-> <<>>, first |-> TRUE]
  ELSE st
RECURSIVE MRun(_, _, _)
MRun(st, lines, i) == IF i > Len(lines) THEN st ELSE MRun(MStep(st, lines[i]), lines, i + 1)
ImplFaces(lines) ==
  LET st == MRun(M0, lines, 1)
      numeric == /\ \A k \in DOMAIN st.ids : st.ids[k].k = "n"
                 /\ \A k \in DOMAIN st.edges : \A i \in DOMAIN st.edges[k] : st.edges[k][i].k = "n"
  IN  [bad   |-> ~numeric,                                   \* int(token) raises ValueError
       ids   |-> [k \in DOMAIN st.ids |-> st.ids[k].v],
       edges |-> [k \in DOMAIN st.edges |-> [i \in DOMAIN st.edges[k] |-> st.edges[k][i].v]]]

\* D at the token level: the machine reassembles exactly the face ids and the signed loops
FaceLinesOK(d) == LET r == ImplFaces(LayoutFaces(d)) IN
                  /\ ~r.bad
                  /\ r.ids = [k \in DOMAIN d.F |-> d.F[k].id]
                  /\ r.edges = [k \in DOMAIN d.F |-> RefIds(d, k)]

(***************************************************************************)
(* I: section finder (calculate_first_last) on the file as a sequence of   *)
(* line kinds. Layout puts one blank line before every section header.     *)
(***************************************************************************)
Rep(x, n) == [i \in 1..n |-> x]
FileKinds(d, nFaceLines) ==
  Rep("pre", 29) \o <<"hV">> \o Rep("rV", Len(d.V)) \o <<"blank", "hE">> \o Rep("rE", Len(d.E))
  \o <<"blank", "hF">> \o Rep("rF", nFaceLines) \o <<"blank", "hB">> \o Rep("rB", Len(d.B))
  \o <<"blank", "hR">> \o Rep("post", 8)
FirstAt(ks, kind, from) == CHOOSE i \in from..Len(ks) : ks[i] = kind /\ \A q \in from..(i - 1) : ks[q] # kind
\* 0-based (ini, fin) as the code computes them: the second `next(...)` keeps reading the same file
\* iterator, so its index is relative to the line after the header
ImplSection(ks, h, hnext) == LET ini == FirstAt(ks, h, 1) - 1
                                 rel == FirstAt(ks, hnext, ini + 2) - (ini + 2)
                             IN  <<ini, rel + ini>>
ImplSectionLines(ks, h, hnext) == LET se == ImplSection(ks, h, hnext) IN (se[1] + 2)..(se[2])   \* 1-based lines read
SectionsOK(d, nFaceLines) ==
  LET ks == FileKinds(d, nFaceLines)
      sel(h, hn, r) == ImplSectionLines(ks, h, hn) = {i \in DOMAIN ks : ks[i] = r}
  IN  sel("hV", "hE", "rV") /\ sel("hE", "hF", "rE") /\ sel("hF", "hB", "rF") /\ sel("hB", "hR", "rB")

(***************************************************************************)
(* I: the whole parse (create_lattice), result in the projected format.    *)
(***************************************************************************)
ImplVal(v, u) == LET r == RoundUp(v, u) IN <<v[1], r[1], r[2]>>
\* whitespace tokens of an edge record: id v1 v2 [density d] [original n]
ImplEdgeTokens(e) == 3 + (IF e.hd THEN 2 ELSE 0) + (IF e.at # 0 THEN 2 ELSE 0)
ImplEdgeRaises(e) == ImplEdgeTokens(e) < 4                      \* lines[i].split()[3]
ImplEdgeG(e)      == IF e.hd THEN ImplVal(e.d, U4) ELSE ONE     \* split()[3] == "density" iff density present
EIdx(d, id) == CHOOSE j \in DOMAIN d.E : d.E[j].id = id

ImplParse(d) ==
  LET none == [raised |-> "IndexError", V |-> <<>>, E |-> <<>>, C |-> <<>>] IN
  IF \E j \in DOMAIN d.E : ImplEdgeRaises(d.E[j]) THEN none
  ELSE LET fr == ImplFaces(LayoutFaces(d)) IN
  IF fr.bad \/ Len(fr.ids) # Len(fr.edges) \/ Len(d.B) # Len(fr.ids) THEN [none EXCEPT !.raised = "ValueError"]
  ELSE
  LET nc    == Len(fr.ids)
      vlist == [c \in 1..nc |-> [i \in DOMAIN fr.edges[c] |->
                   LET r == fr.edges[c][i] j == EIdx(d, Abs(r)) IN IF r > 0 THEN d.E[j].a ELSE d.E[j].b]]
      dead  == {v \in DOMAIN d.V : \A c \in 1..nc : v \notin Rg(vlist[c])}     \* len(v.ownCells) == 0
      kv    == AscSeq(DOMAIN d.V \ dead)
      ke    == AscSeq({j \in DOMAIN d.E : d.E[j].a \notin dead /\ d.E[j].b \notin dead})
      vpos  == [v \in DOMAIN d.V |-> IF v \in dead THEN 0 ELSE CHOOSE i \in DOMAIN kv : kv[i] = v]
      fidx(id) == CHOOSE k \in DOMAIN d.F : d.F[k].id = id
  IN  [raised |-> "",
       V |-> [i \in DOMAIN kv |-> [k |-> kv[i], id |-> d.V[kv[i]].id,
                                   x |-> ImplVal(d.V[kv[i]].x, U3), y |-> ImplVal(d.V[kv[i]].y, U3)]],
       E |-> [i \in DOMAIN ke |-> [k |-> ke[i], id |-> d.E[ke[i]].id, a |-> vpos[d.E[ke[i]].a],
                                   b |-> vpos[d.E[ke[i]].b], g |-> ImplEdgeG(d.E[ke[i]])]],
       \* pressures: cells["pressures"] = pressure_dict.values() — the c-th face gets the c-th body line
       C |-> [c \in 1..nc |-> [k |-> fidx(fr.ids[c]), id |-> fr.ids[c],
                               cyc |-> [i \in DOMAIN vlist[c] |-> vpos[vlist[c][i]]],
                               pr |-> ImplVal(d.B[c].m, U4)]]]

(***************************************************************************)
(* D: the statement, clause by clause, on (dump, parsed mesh).             *)
(***************************************************************************)
VKs(p) == {p.V[i].k : i \in DOMAIN p.V}
EKs(p) == {p.E[j].k : j \in DOMAIN p.E}
CKs(p) == {p.C[c].k : c \in DOMAIN p.C}
VHint(d, p, i) == p.V[i].k \in DOMAIN d.V /\ d.V[p.V[i].k].id = p.V[i].id
EHint(d, p, j) == p.E[j].k \in DOMAIN d.E /\ d.E[p.E[j].k].id = p.E[j].id
CHint(d, p, c) == p.C[c].k \in DOMAIN d.F /\ d.F[p.C[c].k].id = p.C[c].id

\* exactly one parsed vertex / edge / cell per record that belongs to a face
VertexSetOK(d, p, uv) == /\ \A i \in DOMAIN p.V : VHint(d, p, i)
                         /\ Cardinality(VKs(p)) = Len(p.V)
                         /\ uv \subseteq VKs(p)
EdgeSetOK(d, p, ue)   == /\ \A j \in DOMAIN p.E : EHint(d, p, j)
                         /\ Cardinality(EKs(p)) = Len(p.E)
                         /\ ue \subseteq EKs(p)
CellSetOK(d, p)       == /\ \A c \in DOMAIN p.C : CHint(d, p, c)
                         /\ Cardinality(CKs(p)) = Len(p.C)
                         /\ CKs(p) = DOMAIN d.F
CoordsBad(d, p)  == {i \in DOMAIN p.V : VHint(d, p, i) /\
                        ~(Rounded(d.V[p.V[i].k].x, p.V[i].x, U3) /\ Rounded(d.V[p.V[i].k].y, p.V[i].y, U3))}
EndK(p, a) == IF a \in DOMAIN p.V THEN p.V[a].k ELSE 0
EndsBad(d, p)    == {j \in DOMAIN p.E : EHint(d, p, j) /\
                        {EndK(p, p.E[j].a), EndK(p, p.E[j].b)} # {d.E[p.E[j].k].a, d.E[p.E[j].k].b}}
DensityBad(d, p) == {j \in DOMAIN p.E : EHint(d, p, j) /\
                        LET e == d.E[p.E[j].k] IN ~(IF e.hd THEN Rounded(e.d, p.E[j].g, U4) ELSE p.E[j].g = ONE)}
\* the vertex cycle follows the signed loop: the tails of the signed edges, in loop order, as a cycle
\* (a cycle has no first element: any rotation is accepted, a reversal is not)
IsRotation(a, b) == /\ Len(a) = Len(b)
                    /\ \E o \in DOMAIN b : b[o] = a[1] /\ \A i \in DOMAIN a : a[i] = b[((i + o - 2) % Len(b)) + 1]
CycleBad(d, p)   == {c \in DOMAIN p.C : CHint(d, p, c) /\
                        ~IsRotation([i \in DOMAIN p.C[c].cyc |-> EndK(p, p.C[c].cyc[i])], FaceCycle(d, p.C[c].k))}
PressureBad(d, p) == {c \in DOMAIN p.C : CHint(d, p, c) /\
                        ~Rounded(d.B[BodyOfFace(d, p.C[c].k)].m, p.C[c].pr, U4)}
OrphanVKept(d, p, uv) == {i \in DOMAIN p.V : VHint(d, p, i) /\ p.V[i].k \notin uv}
OrphanEKept(d, p, ue) == {j \in DOMAIN p.E : EHint(d, p, j) /\ p.E[j].k \notin ue}

(***************************** known findings ******************************)
\* KF_BareEdgeLine: an edge record `id v1 v2` with no further token (no density, no other attribute):
\* get_edges evaluates lines[i].split()[3] and the whole parse raises IndexError.
KF_BareEdgeLine(d, p) == p.raised = "IndexError" /\ \E j \in DOMAIN d.E : BareEdge(d, j)
\* KF_PressureByPosition: cells["pressures"] = pressure_dict.values() — the cell of the k-th face record
\* received the multiplier of the k-th body line, which is another face's body.
KF_PressureByPosition(d, p, c) == LET k == p.C[c].k IN
                                  /\ k \in DOMAIN d.B /\ Abs(d.B[k].f) # k
                                  /\ Rounded(d.B[k].m, p.C[c].pr, U4)
\* KF_OrphanEdgeKept: orphan removal is driven by vertices without a cell; an edge record that is in
\* no face loop but joins two vertices that both lie on faces survives.
KF_OrphanEdgeKept(d, p, j, uv) == d.E[p.E[j].k].a \in uv /\ d.E[p.E[j].k].b \in uv

ParseVerdict(d, p) ==
  IF p.raised # "" THEN (IF KF_BareEdgeLine(d, p) THEN {} ELSE {"C14.raised"})
  ELSE
  LET ue == UsedE(d)
      uv == UsedVOf(d, ue)
  IN {c \in {"C14.vertex_set", "C14.vertex_coords", "C14.edge_set", "C14.edge_ends", "C14.edge_density",
             "C14.cell_set", "C14.cell_cycle", "C14.cell_pressure", "C14.orphans_dropped"} :
        \/ c = "C14.vertex_set"      /\ ~VertexSetOK(d, p, uv)
        \/ c = "C14.vertex_coords"   /\ CoordsBad(d, p) # {}
        \/ c = "C14.edge_set"        /\ ~EdgeSetOK(d, p, ue)
        \/ c = "C14.edge_ends"       /\ EndsBad(d, p) # {}
        \/ c = "C14.edge_density"    /\ DensityBad(d, p) # {}
        \/ c = "C14.cell_set"        /\ ~CellSetOK(d, p)
        \/ c = "C14.cell_cycle"      /\ CycleBad(d, p) # {}
        \/ c = "C14.cell_pressure"   /\ \E x \in PressureBad(d, p) : ~KF_PressureByPosition(d, p, x)
        \/ c = "C14.orphans_dropped" /\ (\/ OrphanVKept(d, p, uv) # {}
                                         \/ \E j \in OrphanEKept(d, p, ue) : ~KF_OrphanEdgeKept(d, p, j, uv))}
ParseKF(d, p) ==
  IF p.raised # "" THEN (IF KF_BareEdgeLine(d, p) THEN {"KF_BareEdgeLine:C14.raised"} ELSE {})
  ELSE
  LET ue == UsedE(d)
      uv == UsedVOf(d, ue)
  IN {c \in {"KF_PressureByPosition:C14.cell_pressure", "KF_OrphanEdgeKept:C14.orphans_dropped"} :
        \/ c = "KF_PressureByPosition:C14.cell_pressure" /\ \E x \in PressureBad(d, p) : KF_PressureByPosition(d, p, x)
        \/ c = "KF_OrphanEdgeKept:C14.orphans_dropped"   /\ \E j \in OrphanEKept(d, p, ue) : KF_OrphanEdgeKept(d, p, j, uv)}

\* which clauses (and which of their branches) this input exercises — vacuity accounting
ParseHits(d, p) ==
  {"C14.raised"} \cup
  (IF p.raised # "" THEN {} ELSE
   LET ue == UsedE(d)
       uv == UsedVOf(d, ue)
   IN {"C14.vertex_set", "C14.vertex_coords", "C14.edge_set", "C14.edge_ends", "C14.edge_density",
       "C14.cell_set", "C14.cell_cycle", "C14.cell_pressure"}
      \cup (IF uv # DOMAIN d.V \/ ue # DOMAIN d.E THEN {"C14.orphans_dropped"} ELSE {})
      \cup (IF \E j \in ue : ~d.E[j].hd THEN {"C14.edge_density/absent"} ELSE {})
      \cup (IF \E k \in DOMAIN d.F : Len(d.F[k].w) > 1 THEN {"C14.cell_cycle/several_lines"} ELSE {})
      \cup (IF \E k \in DOMAIN d.F : Len(d.F[k].w) > 1 /\ d.F[k].w[Len(d.F[k].w)] = 1
            THEN {"C14.cell_cycle/comment_on_own_line"} ELSE {})
      \cup (IF \E k \in DOMAIN d.F : \E i \in DOMAIN d.F[k].loop : d.F[k].loop[i] < 0
            THEN {"C14.cell_cycle/negative_reference"} ELSE {})
      \cup (IF \E l \in DOMAIN d.B : Abs(d.B[l].f) # l THEN {"C14.cell_pressure/bodies_not_in_face_order"} ELSE {}))

\* code ~ I: incidental behaviour of the transcription that the statement does not fix (notes only)
ParseDrift(d, p) ==
  IF p.raised # "" THEN {}
  ELSE {c \in {"drift.bare_edge_line_no_longer_raises", "drift.cycle_start", "drift.edge_end_order",
               "drift.record_order", "drift.pressure_not_positional", "drift.orphan_edge_dropped"} :
        \/ c = "drift.bare_edge_line_no_longer_raises" /\ \E j \in DOMAIN d.E : BareEdge(d, j)
        \/ c = "drift.cycle_start" /\ \E x \in DOMAIN p.C : CHint(d, p, x) /\
                                        LET cy == [i \in DOMAIN p.C[x].cyc |-> EndK(p, p.C[x].cyc[i])]
                                            fc == FaceCycle(d, p.C[x].k)
                                        IN  cy # fc /\ IsRotation(cy, fc)
        \/ c = "drift.edge_end_order" /\ \E j \in DOMAIN p.E : EHint(d, p, j)
                                        /\ EndK(p, p.E[j].a) = d.E[p.E[j].k].b /\ EndK(p, p.E[j].b) = d.E[p.E[j].k].a
        \/ c = "drift.record_order" /\ (\/ \E i \in 1..(Len(p.V) - 1) : p.V[i].k >= p.V[i + 1].k
                                        \/ \E j \in 1..(Len(p.E) - 1) : p.E[j].k >= p.E[j + 1].k
                                        \/ \E x \in 1..(Len(p.C) - 1) : p.C[x].k >= p.C[x + 1].k)
        \/ c = "drift.pressure_not_positional" /\ \E x \in DOMAIN p.C : CHint(d, p, x)
                                        /\ ~Rounded(d.B[p.C[x].k].m, p.C[x].pr, U4)
        \/ c = "drift.orphan_edge_dropped" /\ LET ue == UsedE(d) uv == UsedVOf(d, ue) IN
                                        \E j \in DOMAIN d.E : j \notin ue /\ d.E[j].a \in uv /\ d.E[j].b \in uv
                                                              /\ j \notin EKs(p)}

(***************************************************************************)
(* D for the frame: f.I[i] = [path, edges, g]: vertex path (indices into   *)
(* p.V), listed mesh edges (indices into p.E), g = reported reference      *)
(* tension (signed micro). "Its mesh edges" are the edge records joining   *)
(* consecutive vertices of the path; the listed edges are used as a hint   *)
(* (verified), with a search as fall-back.                                 *)
(***************************************************************************)
ExpectG(e) == IF e.hd THEN LET r == RoundUp(e.d, U4) IN r[1] * MICRO + r[2] ELSE MICRO
PEnds(p, j) == {p.E[j].a, p.E[j].b}
EdgeJoining(p, hint, a, b) ==
  IF hint \in DOMAIN p.E /\ PEnds(p, hint) = {a, b} THEN hint
  ELSE LET S == {j \in DOMAIN p.E : PEnds(p, j) = {a, b}} IN IF Cardinality(S) = 1 THEN CHOOSE j \in S : TRUE ELSE 0
IfaceEdges(p, it) == [q \in 1..(Len(it.path) - 1) |->
                        EdgeJoining(p, IF q \in DOMAIN it.edges THEN it.edges[q] ELSE 0, it.path[q], it.path[q + 1])]
Judgeable(d, p, it) == /\ Len(it.path) >= 2
                       /\ \A q \in DOMAIN it.path : it.path[q] \in DOMAIN p.V
                       /\ LET es == IfaceEdges(p, it) IN \A q \in DOMAIN es : es[q] # 0 /\ EHint(d, p, es[q])
GtOK(d, p, it) == LET es    == IfaceEdges(p, it)
                      n     == Len(es)
                      total == SumSeq([q \in DOMAIN es |-> ExpectG(d.E[p.E[es[q]].k])])
                      ties  == Cardinality({q \in DOMAIN es : d.E[p.E[es[q]].k].hd /\ NearTie(d.E[p.E[es[q]].k].d, U4)})
                  IN  Abs(n * it.g - total) <= 5 * n + U4 * ties
FrameVerdict(d, p, f) ==
  IF f.raised # "" THEN {"C14.frame_raised"}
  ELSE {c \in {"C14.frame_gt"} : \E i \in DOMAIN f.I : Judgeable(d, p, f.I[i]) /\ ~GtOK(d, p, f.I[i])}
FrameHits(d, p, f) ==
  IF f.raised # "" THEN {}
  ELSE (IF \E i \in DOMAIN f.I : Judgeable(d, p, f.I[i]) THEN {"C14.frame_gt"} ELSE {})
       \cup (IF \E i \in DOMAIN f.I : Judgeable(d, p, f.I[i]) /\ Len(f.I[i].path) > 2 THEN {"C14.frame_gt/several_edges"} ELSE {})
FrameDrift(d, p, f) ==
  IF f.raised # "" THEN {}
  ELSE {c \in {"drift.interface_edge_list"} : \E i \in DOMAIN f.I : LET it == f.I[i] IN
          ~(Len(it.edges) = Len(it.path) - 1 /\ Judgeable(d, p, it) /\ IfaceEdges(p, it) = it.edges)}
=============================================================================

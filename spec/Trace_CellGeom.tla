--------------------------- MODULE Trace_CellGeom ---------------------------
(***************************************************************************)
(* Trace validation for C20 (cell geometry primitives). Events:            *)
(*                                                                         *)
(*  Poly   {P: integer polygon, vars: [variant, ...]}                      *)
(*     a variant is one real Cell built from P under a storage/embedding   *)
(*       kind  "id" | "shift" | "rev" | "tr" | "scale" | "trf" | "unit"    *)
(*       s, rev, t, k   stored vertex i = k * B[((i-1+s) mod n) + 1] + t,  *)
(*                      B = reversed P if rev else P                       *)
(*       exact TRUE: pts = the stored coordinates read back from the Cell  *)
(*             (integers);  FALSE ("trf", real translation): off = stored  *)
(*             coordinate minus P's, fixed point                           *)
(*       raised ""|text, a = [s, I, F] 2*get_area(), sign = get_area_sign()*)
(*       per = [I, F] get_perimeter(), nx[i] / pv[i] = stored index of     *)
(*       get_next_vertex / get_previous_vertex of stored vertex i (0 = not *)
(*       a vertex of the cell)                                             *)
(*  Tissue {mesh: projected mesh (cycles C), pos: integer coordinates per  *)
(*          vertex, isb: vertex is a junction of the base tissue,          *)
(*          raised, cells: [{raised, a, sign, per, nb}]}                   *)
(*                                                                         *)
(* TLC recomputes every expected value from the polygon / mesh; the        *)
(* driver never compares.                                                  *)
(***************************************************************************)
EXTENDS CellGeom, TraceKit

VARIABLES l
vars == <<l>>
Init == l = 1

LOCAL Rn(s) == {s[j] : j \in DOMAIN s}

(* ------------------------------- Poly ---------------------------------- *)
KindOK(v) ==
  \/ v.kind = "id"    /\ v.s = 0 /\ ~v.rev /\ v.t = <<0, 0>> /\ v.k = 1 /\ v.exact
  \/ v.kind = "shift" /\ v.s > 0 /\ ~v.rev /\ v.t = <<0, 0>> /\ v.k = 1 /\ v.exact
  \/ v.kind = "rev"   /\ v.rev /\ v.t = <<0, 0>> /\ v.k = 1 /\ v.exact
  \/ v.kind = "tr"    /\ v.s = 0 /\ ~v.rev /\ v.t # <<0, 0>> /\ v.k = 1 /\ v.exact
  \/ v.kind = "scale" /\ v.s = 0 /\ ~v.rev /\ v.t = <<0, 0>> /\ v.k > 1 /\ v.exact
  \/ v.kind = "trf"   /\ v.s = 0 /\ ~v.rev /\ v.k = 1 /\ ~v.exact
  \* the same lattice polygon built in another length unit (coordinates x 2^u, exact in binary floating point); the driver
  \* converts areas by 2^(-2u) and lengths by 2^(-u), so the variant must agree with the identity storage as for k = 1
  \/ v.kind = "unit"  /\ v.s = 0 /\ ~v.rev /\ v.t = <<0, 0>> /\ v.k = 1 /\ v.exact

\* the logged storage really is the stated transform of P (premise of the relational clauses)
EmbOK(P, v) ==
  LET n == Len(P) IN
  /\ v.s \in 0..(n - 1) /\ v.k >= 1
  /\ IF v.exact
     THEN /\ Len(v.pts) = n
          /\ \A i \in 1..n : LET b == P[Sigma(n, v.s, v.rev, i)] IN
                               v.pts[i] = <<v.k * b[1] + v.t[1], v.k * b[2] + v.t[2]>>
     ELSE /\ Len(v.off) = n
          /\ \A i \in 1..n : Abs(v.off[i][1] - v.off[1][1]) <= 2 /\ Abs(v.off[i][2] - v.off[1][2]) <= 2

ShapeOK(v, n) == /\ WellFormedSM(v.a) /\ v.sign \in {-1, 0, 1}
                 /\ Len(v.per) = 2 /\ v.per[1] >= 0 /\ v.per[2] >= 0 /\ v.per[2] <= Q
                 /\ Len(v.nx) = n /\ Len(v.pv) = n

\* a_v ~ c * a_id, guarded against 32-bit overflow of faulty outputs
ScaledCloseSM(av, aid, c, tol) ==
  IF aid[2] > 1000000000 \div c \/ av[2] > 1000000000 THEN FALSE
  ELSE CloseSM(av, TimesSM(aid, c), tol)
ScaledCloseU(pv, pid, c, tol) ==
  IF pid[1] > 1000000000 \div c \/ pv[1] > 1000000000 THEN FALSE
  ELSE CloseU(pv, TimesU(pid, c), tol)
AreaValueOK(a, z) == a[2] <= 1000000000 /\ CloseSMInt(a, z, TolArea)

\* the relation the property states between a variant and the identity storage
\* (nz: the cycle has non-zero area; the sign of a zero area under a real translation is rounding noise)
AreaRelOK(v, id, nz) == LET c == v.k * v.k
                            want == IF v.rev THEN NegSM(id.a) ELSE id.a
                        IN  /\ ScaledCloseSM(v.a, want, c, TolArea + 2 * c)
                            /\ nz => v.sign = (IF v.rev THEN -id.sign ELSE id.sign)
PerRelOK(v, id) == ScaledCloseU(v.per, id.per, v.k, TolPer + 2 * v.k)

RelClause(kind) == IF kind = "rev" THEN "C20.reverse_flips"
                   ELSE IF kind = "shift" THEN "C20.shift_invariant"
                   ELSE IF kind = "scale" \/ kind = "unit" THEN "C20.scaling"
                   ELSE "C20.translation_invariant"

NavSame(v, id, n) == /\ GeoSucc(v.nx, n, v.s, v.rev) = GeoSucc(id.nx, n, 0, FALSE)
                     /\ GeoSucc(v.pv, n, v.s, v.rev) = GeoSucc(id.pv, n, 0, FALSE)
\* the code's shape: stored index + area sign (drift only)
NavIsIndexPlusSign(v, n) == \A i \in 1..n : /\ v.nx[i] = ((i - 1 + v.sign) % n) + 1
                                            /\ v.pv[i] = ((i - 1 - v.sign) % n) + 1

PolyVerdict(e) ==
  LET P  == e.P
      n  == Len(P)
      vs == e.vars
      J  == DOMAIN vs
      simple == Simple(P)
      raisedAny == \E j \in J : vs[j].raised # ""
      inputOK == n >= 3 /\ Len(vs) >= 1 /\ (\A j \in J : KindOK(vs[j])) /\ vs[1].kind = "id"
      outOK  == inputOK /\ ~raisedAny /\ \A j \in J : ShapeOK(vs[j], n)
      embOK  == outOK /\ \A j \in J : EmbOK(P, vs[j])
      id == vs[1]
      EX == {j \in J : vs[j].exact}
      rel == {j \in J : vs[j].kind # "id"}
      fails ==
        (IF inputOK /\ simple /\ raisedAny THEN {"C20.raised"} ELSE {})
        \cup (IF inputOK /\ ~raisedAny /\ ~outOK THEN {"C20.output_shape"} ELSE {})
        \cup (IF embOK /\ \E j \in EX : ~(AreaValueOK(vs[j].a, Area2(vs[j].pts)) /\ vs[j].sign = Sgn(Area2(vs[j].pts)))
              THEN {"C20.area_value"} ELSE {})
        \cup (IF embOK /\ simple /\ \E j \in EX : ~(vs[j].a[1] = ConventionSign(vs[j].pts) /\ vs[j].sign = ConventionSign(vs[j].pts))
              THEN {"C20.area_sign_convention"} ELSE {})
        \cup (IF embOK THEN {RelClause(vs[j].kind) : j \in {q \in rel : ~AreaRelOK(vs[q], id, Area2(P) # 0)}} ELSE {})
        \cup (IF embOK /\ simple THEN {RelClause(vs[j].kind) : j \in {q \in rel : vs[q].kind # "rev" /\ ~PerRelOK(vs[q], id)}} ELSE {})
        \cup (IF embOK /\ simple /\ \E j \in EX : ~PerimeterOK(vs[j].pts, vs[j].per, 3) THEN {"C20.perimeter"} ELSE {})
        \cup (IF embOK /\ simple /\ \E j \in J : ~(NavLaws(vs[j].nx, vs[j].pv, n) /\ NavSame(vs[j], id, n))
              THEN {"C20.next_prev"} ELSE {})
      hits ==
        (IF embOK THEN {"C20.area_value"} \cup {RelClause(vs[j].kind) : j \in rel} ELSE {})
        \cup (IF embOK /\ simple THEN {"C20.area_sign_convention", "C20.perimeter", "C20.next_prev"} ELSE {})
        \cup (IF inputOK /\ simple THEN {"C20.raised"} ELSE {})
      drift == IF embOK /\ simple /\ fails = {} /\ \E j \in J : ~NavIsIndexPlusSign(vs[j], n)
               THEN {"C20.next_is_index_plus_sign"} ELSE {}
      rejected == ~inputOK \/ ~simple \/ (outOK /\ ~embOK)
  IN  EmitV(e, fails, {}, hits, drift, rejected)

(* ------------------------------ Tissue --------------------------------- *)
\* junction-only polygon of a cycle and straightness of the interior points
JuncCycle(cyc, isb) == SelectSeq(cyc, LAMBDA v : isb[v])
StraightOK(pos, cyc, isb) == LET n == Len(cyc) IN
   \A i \in 1..n : ~isb[cyc[i]] => Cr(pos[cyc[Prv(i, n)]], pos[cyc[i]], pos[cyc[Nxt(i, n)]]) = 0

TissueVerdict(e) ==
  LET m == e.mesh
      cycles == m.C
      pos == e.pos
      isb == e.isb
      Cs == DOMAIN cycles
      cl == e.cells
      inputOK == /\ Len(cycles) >= 1 /\ Len(pos) = m.nv /\ Len(isb) = m.nv
                 /\ \A c \in Cs : Len(cycles[c]) >= 3 /\ \A i \in DOMAIN cycles[c] : cycles[c][i] \in 1..m.nv
      poly == Mat([c \in Cs |-> PolyOf(pos, cycles[c])])
      nbs  == Mat([c \in Cs |-> Neighbours(cycles, c)])
      allSimple == inputOK /\ \A c \in Cs : Simple(poly[c])
      raisedAny == e.raised # "" \/ \E c \in DOMAIN cl : cl[c].raised # ""
      outOK == inputOK /\ ~raisedAny /\ Len(cl) = Len(cycles)
               /\ \A c \in Cs : WellFormedSM(cl[c].a) /\ cl[c].sign \in {-1, 0, 1} /\ Len(cl[c].per) = 2
      subdiv == {c \in Cs : \E i \in DOMAIN cycles[c] : ~isb[cycles[c][i]]}
      straight == {c \in subdiv : StraightOK(pos, cycles[c], isb) /\ Len(JuncCycle(cycles[c], isb)) >= 3}
      holefree == allSimple /\ HoleFreeArrangement(pos, cycles)
      fails ==
        (IF allSimple /\ raisedAny THEN {"C20.raised"} ELSE {})
        \cup (IF outOK /\ \E c \in Cs : ~(AreaValueOK(cl[c].a, Area2(poly[c])) /\ cl[c].sign = Sgn(Area2(poly[c])))
              THEN {"C20.area_value"} ELSE {})
        \cup (IF outOK /\ \E c \in straight : ~AreaValueOK(cl[c].a, Area2(PolyOf(pos, JuncCycle(cycles[c], isb))))
              THEN {"C20.area_subdivision_invariant"} ELSE {})
        \cup (IF outOK /\ allSimple /\ \E c \in Cs : ~(cl[c].a[1] = ConventionSign(poly[c]) /\ cl[c].sign = ConventionSign(poly[c]))
              THEN {"C20.area_sign_convention"} ELSE {})
        \cup (IF outOK /\ allSimple /\ \E c \in Cs : ~PerimeterOK(poly[c], cl[c].per, 3) THEN {"C20.perimeter"} ELSE {})
        \cup (IF outOK /\ holefree /\ ~AreaSumOK([c \in Cs |-> cl[c].a], OutlineArea2(pos, cycles), TolArea)
              THEN {"C20.tissue_area_sum"} ELSE {})
        \cup (IF outOK /\ \E c \in Cs : Rn(cl[c].nb) # nbs[c] THEN {"C20.neighbours"} ELSE {})
      hits ==
        (IF outOK THEN {"C20.area_value", "C20.neighbours"} ELSE {})
        \cup (IF outOK /\ straight # {} THEN {"C20.area_subdivision_invariant"} ELSE {})
        \cup (IF outOK /\ allSimple THEN {"C20.area_sign_convention", "C20.perimeter"} ELSE {})
        \cup (IF outOK /\ holefree THEN {"C20.tissue_area_sum"} ELSE {})
        \cup (IF outOK /\ \E c \in Cs : nbs[c] # {} THEN {"C20.neighbours_nonempty"} ELSE {})
        \cup (IF allSimple THEN {"C20.raised"} ELSE {})
      rejected == ~allSimple
  IN  EmitV(e, fails, {}, hits, {}, rejected)

Next == /\ l <= Len(TR)
        /\ LET e == TR[l] IN
             \/ e.ev = "Poly"   /\ PolyVerdict(e)
             \/ e.ev = "Tissue" /\ TissueVerdict(e)
        /\ l' = l + 1

Spec == Init /\ [][Next]_vars
Done == TLCGet("stats").diameter - 1 = Len(TR)
=============================================================================

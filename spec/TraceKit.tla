------------------------------ MODULE TraceKit ------------------------------
(* Shared plumbing of all Trace_* specifications: the trace is an ndjson file *)
(* (one event per line, env TRACE_FILE); every consumed event produces one    *)
(* verdict line `VJ {json}` — verdicts are total, the trace always advances.  *)
EXTENDS Integers, Sequences, FiniteSets, TLC, Json, IOUtils

TR == ndJsonDeserialize(IOEnv.TRACE_FILE)

Has(e, k) == k \in DOMAIN e

\* fails: set of clause names; kf: set of "Matcher:clause"; hits: set of clause names exercised;
\* drift: set of drift notes; rejected: premise of the case failed
EmitV(e, fails, kf, hits, drift, rejected) ==
  PrintT("VJ " \o ToJson([case |-> e.case, ev |-> e.ev, fails |-> fails, kf |-> kf, hits |-> hits,
                          drift |-> drift, rejected |-> rejected]))

AllConsumed(l) == l = Len(TR) + 1
=============================================================================

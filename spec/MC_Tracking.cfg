SPECIFICATION Spec
CONSTANT N = 3
CONSTANT SITES <- Sites5
CONSTANT STENCIL <- Stencil7
CONSTANT GUESSMODES <- GuessFew
CONSTANT STAMPS <- Stamps1
CONSTANT WITHVEL = FALSE
CONSTANT EMITMOD = 499
INVARIANT InvRange
INVARIANT InvInjective
INVARIANT InvGuess
INVARIANT InvCorrect
INVARIANT InvRoundTrip
INVARIANT InvRoundTripWeak
INVARIANT Emit
CHECK_DEADLOCK FALSE

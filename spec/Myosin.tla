------------------------------- MODULE Myosin -------------------------------
(***************************************************************************)
(* C17 - myosin quantification (forsys/myosin.py: get_intensities).        *)
(*                                                                         *)
(* Abstract input ("environment" record E, all integers):                  *)
(*   E.w, E.h      image width / height in pixels; pixel (x, y), 0-based,  *)
(*                 is img[y + 1][x + 1] (img = sequence of rows)           *)
(*   E.vden        pixel values are img[..][..] / E.vden                   *)
(*   E.mode        "F" (float image) | "L" (8-bit image)                   *)
(*   E.layers      0..3        E.integrate  BOOLEAN                        *)
(*   E.ifs[k]      interface definitions [bid, vid, x, y]: big-edge id,    *)
(*                 vertex ids, vertex coordinates (numerators over E.dv)   *)
(*   E.list[j]     the list handed to get_intensities: indices into E.ifs  *)
(*                 (equal index = the same object twice)                   *)
(*   E.rs, E.off   rescale (numerators over E.dr), offset (over E.dq)      *)
(* Position of a vertex in the image ("after the given rescale and         *)
(* offset") = x * rescale + offset, an exact rational with denominator     *)
(* Den(E) = dv * dr * dq; PosX / PosY give the numerators.                 *)
(*                                                                         *)
(* READINGS (see DESIGN 5.5):                                              *)
(*  - "window centred on the vertex": centred on the pixel that CONTAINS   *)
(*    the position, (floor px, floor py). Pillow's getpixel truncates a    *)
(*    float coordinate towards zero, which is floor for the non-negative   *)
(*    coordinates the premise Inside(E) guarantees.                        *)
(*  - the median of the odd number (2*layers+1)^2 of pixels is a pixel     *)
(*    value; the interface value is (sum of medians) / (number of          *)
(*    vertices), an exact rational.                                        *)
(*  - integrate mode (D_int) is decided through impulse responses: by      *)
(*    linearity value(H * e_p) * length / H is the weight w_p the code     *)
(*    gives pixel p. "distinct pixels": every w_p is 0 or 1. "layered band *)
(*    around the polyline": any pixel set between an inner and an outer    *)
(*    Chebyshev tube: a pixel with w_p >= 1 has its square within distance *)
(*    layers + 1 of the polyline (centre within layers + 3/2); every pixel *)
(*    whose integer point is within distance layers - rho of the polyline  *)
(*    (rho = 0 when all positions are integer pixel positions, else 1:     *)
(*    rounding of non-integer positions is not judged) has w_p >= 1,       *)
(*    except within distance `layers` of the first / last vertex (the      *)
(*    code stops one step before the last vertex; not judged).             *)
(*    "polyline length": length of the polyline in the image frame or in   *)
(*    the interface's own frame (either is accepted).                      *)
(*  - "equal for all interfaces of a uniformly bright image" is demanded   *)
(*    without integration only (sum(band)/length depends on orientation).  *)
(***************************************************************************)
EXTENDS FixedPoint, TLC

RECURSIVE SumIdx(_, _)
SumIdx(s, n) == IF n = 0 THEN 0 ELSE s[n] + SumIdx(s, n - 1)
Sum(s) == SumIdx(s, Len(s))

BIG == 2000000000
\* saturating fixed-point product: never overflows, BIG marks "out of range"
MulSat(a, b) ==
  IF a = 0 \/ b = 0 THEN 0
  ELSE IF (Abs(a) \div K + 1) > BIG \div (Abs(b) \div K + 1)
       THEN (IF (a < 0) = (b < 0) THEN BIG ELSE -BIG)
       ELSE Mul(a, b)
SumSat(s) == IF \E i \in DOMAIN s : Abs(s[i]) > BIG \div Len(s) THEN BIG ELSE Sum(s)
\* a * 10^12 / b for 0 <= a < b, b < 2*10^8, result < 2^31 (caller guards)
RECURSIVE DivDigits(_, _, _, _)
DivDigits(r, b, q, n) == IF n = 0 THEN q ELSE DivDigits((r * 10) % b, b, q * 10 + (r * 10) \div b, n - 1)
DivQQ(a, b) == DivDigits(a % b, b, a \div b, 12)

TolA    == 30                          \* direct comparison of two logged / computed values (ulp of Q)
TolP(v) == 50 + Abs(v) \div 50000      \* comparison of products / quotients of magnitude v

(* ---------------------------- environment ------------------------------ *)
Den(E)     == E.dv * E.dr * E.dq
PosX(E, k) == LET f == E.ifs[k] IN [i \in 1..Len(f.x) |-> f.x[i] * E.rs[1] * E.dq + E.off[1] * E.dv * E.dr]
PosY(E, k) == LET f == E.ifs[k] IN [i \in 1..Len(f.y) |-> f.y[i] * E.rs[2] * E.dq + E.off[2] * E.dv * E.dr]
NV(E, k)   == Len(E.ifs[k].x)

WellFormed(E) ==
  /\ E.w > 0 /\ E.h > 0 /\ E.w <= 64 /\ E.h <= 64
  /\ E.layers \in 0..3 /\ E.vden \in 1..64 /\ E.mode \in {"F", "L"}
  /\ E.dv > 0 /\ E.dr > 0 /\ E.dq > 0 /\ E.rs[1] > 0 /\ E.rs[2] > 0
  /\ Len(E.ifs) >= 1 /\ Len(E.list) >= 1
  /\ \A k \in DOMAIN E.ifs : /\ Len(E.ifs[k].x) >= 2
                             /\ Len(E.ifs[k].y) = Len(E.ifs[k].x)
                             /\ Len(E.ifs[k].vid) = Len(E.ifs[k].x)
  /\ \A j \in DOMAIN E.list : E.list[j] \in DOMAIN E.ifs
\* every window of every vertex (and of its ceiling) lies inside the image with one pixel to spare
Inside(E) ==
  LET D == Den(E)  m == E.layers + 1 IN
  \A k \in DOMAIN E.ifs : LET X == PosX(E, k)  Y == PosY(E, k) IN
     \A i \in DOMAIN X : /\ X[i] >= m * D /\ X[i] <= (E.w - 1 - m) * D
                         /\ Y[i] >= m * D /\ Y[i] <= (E.h - 1 - m) * D
\* numbers stay in the 32-bit range of the tube tests
SmallEnough(E) == Den(E) <= (IF E.integrate THEN 128 ELSE 1048576)

ImageOK(E, img) ==
  /\ Len(img) = E.h
  /\ \A y \in 1..E.h : /\ Len(img[y]) = E.w
                       /\ \A x \in 1..E.w : img[y][x] >= 0 /\ img[y][x] <= (IF E.mode = "L" THEN 255 ELSE 1500 * E.vden)
  /\ (E.mode = "L" => E.vden = 1)
IsUniform(E, img) == \A y \in 1..E.h : \A x \in 1..E.w : img[y][x] = img[1][1]

(* value equality of two interface objects as Python's dataclass `==` sees it (harness builds
   vertices / mesh edges of an interface from (bid, vid, x, y) alone) *)
ValueEqual(a, b) == a.bid = b.bid /\ a.vid = b.vid /\ a.x = b.x /\ a.y = b.y
EqualAt(E, i, j) == E.list[i] = E.list[j] \/ ValueEqual(E.ifs[E.list[i]], E.ifs[E.list[j]])

(* ----------------------- D: window / median / mean ---------------------- *)
Median(s) ==
  LET n == Len(s)  half == n \div 2 IN
  CHOOSE v \in Range(s) : /\ Cardinality({i \in 1..n : s[i] < v}) <= half
                          /\ Cardinality({i \in 1..n : s[i] <= v}) > half
\* the (2L+1)^2 pixel values of the window centred on pixel (cx, cy)
Window(img, cx, cy, L) ==
  LET s == 2 * L + 1 IN
  [t \in 1..(s * s) |-> img[cy + ((t - 1) \div s) - L + 1][cx + ((t - 1) % s) - L + 1]]
\* sum over the vertices of interface k of the window medians (numerator over vden)
RawSum(E, img, k) ==
  LET X == PosX(E, k)  Y == PosY(E, k)  D == Den(E)
      med == [i \in 1..Len(X) |-> Median(Window(img, X[i] \div D, Y[i] \div D, E.layers))]
  IN  Sum(med)
\* the interface value in fixed point
PlainValue(E, img, k) == FDiv(RawSum(E, img, k), NV(E, k) * E.vden)

(* I: get_intensity / get_layer_elements: every float position (p + ii, q + kk) is truncated
   towards zero by getpixel separately *)
Trunc(a, d) == TDiv(a, d)
ImplWindow(img, px, py, D, L) ==
  LET s == 2 * L + 1 IN
  [t \in 1..(s * s) |-> LET ii == ((t - 1) \div s) - L   kk == ((t - 1) % s) - L
                        IN  img[Trunc(py + kk * D, D) + 1][Trunc(px + ii * D, D) + 1]]
ImplRawSum(E, img, k) ==
  LET X == PosX(E, k)  Y == PosY(E, k)  D == Den(E)
      med == [i \in 1..Len(X) |-> Median(ImplWindow(img, X[i], Y[i], D, E.layers))]
  IN  Sum(med)

(* I: keying `big_edges.index(big_edge)` = first position holding an equal interface; the
   write-back `intensities_only_internal[be_id]` raises KeyError iff some position is not a key *)
ImplKey(E, j)      == CHOOSE i \in 1..j : EqualAt(E, i, j) /\ \A q \in 1..(i - 1) : ~EqualAt(E, q, j)
ImplKeyRaises(E)   == \E j \in DOMAIN E.list : j \notin {ImplKey(E, q) : q \in DOMAIN E.list}

(* known finding: a list with a repeated or an equal-valued interface loses a key -> KeyError *)
KF_EqualInterfaceKey(E, raised) ==
  /\ raised = "KeyError"
  /\ \E i, j \in DOMAIN E.list : i < j /\ EqualAt(E, i, j)

(* --------------------------- D_int: geometry ---------------------------- *)
\* all coordinates below in units of 1/(2*Den) pixel
SegHitsBox(ax, ay, bx, by, lox, hix, loy, hiy) ==
  /\ Max(ax, bx) >= lox /\ Min(ax, bx) <= hix /\ Max(ay, by) >= loy /\ Min(ay, by) <= hiy
  /\ LET dx == bx - ax  dy == by - ay
         c1 == dx * (loy - ay) - dy * (lox - ax)
         c2 == dx * (hiy - ay) - dy * (lox - ax)
         c3 == dx * (loy - ay) - dy * (hix - ax)
         c4 == dx * (hiy - ay) - dy * (hix - ax)
     IN  /\ ~(c1 > 0 /\ c2 > 0 /\ c3 > 0 /\ c4 > 0)
         /\ ~(c1 < 0 /\ c2 < 0 /\ c3 < 0 /\ c4 < 0)
\* Chebyshev distance from point (cx, cy) to the polyline (X2, Y2) is <= r
PolyNear(X2, Y2, cx, cy, r) ==
  \E i \in 1..(Len(X2) - 1) :
     SegHitsBox(X2[i], Y2[i], X2[i + 1], Y2[i + 1], cx - r, cx + r, cy - r, cy + r)
PointNear(px, py, cx, cy, r) == Abs(px - cx) <= r /\ Abs(py - cy) <= r

IntegerGeometry(E, k) == LET D == Den(E) IN
  /\ \A i \in DOMAIN E.ifs[k].x : PosX(E, k)[i] % D = 0
  /\ \A i \in DOMAIN E.ifs[k].y : PosY(E, k)[i] % D = 0

\* fixed-point length of a segment with numerator differences dx, dy over den
SegLen(dx, dy, den) == FSqrt(FDiv(dx * dx + dy * dy, den * den))
PolyLen(X, Y, den)  == Sum([i \in 1..(Len(X) - 1) |-> SegLen(X[i + 1] - X[i], Y[i + 1] - Y[i], den)])
LenImage(E, k)  == PolyLen(PosX(E, k), PosY(E, k), Den(E))       \* in the image frame
LenOwn(E, k)    == PolyLen(E.ifs[k].x, E.ifs[k].y, E.dv)         \* in the interface's own frame
LengthOK(E) == \A k \in DOMAIN E.ifs :
   /\ \A i \in 1..(NV(E, k) - 1) :
        LET dx == PosX(E, k)[i + 1] - PosX(E, k)[i]  dy == PosY(E, k)[i + 1] - PosY(E, k)[i]
            ex == E.ifs[k].x[i + 1] - E.ifs[k].x[i]  ey == E.ifs[k].y[i + 1] - E.ifs[k].y[i]
        IN  /\ Abs(dx) < 30000 /\ Abs(dy) < 30000 /\ (dx # 0 \/ dy # 0)
            /\ Abs(ex) < 30000 /\ Abs(ey) < 30000
            /\ (dx * dx + dy * dy) \div (Den(E) * Den(E)) < 2000
            /\ (ex * ex + ey * ey) \div (E.dv * E.dv) < 2000
   /\ E.dv < 10000
Premise(E) == WellFormed(E) /\ SmallEnough(E) /\ Inside(E) /\ (E.integrate => LengthOK(E))

(* inner / outer tube tests for pixel (x, y) (0-based) of interface k; X2, Y2 = 2 * positions *)
OuterTube(E, X2, Y2, x, y) ==
  LET D == Den(E) IN PolyNear(X2, Y2, (2 * x + 1) * D, (2 * y + 1) * D, (2 * E.layers + 3) * D)
InnerTube(E, X2, Y2, rho, x, y) ==
  LET D == Den(E)  n == Len(X2)  r == E.layers - rho IN
  /\ r >= 0
  /\ PolyNear(X2, Y2, 2 * x * D, 2 * y * D, 2 * r * D)
  /\ ~PointNear(2 * x * D, 2 * y * D, X2[1], Y2[1], 2 * E.layers * D)
  /\ ~PointNear(2 * x * D, 2 * y * D, X2[n], Y2[n], 2 * E.layers * D)

(* ------------------- I: the ceil / major-axis walk ---------------------- *)
CeilDiv(a, d) == -((-a) \div d)
\* walk points of one segment: centre pixel (px, py) and the fractional part fn/fd of the
\* interpolated minor coordinate; ax = major axis (0: x, 1: y)
SegWalk(c0x, c0y, c1x, c1y) ==
  LET dx == Abs(c0x - c1x)  dy == Abs(c0y - c1y)
      ax == IF dx > dy THEN 0 ELSE 1
      a0 == IF ax = 0 THEN c0x ELSE c0y   a1 == IF ax = 0 THEN c1x ELSE c1y
      m0 == IF ax = 0 THEN c0y ELSE c0x   m1 == IF ax = 0 THEN c1y ELSE c1x
      n  == Abs(a1 - a0)
      dl == IF a0 < a1 THEN 1 ELSE -1
  IN  [t \in 1..n |-> LET v  == a0 + dl * (t - 1)
                          mn == m0 * n + (m1 - m0) * (t - 1)
                          fl == mn \div n
                      IN  [px |-> IF ax = 0 THEN v ELSE fl, py |-> IF ax = 0 THEN fl ELSE v,
                           fn |-> mn % n, fd |-> n, ax |-> ax]]
RECURSIVE WalkFrom(_, _, _, _)
WalkFrom(X, Y, D, i) ==
  IF i >= Len(X) THEN <<>>
  ELSE SegWalk(CeilDiv(X[i], D), CeilDiv(Y[i], D), CeilDiv(X[i + 1], D), CeilDiv(Y[i + 1], D))
       \o WalkFrom(X, Y, D, i + 1)
Walk(E, k) == WalkFrom(PosX(E, k), PosY(E, k), Den(E), 1)
Covers(wp, L, x, y) == Abs(x - wp.px) <= L /\ Abs(y - wp.py) <= L
\* two walk points put the SAME float position on a pixel they both cover
SameFloat(a, b) == IF a.fn = 0 \/ b.fn = 0 THEN a.fn = 0 /\ b.fn = 0
                   ELSE a.ax = b.ax /\ a.fn * b.fd = b.fn * a.fd
\* number of window positions of the walk that truncate to pixel (x, y): all / distinct as floats
IMultAll(wk, L, x, y)      == Cardinality({t \in DOMAIN wk : Covers(wk[t], L, x, y)})
IMultDistinct(wk, L, x, y) ==
  Cardinality({t \in DOMAIN wk : /\ Covers(wk[t], L, x, y)
                                 /\ \A u \in 1..(t - 1) : ~(Covers(wk[u], L, x, y) /\ SameFloat(wk[u], wk[t]))})
DyadicWalk(wk) == \A t \in DOMAIN wk : wk[t].fd \in {1, 2, 4, 8, 16, 32, 64}
IHasFraction(wk, L, x, y)  == \E t \in DOMAIN wk : Covers(wk[t], L, x, y) /\ wk[t].fn # 0

(* known finding: integrate mode keeps a set of FLOAT positions, so several positions of a
   slanted segment that truncate to the same pixel are all counted. Matches a pixel whose
   measured weight w >= 2 is explained by that mechanism only. *)
KF_FloatPositionsCounted(wk, L, x, y, w) ==
  /\ w >= 2 /\ w <= IMultAll(wk, L, x, y) /\ IHasFraction(wk, L, x, y)

(* ----------------- D_int: verdict on the impulse responses -------------- *)
\* R = responses of interface k to an impulse of height H at each pixel (rows of fixed point)
\* returns [len, W (rows of integer weights), fails, kf, hits, drift]
ImpulseVerdict(E, H, R, k) ==
  LET D   == Den(E)   L == E.layers
      X2  == [i \in 1..NV(E, k) |-> 2 * PosX(E, k)[i]]
      Y2  == [i \in 1..NV(E, k) |-> 2 * PosY(E, k)[i]]
      rho == IF IntegerGeometry(E, k) THEN 0 ELSE 1
      HQ  == H * Q
      Wq(len)   == [y \in 1..E.h |-> [x \in 1..E.w |-> MulSat(R[y][x], len)]]
      Rnd(v)    == (v + HQ \div 2) \div HQ
      NearInt(v) == Abs(v - Rnd(v) * HQ) <= HQ \div 500
      AllNear(T) == \A y \in 1..E.h : \A x \in 1..E.w : NearInt(T[y][x])
      All01(T)   == \A y \in 1..E.h : \A x \in 1..E.w : NearInt(T[y][x]) /\ Rnd(T[y][x]) \in {0, 1}
      li  == LenImage(E, k)   lo == LenOwn(E, k)
      Ti  == Wq(li)
      len == IF All01(Ti) \/ Abs(li - lo) <= 4 THEN li
             ELSE IF All01(Wq(lo)) THEN lo
             ELSE IF AllNear(Ti) THEN li
             ELSE IF AllNear(Wq(lo)) THEN lo ELSE li
      T   == IF len = li THEN Ti ELSE Wq(lo)
      W   == [y \in 1..E.h |-> [x \in 1..E.w |-> Rnd(T[y][x])]]
      wk  == Walk(E, k)
      px  == {<<x, y>> : x \in 0..(E.w - 1), y \in 0..(E.h - 1)}
      w(p) == W[p[2] + 1][p[1] + 1]
      bad01   == {p \in px : w(p) \notin {0, 1}}
      badKF   == {p \in bad01 : KF_FloatPositionsCounted(wk, L, p[1], p[2], w(p))}
      frac    == ~AllNear(T)
      badSup  == {p \in px : w(p) >= 1 /\ ~OuterTube(E, X2, Y2, p[1], p[2])}
      inner   == {p \in px : InnerTube(E, X2, Y2, rho, p[1], p[2])}
      badBand == {p \in inner : w(p) < 1}
      isup    == {p \in px : IMultAll(wk, L, p[1], p[2]) >= 1}
  IN  [len   |-> len, W |-> W,
       fails |-> (IF frac \/ bad01 # badKF THEN {"C17.integrate_weights01"} ELSE {})
                 \cup (IF badSup # {} THEN {"C17.integrate_support"} ELSE {})
                 \cup (IF badBand # {} THEN {"C17.integrate_band"} ELSE {}),
       kf    |-> IF badKF # {} THEN {"KF_FloatPositionsCounted:C17.integrate_weights01"} ELSE {},
       hits  |-> {"C17.integrate_weights01", "C17.integrate_support"}
                 \cup (IF inner # {} THEN {"C17.integrate_band"} ELSE {}),
       drift |-> (IF {p \in px : w(p) >= 1} # isup THEN {"drift.walk_support"} ELSE {})
                 \* (the transcription is exact; the code's float positions agree with it for dyadic slopes only)
                 \cup (IF DyadicWalk(wk) /\ \E p \in px : w(p) # IMultDistinct(wk, L, p[1], p[2])
                       THEN {"drift.walk_multiplicity"} ELSE {})]

\* D_int value of interface k for an arbitrary image, from measured weights; -1 = not representable
WeightedSum(E, W, img) == Sum([y \in 1..E.h |-> Sum([x \in 1..E.w |-> W[y][x] * img[y][x]])])
IntegrateValue(E, wt, img) ==
  LET n == WeightedSum(E, wt.W, img)  b == E.vden * wt.len IN
  IF b <= 0 \/ b >= 200000000 \/ n >= 2000000 \/ (n \div E.vden) * 1000 >= 1900 * (wt.len \div 1000) THEN -1 ELSE DivQQ(n, b)
\* relative allowance for the error of the fixed-point length (2 ulp per segment)
FacI(E, k, len)     == 1 + ((NV(E, k) - 1) * Q) \div Max(len, 1)
TolI(E, k, len, v)  == TolP(v) * FacI(E, k, len)

(* ---------------- verdict on one call of get_intensities ---------------- *)
\* e: the logged call [img, normalize, ret, gt, raised, lin]; prev: the last call with normalize None on an
\* unscaled image, or [has |-> FALSE]. lin = c >= 2 claims "this image is c times the image of prev".
LinPremise(E, e, prev) ==
  /\ e.lin >= 2 /\ prev.has /\ e.normalize = "none" /\ Len(prev.ret) = Len(E.list)
  /\ \A y \in 1..E.h : \A x \in 1..E.w : e.img[y][x] = e.lin * prev.img[y][x]

\* exp[j], tol[j], fac[j]: expected un-normalised value, tolerance of a direct comparison, multiplier of
\* the tolerance of a product comparison at list position j (fixed point)
ValuesVerdict(E, e, exp, tol, fac, main, prev, linPre) ==
  LET n     == Len(E.list)
      J     == 1..n
      ret   == e.ret
      avg   == e.normalize = "average"
      shape == Len(ret) = n /\ Len(e.gt) = n
      j0    == CHOOSE j \in J : \A q \in J : exp[q] <= exp[j]
      \* proportional to the expected values: ret[j] * exp[j0] = ret[j0] * exp[j]
      propOK == \A j \in J : LET a == MulSat(ret[j], exp[j0])  b == MulSat(ret[j0], exp[j])
                              IN  Abs(a - b) <= (TolP(a) + TolP(b)) * (fac[j] + fac[j0])
      valOK  == IF avg THEN propOK /\ ret[j0] > 0 ELSE \A j \in J : Abs(ret[j] - exp[j]) <= tol[j]
      meanOK == Abs(SumSat(ret) - n * Q) <= n * TolA
      ordOK  == \A j \in J : Abs(e.gt[j] - ret[j]) <= 2
      uni    == IsUniform(E, e.img) /\ ~E.integrate
      uniOK  == \A i, j \in J : Abs(ret[i] - ret[j]) <= 2 * TolA
      lin    == e.lin >= 2
      linOK  == \A j \in J : /\ Abs(prev.ret[j]) < BIG \div e.lin
                             /\ Abs(ret[j] - e.lin * prev.ret[j]) <= e.lin * (TolA + tol[j])
      distinguishable == \E i, j \in J : Abs(exp[i] - exp[j]) > 1000
  IN  IF ~shape THEN [fails |-> {"C17.returned_shape"}, hits |-> {}, rejected |-> FALSE]
      ELSE IF lin /\ ~linPre THEN [fails |-> {}, hits |-> {}, rejected |-> TRUE]
      ELSE IF avg /\ exp[j0] <= 0 THEN [fails |-> {}, hits |-> {}, rejected |-> TRUE]
      ELSE
      [fails |-> (IF ~valOK THEN {main} ELSE {})
                 \cup (IF avg /\ ~meanOK THEN {"C17.normalised_mean_one"} ELSE {})
                 \cup (IF ~ordOK THEN {"C17.stored_in_order"} ELSE {})
                 \cup (IF uni /\ ~uniOK THEN {"C17.uniform_equal"} ELSE {})
                 \cup (IF lin /\ ~linOK THEN {"C17.linear"} ELSE {}),
       hits  |-> {main} \cup (IF avg THEN {"C17.normalised_mean_one"} ELSE {})
                 \cup (IF distinguishable THEN {"C17.stored_in_order"} ELSE {})
                 \cup (IF uni /\ n >= 2 THEN {"C17.uniform_equal"} ELSE {})
                 \cup (IF lin THEN {"C17.linear"} ELSE {}),
       rejected |-> FALSE]

\* expected un-normalised value of every interface definition on the list (0 for unused ones)
PlainVals(E, img) == [k \in 1..Len(E.ifs) |-> IF k \in Range(E.list) THEN PlainValue(E, img, k) ELSE 0]
\* medians scale with the image (MC_Myosin!Linear): the values for c * img are c times those for img
ScaledVals(val, c) == [k \in DOMAIN val |-> c * val[k]]
PlainVerdict(E, e, val, prev, linPre) ==
  LET exp == [j \in 1..Len(E.list) |-> val[E.list[j]]]
      tol == [j \in 1..Len(E.list) |-> TolA]
      fac == [j \in 1..Len(E.list) |-> 1]
  IN  ValuesVerdict(E, e, exp, tol, fac, "C17.window_median_mean", prev, linPre)
PlainDrift(E, e) ==
  IF \E k \in Range(E.list) : ImplRawSum(E, e.img, k) # RawSum(E, e.img, k) THEN {"drift.window_truncation"} ELSE {}

\* wts[k] = [len, W] from the Impulse event
IntegrateVals(E, wts, img) == [k \in 1..Len(E.ifs) |-> IF k \in Range(E.list) THEN IntegrateValue(E, wts[k], img) ELSE 0]
IntegrateVerdict(E, e, val, wts, prev, linPre) ==
  LET exp == [j \in 1..Len(E.list) |-> val[E.list[j]]]
      tol == [j \in 1..Len(E.list) |-> TolI(E, E.list[j], wts[E.list[j]].len, exp[j])]
      fac == [j \in 1..Len(E.list) |-> FacI(E, E.list[j], wts[E.list[j]].len)]
  IN  IF \E j \in DOMAIN exp : exp[j] < 0 THEN [fails |-> {}, hits |-> {}, rejected |-> TRUE]
      ELSE ValuesVerdict(E, e, exp, tol, fac, "C17.integrate_value", prev, linPre)
\* 'average' on values that are all zero is undefined (0/0): such a call is outside the property
AllZero(E, val) == \A j \in DOMAIN E.list : val[E.list[j]] = 0
=============================================================================

------------------------------ MODULE CellGeom ------------------------------
(***************************************************************************)
(* C20 - cell geometry primitives, exact on integer polygons.              *)
(*                                                                         *)
(* A polygon P is a sequence of integer points <<x, y>> (the stored vertex *)
(* cycle of a cell; y up).  Everything below is exact integer arithmetic;  *)
(* values logged from the implementation are                               *)
(*    signed   [s, I, F]  = s * (I + F/Q),  s in {-1,0,1}, 0 <= F <= Q     *)
(*    unsigned [I, F]     = I + F/Q                                        *)
(* (Q = 10^6) so that magnitudes up to 2^31 keep a 1e-6 resolution.        *)
(*                                                                         *)
(* Readings of the statement the oracle commits to (least demanding):      *)
(*  R1 "negative for cycles stored counter-clockwise in a y-up frame":     *)
(*     orientation is decided independently of the shoelace sum, by the    *)
(*     turn at the lowest-leftmost vertex (CCW below).                     *)
(*  R2 "next/previous navigation walks the cycle in the sense given by the *)
(*     area sign": next(v) is a cycle neighbour of v, previous(v) is the   *)
(*     other one, previous o next = next o previous = id, iterating next   *)
(*     visits every vertex once, and the GEOMETRIC successor of a vertex   *)
(*     is the same for every storage of the same polygon (reversed,        *)
(*     shifted, translated, scaled): the storage direction of next flips   *)
(*     exactly when the area sign flips. Whether that common sense is      *)
(*     clockwise or counter-clockwise is not fixed by the statement; the   *)
(*     code's "index + sign" is recorded as drift only.                    *)
(*  R3 area clauses (value, reversal, shift, translation, k^2) are         *)
(*     algebraic and judged for every cycle with >= 3 vertices; sign       *)
(*     convention, perimeter, navigation and "no exception" only for       *)
(*     SIMPLE polygons (zero-area cycles have no sense of traversal).      *)
(*  R4 neighbours are compared as sets.                                    *)
(*  R5 hole-free tissue = the mesh edges owned by exactly one cell form a  *)
(*     single cycle through distinct vertices, every cell is a simple      *)
(*     polygon and the cells are consistently oriented (after orienting    *)
(*     each cell counter-clockwise, every shared edge is traversed in      *)
(*     opposite directions by its two cells). Anything else is rejected    *)
(*     input for the area-sum clause.                                      *)
(***************************************************************************)
EXTENDS FixedPoint, Mesh, TLC

LOCAL Rg(s) == {s[i] : i \in DOMAIN s}

Prv(i, n) == IF i = 1 THEN n ELSE i - 1
Pow10(d) == IF d = 0 THEN 1 ELSE IF d = 1 THEN 10 ELSE IF d = 2 THEN 100 ELSE IF d = 3 THEN 1000
            ELSE IF d = 4 THEN 10000 ELSE IF d = 5 THEN 100000 ELSE 1000000

(* ------------------------------ area ----------------------------------- *)
\* cross product (a - o) x (b - o)
Cr(o, a, b) == (a[1] - o[1]) * (b[2] - o[2]) - (a[2] - o[2]) * (b[1] - o[1])

\* sum over i of  x_i * y_(i-1) - y_i * x_(i-1)  with coordinates taken relative to o
RECURSIVE ShoeFrom(_, _, _)
ShoeFrom(P, o, i) ==
  IF i > Len(P) THEN 0
  ELSE LET a == P[i]  b == P[Prv(i, Len(P))]
       IN  ((a[1] - o[1]) * (b[2] - o[2]) - (a[2] - o[2]) * (b[1] - o[1])) + ShoeFrom(P, o, i + 1)

\* D: twice the shoelace area with the property's sign convention, literally
\*    2 * 0.5 * (x . roll(y, 1) - y . roll(x, 1))
Area2Raw(P) == ShoeFrom(P, <<0, 0>>, 1)
\* the same anchored at the first vertex (equal by translation invariance, checked by MC_CellGeom on
\* every enumerated polygon); used on traces because its partial sums stay small (32-bit integers)
Area2(P) == ShoeFrom(P, P[1], 1)

(* --------------------------- transformations --------------------------- *)
\* (Mat forces TLC to evaluate a function over 1..n into a sequence once, instead of at each application)
Mat(f)       == f \o <<>>
RevP(P)      == Mat([i \in 1..Len(P) |-> P[Len(P) + 1 - i]])
ShiftP(P, s) == Mat([i \in 1..Len(P) |-> P[((i - 1 + s) % Len(P)) + 1]])
TransP(P, t) == Mat([i \in 1..Len(P) |-> <<P[i][1] + t[1], P[i][2] + t[2]>>])
ScaleP(P, k) == Mat([i \in 1..Len(P) |-> <<k * P[i][1], k * P[i][2]>>])

(* ------------------------------ simplicity ----------------------------- *)
InBox(a, b, p) == /\ Min(a[1], b[1]) <= p[1] /\ p[1] <= Max(a[1], b[1])
                  /\ Min(a[2], b[2]) <= p[2] /\ p[2] <= Max(a[2], b[2])
\* p lies on the closed segment ab
OnSeg(a, b, p) == Cr(a, b, p) = 0 /\ InBox(a, b, p)
\* closed segments ab and cd have a common point (proper crossing, or an end point of one on the other)
SegMeet(a, b, c, d) ==
  LET d1 == Sgn(Cr(a, b, c))  d2 == Sgn(Cr(a, b, d))
      d3 == Sgn(Cr(c, d, a))  d4 == Sgn(Cr(c, d, b))
  IN  \/ (d1 * d2 < 0 /\ d3 * d4 < 0)
      \/ (d1 = 0 /\ InBox(a, b, c)) \/ (d2 = 0 /\ InBox(a, b, d))
      \/ (d3 = 0 /\ InBox(c, d, a)) \/ (d4 = 0 /\ InBox(c, d, b))
\* consecutive segments ab, bc meet in b only (a straight angle is allowed, folding back is not)
AdjOK(a, b, c) == Cr(a, b, c) # 0 \/ (a[1] - b[1]) * (c[1] - b[1]) + (a[2] - b[2]) * (c[2] - b[2]) < 0

Simple(P) ==
  LET n == Len(P) IN
  /\ n >= 3
  /\ \A i \in 1..n : AdjOK(P[Prv(i, n)], P[i], P[Nxt(i, n)])
  /\ \A i \in 1..n : \A j \in (i + 1)..n :
        (j # Nxt(i, n) /\ i # Nxt(j, n)) => ~SegMeet(P[i], P[Nxt(i, n)], P[j], P[Nxt(j, n)])

(* -------- orientation, independently of the shoelace sum (R1) ---------- *)
LexLess(p, q) == p[2] < q[2] \/ (p[2] = q[2] /\ p[1] < q[1])
LowIdx(P) == CHOOSE i \in 1..Len(P) : \A j \in 1..Len(P) : j # i => ~LexLess(P[j], P[i])
\* turn at the lowest-leftmost vertex of a simple polygon (never 0 there)
Turn(P) == LET m == LowIdx(P) n == Len(P) IN Cr(P[Prv(m, n)], P[m], P[Nxt(m, n)])
CCW(P) == Turn(P) > 0
\* the sign the property demands for a simple polygon
ConventionSign(P) == IF Turn(P) > 0 THEN -1 ELSE IF Turn(P) < 0 THEN 1 ELSE 0

(* ------------------------------ navigation ----------------------------- *)
\* I: transcription of get_next_vertex / get_previous_vertex on stored indices
NextIdx(P, i) == ((i - 1 + Sgn(Area2(P))) % Len(P)) + 1
PrevIdx(P, i) == ((i - 1 - Sgn(Area2(P))) % Len(P)) + 1
\* the same as index maps of the whole cycle
ModelNav(P) == LET sg == Sgn(Area2(P)) n == Len(P) IN
               [nx |-> Mat([j \in 1..n |-> ((j - 1 + sg) % n) + 1]), pv |-> Mat([j \in 1..n |-> ((j - 1 - sg) % n) + 1])]

\* D (R2), on logged index maps nx, pv (stored index -> stored index, 0 = not a vertex of the cell)
NavNeighbour(nx, pv, n) == \A i \in 1..n : /\ nx[i] \in {Nxt(i, n), Prv(i, n)}
                                           /\ pv[i] \in {Nxt(i, n), Prv(i, n)}
                                           /\ pv[i] # nx[i]
NavInverse(nx, pv, n) == \A i \in 1..n : /\ nx[i] \in 1..n /\ pv[i] \in 1..n
                                         /\ pv[nx[i]] = i /\ nx[pv[i]] = i
RECURSIVE Orbit(_, _, _)
Orbit(nx, i, steps) == IF steps = 0 \/ i \notin DOMAIN nx THEN {} ELSE {i} \cup Orbit(nx, nx[i], steps - 1)
NavVisitsAll(nx, n) == Orbit(nx, 1, n) = 1..n
NavLaws(nx, pv, n) == Len(nx) = n /\ Len(pv) = n /\ NavNeighbour(nx, pv, n) /\ NavInverse(nx, pv, n)
                      /\ NavVisitsAll(nx, n)

\* storage map of a variant: stored index i holds base vertex Sigma(n, s, rev, i)
Sigma(n, s, rev, i) == LET j == ((i - 1 + s) % n) + 1 IN IF rev THEN n + 1 - j ELSE j
\* geometric successor relation on base indices induced by a logged index map
GeoSucc(nx, n, s, rev) == {<<Sigma(n, s, rev, i), IF nx[i] \in 1..n THEN Sigma(n, s, rev, nx[i]) ELSE 0>> : i \in 1..n}

(* ------------------------------ perimeter ------------------------------ *)
D2(a, b) == (a[1] - b[1]) * (a[1] - b[1]) + (a[2] - b[2]) * (a[2] - b[2])

\* largest digit x' <= x with (20p + x') * x' <= c2
RECURSIVE DigitDown(_, _, _)
DigitDown(p, c2, x) == IF x = 0 \/ (20 * p + x) * x <= c2 THEN x ELSE DigitDown(p, c2, x - 1)
\* longhand square root: root so far p, remainder c (c <= 2p), d more decimal digits
RECURSIVE SqrtDig(_, _, _)
SqrtDig(p, c, d) ==
  IF d = 0 THEN <<p, c>>
  ELSE LET c2 == c * 100
           x  == IF p = 0 THEN DigitDown(0, c2, 9) ELSE DigitDown(p, c2, Min(9, c2 \div (20 * p)))
       IN  SqrtDig(10 * p + x, c2 - (20 * p + x) * x, d - 1)
\* <<floor(sqrt(n) * 10^d), remainder>>; remainder = 0 iff the root is exact. Needs (ISqrt(n)+1)*10^d <= 10^7
SqrtScaled(n, d) == LET i == ISqrt(n) IN SqrtDig(i, n - i * i, d)

\* squared edge lengths of the closed cycle (edge j joins vertex j and its successor); the perimeter
\* bounds below are a function of this sequence only
EdgeD2s(P) == Mat([j \in 1..Len(P) |-> D2(P[j], P[Nxt(j, Len(P))])])

RECURSIVE MaxD2(_, _)
MaxD2(P, i) == IF i > Len(P) THEN 0 ELSE Max(D2(P[i], P[Nxt(i, Len(P))]), MaxD2(P, i + 1))
\* number of decimal digits the 32-bit arithmetic affords for this polygon
Digits(P) == LET im == ISqrt(MaxD2(P, 1)) IN
             IF im < 10 THEN 6 ELSE IF im < 100 THEN 5 ELSE IF im < 1000 THEN 4 ELSE 3

RECURSIVE PerimBounds(_, _, _)
\* <<lo, hi>> in units of 10^-d:  lo <= perimeter * 10^d <= hi
PerimBounds(P, d, i) ==
  IF i > Len(P) THEN <<0, 0>>
  ELSE LET r == SqrtScaled(D2(P[i], P[Nxt(i, Len(P))]), d)
           rest == PerimBounds(P, d, i + 1)
       IN  <<r[1] + rest[1], r[1] + (IF r[2] = 0 THEN 0 ELSE 1) + rest[2]>>

\* logged perimeter per = [I, F] against the polygon, slack tolU units of 10^-d on each side
\* (floor of F to 10^-d: 1 unit; rounding of F at 1e-6: <= 1 unit; float error of the sum: << 1 unit)
PerimeterOK(P, per, tolU) ==
  LET d  == Digits(P)
      b  == PerimBounds(P, d, 1)
      sc == Pow10(d)
  IN  /\ per[1] >= 0 /\ per[2] >= 0 /\ per[2] <= Q
      /\ per[1] <= (b[2] \div sc) + 2            \* overflow guard before scaling
      /\ LET v == per[1] * sc + per[2] \div Pow10(6 - d)
         IN  v + 1 + tolU >= b[1] /\ v - tolU <= b[2]

(* -------------------- arithmetic on logged numbers --------------------- *)
\* |a - b| <= tol/Q for signed logged numbers a = [s, I, F], b likewise
CloseSM(a, b, tol) ==
  LET dI == a[1] * a[2] - b[1] * b[2] IN
  IF Abs(dI) > 2 THEN FALSE ELSE Abs(dI * Q + a[1] * a[3] - b[1] * b[3]) <= tol
\* signed logged number against an exact integer
CloseSMInt(a, z, tol) == CloseSM(a, <<Sgn(z), Abs(z), 0>>, tol)
NegSM(a) == <<-a[1], a[2], a[3]>>
\* multiply a logged magnitude by a small positive integer c (c * F < 2^31)
TimesSM(a, c) == <<a[1], a[2] * c + (a[3] * c) \div Q, (a[3] * c) % Q>>
WellFormedSM(a) == Len(a) = 3 /\ a[1] \in {-1, 0, 1} /\ a[2] >= 0 /\ a[3] >= 0 /\ a[3] <= Q
\* unsigned [I, F]
CloseU(a, b, tol) == CloseSM(<<1, a[1], a[2]>>, <<1, b[1], b[2]>>, tol)
TimesU(a, c) == <<a[1] * c + (a[2] * c) \div Q, (a[2] * c) % Q>>

\* tolerances (units of 1e-6). Integer polygons are evaluated exactly by IEEE doubles, the unchanged
\* code is off by 0 (areas) and < 1e-9 (perimeters); realistic faults move the values by >= 0.4.
TolArea == 1000      \* on 2*area
TolPer  == 1000      \* between two logged perimeters

(* ------------------------------ tissues -------------------------------- *)
\* polygon of a vertex cycle
PolyOf(pos, cyc) == Mat([i \in 1..Len(cyc) |-> pos[cyc[i]]])

\* D: the other cells sharing a vertex
SharesVertex(cycles, c, d) == Rg(cycles[c]) \cap Rg(cycles[d]) # {}
Neighbours(cycles, c) == {d \in DOMAIN cycles : d # c /\ SharesVertex(cycles, c, d)}
\* I: transcription of calculate_neighbors (union of ownCells of the cell's vertices, minus itself)
ImplNeighbours(m, c) == (UNION {Rg(m.oc[m.C[c][i]]) : i \in DOMAIN m.C[c]}) \ {c}

\* edges of all cells as a set of <<cell, lo, hi>> (lo < hi the two end vertices)
CellEdges(cycles) == UNION {{LET a == cycles[c][i]  b == cycles[c][Nxt(i, Len(cycles[c]))]
                             IN  <<c, Min(a, b), Max(a, b)>> : i \in DOMAIN cycles[c]} : c \in DOMAIN cycles}
\* border edges: unordered pairs owned by exactly one cell
BorderPairs(cycles) == LET ce == CellEdges(cycles) IN
                       {{t[2], t[3]} : t \in {u \in ce : \A d \in DOMAIN cycles : d = u[1] \/ <<d, u[2], u[3]>> \notin ce}}
BorderNbrs(bp, v) == {w \in UNION bp : {v, w} \in bp /\ w # v}
RECURSIVE WalkOutline(_, _, _, _, _)
WalkOutline(bp, start, prev, cur, fuel) ==
  IF fuel = 0 THEN <<>>
  ELSE LET nb == BorderNbrs(bp, cur) \ {prev}
       IN  IF nb = {} THEN <<cur>>
           ELSE LET w == CHOOSE w \in nb : \A u \in nb : w <= u
                IN  IF w = start THEN <<cur>> ELSE <<cur>> \o WalkOutline(bp, start, cur, w, fuel - 1)
\* the outline as a vertex cycle (meaningful when SingleCycle holds)
Outline(bp) ==
  LET vs == UNION bp
      s  == CHOOSE v \in vs : \A u \in vs : v <= u
      nb == BorderNbrs(bp, s)
      w  == CHOOSE w \in nb : \A u \in nb : w <= u
  IN  <<s>> \o WalkOutline(bp, s, s, w, Cardinality(bp))
SingleCycle(bp) ==
  /\ bp # {}
  /\ \A v \in UNION bp : Cardinality(BorderNbrs(bp, v)) = 2
  /\ Len(Outline(bp)) = Cardinality(bp)

\* orientation-normalised directed edges: every cell traversed counter-clockwise
CcwEdges(pos, cycles) ==
  UNION {LET cyc == cycles[c] n == Len(cyc) IN
         IF CCW(PolyOf(pos, cyc)) THEN {<<cyc[i], cyc[Nxt(i, n)]>> : i \in 1..n}
                                  ELSE {<<cyc[Nxt(i, n)], cyc[i]>> : i \in 1..n} : c \in DOMAIN cycles}
\* no directed edge is used twice (a shared edge is traversed in opposite directions by its two cells)
ConsistentlyOriented(pos, cycles) ==
  LET total == SumFrom(LAMBDA c : Len(cycles[c]), 1, Len(cycles))
  IN  Cardinality(CcwEdges(pos, cycles)) = total

\* (the part of R5 that is about the arrangement of the cells, given that every cell is simple)
HoleFreeArrangement(pos, cycles) ==
  /\ Len(cycles) >= 1
  /\ ConsistentlyOriented(pos, cycles)
  /\ SingleCycle(BorderPairs(cycles))
HoleFree(pos, cycles) ==
  /\ \A c \in DOMAIN cycles : Simple(PolyOf(pos, cycles[c]))
  /\ HoleFreeArrangement(pos, cycles)

OutlineArea2(pos, cycles) == Abs(Area2(PolyOf(pos, Outline(BorderPairs(cycles)))))
SumAbsArea2(pos, cycles) == SumFrom(LAMBDA c : Abs(Area2(PolyOf(pos, cycles[c]))), 1, Len(cycles))

\* sum of logged |2*area| (signed logged numbers) as <<I, F>> with F possibly >= Q
RECURSIVE SumAbsSM(_, _)
SumAbsSM(as, c) == IF c > Len(as) THEN <<0, 0>>
                   ELSE LET r == SumAbsSM(as, c + 1) IN <<as[c][2] + r[1], as[c][3] + r[2]>>
\* sum of the logged |areas| against the exact outline area; tol per cell
AreaSumOK(as, outline2, tol) ==
  LET s == SumAbsSM(as, 1)
      I == s[1] + s[2] \div Q
      F == s[2] % Q
  IN  Abs(I - outline2) <= 2 /\ Abs((I - outline2) * Q + F) <= tol * Len(as)

(* ------------------- known-finding matcher predicates ----------------- *)
\* none: no defect of the code under test was found for this property
=============================================================================

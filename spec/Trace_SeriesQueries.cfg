SPECIFICATION TSpec
POSTCONDITION Done
CHECK_DEADLOCK FALSE

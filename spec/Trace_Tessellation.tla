------------------------- MODULE Trace_Tessellation -------------------------
(***************************************************************************)
(* Trace validation of tessellation.create_lattice(create_lattice_elements) *)
(* against the declarative verdict of Tessellation.tla (C19). Events:      *)
(*   Env     : {env: abstract Voronoi output + diameters + cut-off}        *)
(*   Lattice : {lat: {raised: "" | exception class, mesh: projected mesh   *)
(*              with pos/res in integer milli-units}}  - judged against    *)
(*              the last Env of the same case                              *)
(* One verdict per event; a case whose Env fails the premise is `rejected`.*)
(***************************************************************************)
EXTENDS Tessellation, TraceKit

VARIABLES l, env
vars == <<l, env>>

Init == l = 1 /\ env = NoEnv

DoEnv(e) ==
  /\ e.ev = "Env"
  /\ LET bad == EnvMalformed(e.env)
     IN  /\ EmitV(e, IF bad THEN {"C19.env_malformed"} ELSE {}, {}, {}, {}, FALSE)
         /\ env' = IF bad THEN NoEnv ELSE e.env

DoLattice(e) ==
  /\ e.ev = "Lattice"
  /\ IF env = NoEnv THEN EmitV(e, {"C19.no_env"}, {}, {}, {}, FALSE)
     ELSE LET rej == RejectReasons(env) IN
          IF rej # {} THEN EmitV(e, {}, {}, rej, {}, TRUE)
          ELSE EmitV(e, C19Verdict(env, e.lat), C19KF(env, e.lat), C19Hits(env, e.lat), C19Drift(env, e.lat), FALSE)
  /\ env' = NoEnv

Next == /\ l <= Len(TR)
        /\ LET e == TR[l] IN DoEnv(e) \/ DoLattice(e)
        /\ l' = l + 1

Spec == Init /\ [][Next]_vars
Done == TLCGet("stats").diameter - 1 = Len(TR)
=============================================================================

---------------------------- MODULE Trace_Myosin ----------------------------
(***************************************************************************)
(* Trace validation of forsys.myosin.get_intensities / read_myosin (C17).  *)
(* Events of one case (all of one case are consecutive):                   *)
(*   Env     {env}: the abstract input (see Myosin.tla); judged: premise   *)
(*   Impulse {H, resp, raised}: resp[k][y][x] = value returned for the     *)
(*           one-interface list <<ifs[k]>> (integrate mode, normalize      *)
(*           None) on the image H * e_(x,y); judged: D_int clauses         *)
(*           integrate_weights01 / _support / _band; binds the weights     *)
(*   Myosin  {img, normalize, lin, ret, gt, raised}: one call on the list  *)
(*           E.list; ret[j] = returned value for list position j, gt[j] =  *)
(*           BigEdge.gt of the object at position j afterwards; lin = c    *)
(*           >= 2 claims img = c * (image of the last call with normalize  *)
(*           None and lin = 0); the premise is checked here                *)
(* Every event yields exactly one verdict line (TraceKit.EmitV).           *)
(***************************************************************************)
EXTENDS Myosin, TraceKit

VARIABLES l, env, wts, prev, cache
vars == <<l, env, wts, prev, cache>>

NoEnv  == [ok |-> FALSE]
NoPrev == [has |-> FALSE]

Init == l = 1 /\ env = NoEnv /\ wts = <<>> /\ prev = NoPrev /\ cache = NoPrev

DoEnv(e) ==
  /\ e.ev = "Env"
  /\ LET ok == Premise(e.env) IN
     /\ EmitV(e, {}, {}, {}, {}, ~ok)
     /\ env' = IF ok THEN [ok |-> TRUE, E |-> e.env] ELSE NoEnv
  /\ wts' = <<>> /\ prev' = NoPrev /\ cache' = NoPrev

RespShapeOK(E, r) == /\ Len(r) = Len(E.ifs)
                     /\ \A k \in DOMAIN r : Len(r[k]) = E.h /\ \A y \in 1..E.h : Len(r[k][y]) = E.w

DoImpulse(e) ==
  /\ e.ev = "Impulse"
  /\ IF ~env.ok \/ ~env.E.integrate \/ e.H < 1 \/ e.H > 200
     THEN EmitV(e, {}, {}, {}, {}, TRUE) /\ wts' = <<>>
     ELSE IF e.raised # "" \/ ~RespShapeOK(env.E, e.resp)
     THEN EmitV(e, {"C17.raised"}, {}, {"C17.raised"}, {}, FALSE) /\ wts' = <<>>
     ELSE LET E  == env.E
              vs == [k \in 1..Len(E.ifs) |-> ImpulseVerdict(E, e.H, e.resp[k], k)]
              U(f(_)) == UNION {f(k) : k \in 1..Len(E.ifs)}
              fl(k) == vs[k].fails   kf(k) == vs[k].kf   ht(k) == vs[k].hits   dr(k) == vs[k].drift
          IN  /\ EmitV(e, U(fl), U(kf), U(ht) \cup {"C17.raised"}, U(dr), FALSE)
              /\ wts' = [k \in 1..Len(E.ifs) |-> [len |-> vs[k].len, W |-> vs[k].W]]
  /\ UNCHANGED <<env, prev, cache>>

\* expected values of the call's image: cached when the image is the one of the previous event, derived
\* by the scaling lemma for a c-fold image, computed otherwise
ValsOf(E, e, linPre) ==
  IF cache.has /\ cache.img = e.img THEN cache.val
  ELSE IF ~E.integrate /\ linPre /\ cache.has /\ cache.img = prev.img /\ \A k \in DOMAIN cache.val : cache.val[k] < BIG \div e.lin
       THEN ScaledVals(cache.val, e.lin)
  ELSE IF E.integrate THEN IntegrateVals(E, wts, e.img) ELSE PlainVals(E, e.img)

DoMyosin(e) ==
  /\ e.ev = "Myosin"
  /\ IF ~env.ok \/ ~ImageOK(env.E, e.img) \/ e.normalize \notin {"none", "average"}
     THEN EmitV(e, {}, {}, {}, {}, TRUE) /\ UNCHANGED <<prev, cache>>
     ELSE IF env.E.integrate /\ wts = <<>>
     THEN EmitV(e, {}, {}, {}, {}, TRUE) /\ UNCHANGED <<prev, cache>>   \* no weights: the Impulse event failed (reported there)
     ELSE LET E      == env.E
              linPre == LinPremise(E, e, prev)
              val    == ValsOf(E, e, linPre)
          IN  /\ IF e.raised # ""
                 THEN IF KF_EqualInterfaceKey(E, e.raised)
                      THEN EmitV(e, {}, {"KF_EqualInterfaceKey:C17.raised"}, {"C17.raised"}, {}, FALSE)
                      ELSE IF e.normalize = "average" /\ AllZero(E, val)
                      THEN EmitV(e, {}, {}, {}, {}, TRUE)
                      ELSE EmitV(e, {"C17.raised"}, {}, {"C17.raised"}, {}, FALSE)
                 ELSE LET v == IF E.integrate THEN IntegrateVerdict(E, e, val, wts, prev, linPre)
                                              ELSE PlainVerdict(E, e, val, prev, linPre)
                          d == IF E.integrate \/ e.lin # 0 \/ e.normalize # "none" THEN {} ELSE PlainDrift(E, e)
                      IN  EmitV(e, v.fails, {}, v.hits \cup {"C17.raised"}, d, v.rejected)
              /\ cache' = [has |-> TRUE, img |-> e.img, val |-> val]
              /\ prev' = IF e.raised = "" /\ e.normalize = "none" /\ e.lin = 0
                         THEN [has |-> TRUE, img |-> e.img, ret |-> e.ret] ELSE prev
  /\ UNCHANGED <<env, wts>>

Next == /\ l <= Len(TR)
        /\ LET e == TR[l] IN DoEnv(e) \/ DoImpulse(e) \/ DoMyosin(e)
        /\ l' = l + 1

Spec == Init /\ [][Next]_vars
Done == TLCGet("stats").diameter - 1 = Len(TR)
=============================================================================

--------------------------- MODULE MC_StressTensor ---------------------------
(***************************************************************************)
(* Bounded model of the bookkeeping of C18 and meta-checks of the          *)
(* certificate used by the trace specification.                            *)
(*                                                                         *)
(* mode "keys": for every grid size g in 1..GMAX and every grid position   *)
(*   (r, c) the key str(r) ++ str(c), modelled as digit sequences of the   *)
(*   integer pair.  Invariant KeysInjective demands, for g <= INJ_UPTO,    *)
(*   that no other position of the same grid has the same key.  With       *)
(*   INJ_UPTO = 10 it must hold; with INJ_UPTO = GMAX = 12 TLC is expected *)
(*   to produce the design-level counterexample.  One `EJ` record per grid *)
(*   size reports injectivity, the number of distinct keys and the         *)
(*   colliding positions with the position whose tensor the code stores.   *)
(* mode "eig": every symmetric integer matrix [[a, b], [b, d]] with        *)
(*   entries in -N..N (eigenpairs computed in fixed point) and every       *)
(*   rationally rotated diag(l1, l2) (exact eigenpairs): EigenFails        *)
(*   accepts the true decomposition and rejects each perturbed one.        *)
(* Bounds come from the environment (C18_GMAX, C18_INJ_UPTO, C18_N).       *)
(***************************************************************************)
EXTENDS StressTensor, Json, IOUtils

EnvInt(name, default) == IF name \in DOMAIN IOEnv THEN atoi(IOEnv[name]) ELSE default
GMAX     == EnvInt("C18_GMAX", 12)
INJ_UPTO == EnvInt("C18_INJ_UPTO", 10)
N        == EnvInt("C18_N", 3)

PERTS == {"none", "lam", "swap", "rot", "zero", "same"}
ROTS  == {<<1, 0, 1>>, <<3, 4, 5>>, <<4, 3, 5>>, <<7, 24, 25>>, <<24, 7, 25>>}

VARIABLES mode, g, r, c, mat, pert
vars == <<mode, g, r, c, mat, pert>>

Init == \/ /\ mode = "keys" /\ g \in 1..GMAX /\ r = -1 /\ c = -1 /\ mat = <<>> /\ pert = ""
        \/ /\ mode \in {"eig", "rat"} /\ g = 0 /\ r = -1 /\ c = -1 /\ mat = <<>> /\ pert = ""

PickPos == /\ mode = "keys" /\ r = -1
           /\ r' \in 0..(g - 1) /\ c' \in 0..(g - 1)
           /\ UNCHANGED <<mode, g, mat, pert>>
PickMat == /\ mode = "eig" /\ mat = <<>>
           /\ \E a \in -N..N, b \in -N..N, d \in -N..N : mat' = <<a, b, d>>
           /\ UNCHANGED <<mode, g, r, c, pert>>
PickRat == /\ mode = "rat" /\ mat = <<>>
           /\ \E l1 \in -N..N, l2 \in -N..N, rot \in ROTS : mat' = <<l1, l2, rot>>
           /\ UNCHANGED <<mode, g, r, c, pert>>
PickPert == /\ mode \in {"eig", "rat"} /\ mat # <<>> /\ pert = ""
            /\ pert' \in PERTS
            /\ UNCHANGED <<mode, g, r, c, mat>>
Next == PickPos \/ PickMat \/ PickRat \/ PickPert
Spec == Init /\ [][Next]_vars

(* ------------------------------- keys ----------------------------------- *)
KeysInjective == (mode = "keys" /\ r >= 0 /\ g <= INJ_UPTO) => Colliders(g, r, c) = {}

\* the two formulations of the key agree (digit sequence of the pair = the string the code builds)
RECURSIVE DigitsStr(_)
DigitsStr(s) == IF s = <<>> THEN "" ELSE ToString(Head(s)) \o DigitsStr(Tail(s))
KeyModelsAgree == (mode = "keys" /\ r >= 0) => DigitsStr(KeyDigits(r, c)) = KeyStr(r, c)

EmitKeys == (mode = "keys" /\ r = -1) =>
  PrintT("EJ " \o ToJson([G |-> g, injective |-> KeysInjectiveAt(g), nkeys |-> Cardinality(DistinctKeys(g)),
                          npos |-> g * g,
                          collide |-> {<<q[1], q[2], Winner(g, q[1], q[2])[1], Winner(g, q[1], q[2])[2]>> :
                                         q \in {p \in Positions(g) : KF_KeyCollision(g, p[1], p[2])}}]))

(* ---------------------------- eigen certificate ------------------------- *)
\* integer matrix: fixed-point eigen-decomposition (errors of a few ulp), judged with the smallest
\* tolerance the trace specification ever uses for a non-empty selection (tolS = 20)
IntCase ==
  LET a == mat[1] * Q  b == mat[2] * Q  d == mat[3] * Q
      h    == (a - d) \div 2
      m    == (a + d) \div 2
      disc == FSqrt(Mul(h, h) + Mul(b, b))
      l1   == m + disc
      l2   == m - disc
      unit(x, y) == LET nn == FSqrt(Mul(x, x) + Mul(y, y)) IN <<FDiv(x, nn), FDiv(y, nn)>>
      \* (b, l - a) is an eigenvector when b # 0 (or (l - d, b)); pick the better conditioned one
      vec(lam) == IF b = 0 THEN (IF (lam = a) THEN <<Q, 0>> ELSE <<0, Q>>)
                  ELSE IF Abs(lam - a) >= Abs(lam - d) THEN unit(b, lam - a) ELSE unit(lam - d, b)
      u1 == IF b = 0 THEN (IF a >= d THEN <<Q, 0>> ELSE <<0, Q>>) ELSE vec(l1)
      u2 == IF b = 0 THEN (IF a >= d THEN <<0, Q>> ELSE <<Q, 0>>) ELSE vec(l2)
  IN  [s |-> [xx |-> a, yy |-> d, xy |-> b], tolS |-> 20, l1 |-> l1, l2 |-> l2, u1 |-> u1, u2 |-> u2,
       gap |-> 2 * disc]

\* rotated diagonal matrix: everything exact at Q = 10^6, judged with tolS = 0
RatCase ==
  LET l1 == mat[1]  l2 == mat[2]  cc == mat[3][1]  ss == mat[3][2]  hh == mat[3][3]
      u  == Q \div (hh * hh)
      w  == Q \div hh
  IN  [s |-> [xx |-> (cc * cc * l1 + ss * ss * l2) * u, yy |-> (ss * ss * l1 + cc * cc * l2) * u,
              xy |-> (cc * ss * (l1 - l2)) * u],
       tolS |-> 0, l1 |-> l1 * Q, l2 |-> l2 * Q, u1 |-> <<cc * w, ss * w>>, u2 |-> <<-ss * w, cc * w>>,
       gap |-> Abs(l1 - l2) * Q]

Reported(k) ==     \* <<w, v>> as Frame.principal_stress would carry it, under perturbation `pert`
  LET wv(la, lb, ua, ub) == <<<<la, lb>>, <<ua[1], ub[1], ua[2], ub[2]>>>> IN
  CASE pert = "none" -> wv(k.l1, k.l2, k.u1, k.u2)
    [] pert = "lam"  -> wv(k.l1 + 2000, k.l2, k.u1, k.u2)
    [] pert = "swap" -> wv(k.l2, k.l1, k.u1, k.u2)
    [] pert = "rot"  -> wv(k.l1, k.l2, <<k.u1[1] - k.u1[2] \div 100, k.u1[2] + k.u1[1] \div 100>>, k.u2)
    [] pert = "zero" -> wv(k.l1, k.l2, <<0, 0>>, k.u2)
    [] pert = "same" -> wv(k.l1, k.l1, k.u1, k.u1)

CertificateSound ==
  (mode \in {"eig", "rat"} /\ pert # "") =>
    LET k  == IF mode = "eig" THEN IntCase ELSE RatCase
        wv == Reported(k)
        rejected == EigenFails(k.s, k.tolS, wv[1], wv[2]) # {}
    IN  CASE pert = "none" -> ~rejected
          [] pert \in {"lam", "zero"} -> rejected
          [] OTHER -> (rejected <=> k.gap > 0)       \* swap / rot / same are legitimate iff sigma = l I
=============================================================================

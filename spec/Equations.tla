----------------------------- MODULE Equations -----------------------------
(***************************************************************************)
(* Structure of the force-balance system (C02), the angle-limit rule (C16) *)
(* and the Young-Laplace rows (C04), stated on the abstract mesh `m`, the  *)
(* projected frame `f` (Interfaces.tla), the case truth `env` and the      *)
(* projected matrices.                                                     *)
(*                                                                         *)
(* env.E[q]  physical interface q between junction-level vertices a, b:    *)
(*     a, b (indices into env.vmap), T, ta, tb (model-frame unit tangents  *)
(*     at a / b pointing along the interface), tea, teb (the same in the   *)
(*     embedded frame), cea, ceb (first chord at a / b, embedded frame),   *)
(*     npts, left, right (mesh cell indices, 0 = none), theta, straight    *)
(* env.vmap[a]  mesh vertex index of junction-level vertex a               *)
(* env.rot      orthogonal part of the embedding (fixed point 2x2)         *)
(* fm.cols[c]   interface index (into f.ifaces) of column c                *)
(* fm.rows[k]   [v |-> mesh vertex, r |-> row, e |-> <<col, ex, ey>>...]   *)
(***************************************************************************)
EXTENDS Interfaces, FixedPoint

TolTangent == 10000     \* 1e-2 on each component of a unit tangent (measured on the unchanged code: <= 1.5e-3
                        \* for tissues within 100 sizes of the origin, 3e-3 at 1000 sizes; see DESIGN 6.2)
TolRot     == 5         \* consistency of logged frames

First(p) == p[1]
Last(p)  == p[Len(p)]
EndsOfPath(p) == {First(p), Last(p)}

\* the physical interface (index into env.E) of a listed interface, 0 if none / ambiguous
PhysOf(env, p) ==
  LET cand == {q \in DOMAIN env.E : {env.vmap[env.E[q].a], env.vmap[env.E[q].b]} = EndsOfPath(p)}
  IN  IF Cardinality(cand) = 1 THEN CHOOSE q \in cand : TRUE ELSE 0

\* an interface that runs through a two-valent vertex of the generating complex consists of several of its arcs / segments
\* (a kinked path, e.g. the two sides of a lens-shaped cell): it is neither a circle nor a line, the statement defines no
\* tangent for it, and its coefficient pair is not judged (its column and its junctions are)
Composite(env, p) == \E i \in 2..(Len(p) - 1) : \E b \in DOMAIN env.vmap : env.vmap[b] = p[i]

\* true tangent (embedded frame) of physical interface q at mesh vertex v
TrueTan(env, q, v)  == IF env.vmap[env.E[q].a] = v THEN env.E[q].tea ELSE env.E[q].teb
TrueTanM(env, q, v) == IF env.vmap[env.E[q].a] = v THEN env.E[q].ta ELSE env.E[q].tb
Chord(env, q, v)    == IF env.vmap[env.E[q].a] = v THEN env.E[q].cea ELSE env.E[q].ceb

RotApply(R, t) == <<Mul(R[1][1], t[1]) + Mul(R[1][2], t[2]), Mul(R[2][1], t[1]) + Mul(R[2][2], t[2])>>

\* premise: the logged truth is self-consistent (unit tangents; embedded = rot * model)
EnvTangentsOK(env) == \A q \in DOMAIN env.E : LET e == env.E[q] IN
   /\ Close(Norm2(e.ta), Q, 10) /\ Close(Norm2(e.tb), Q, 10)
   /\ Close(RotApply(env.rot, e.ta)[1], e.tea[1], TolRot) /\ Close(RotApply(env.rot, e.ta)[2], e.tea[2], TolRot)
   /\ Close(RotApply(env.rot, e.tb)[1], e.teb[1], TolRot) /\ Close(RotApply(env.rot, e.tb)[2], e.teb[2], TolRot)

(***************************** C02 ******************************************)
InternalEndingAt(m, f, v) == {i \in InternalIdx(m, f) : v \in EndsOfPath(f.ifaces[i])}

ExpectedJunctions(m, f, ignoreFour) ==
  {v \in V(m) : /\ NCells(m, v) >= 3
                /\ Cardinality(InternalEndingAt(m, f, v)) >= 3
                /\ (ignoreFour => Cardinality(InternalEndingAt(m, f, v)) < 4)}

RowVertices(fm) == {fm.rows[k].v : k \in DOMAIN fm.rows}
ColOf(fm, i) == IF \E c \in DOMAIN fm.cols : fm.cols[c] = i THEN CHOOSE c \in DOMAIN fm.cols : fm.cols[c] = i ELSE 0
Entry(row, c) == IF \E j \in DOMAIN row.e : row.e[j][1] = c
                 THEN LET j == CHOOSE j \in DOMAIN row.e : row.e[j][1] = c IN <<row.e[j][2], row.e[j][3]>>
                 ELSE <<0, 0>>

ColumnsOK(m, f, fm, used) == \* exactly one unknown per used internal interface
  /\ Len(fm.cols) = Cardinality(used)
  /\ {fm.cols[c] : c \in DOMAIN fm.cols} = used
  /\ fm.ncols = Len(fm.cols)

\* sign rule of the known finding: each component of the tangent is forced to the sign of the first chord
SgnC(c) == IF c < 0 THEN -1 ELSE 1
SignForced(te, ce) == \E k \in {1, 2} : te[k] # 0 /\ Sgn(te[k]) # SgnC(ce[k])
KF_SignForcedEnd(env, q, v) == SignForced(TrueTan(env, q, v), Chord(env, q, v))
KF_TwoPointIfc(env, q) == env.E[q].npts = 2

\* bad coefficient instances <<row index k, interface i>>
CoefBad(m, f, env, fm) ==
  {ki \in UNION {{<<k, i>> : i \in InternalEndingAt(m, f, fm.rows[k].v) \cap {fm.cols[c] : c \in DOMAIN fm.cols}}
                 : k \in DOMAIN fm.rows} :
     LET row == fm.rows[ki[1]]  q == PhysOf(env, f.ifaces[ki[2]])
         got == Entry(row, ColOf(fm, ki[2]))
     IN  IF q = 0 THEN ~Composite(env, f.ifaces[ki[2]])
         ELSE ~(Close(got[1], TrueTan(env, q, row.v)[1], TolTangent) /\ Close(got[2], TrueTan(env, q, row.v)[2], TolTangent))}
\* known finding: the least-squares circle fit of a STRAIGHT interface occasionally converges to a centre on
\* (or next to) the line itself; the coefficient is then (nearly) perpendicular to the true tangent
KF_LineFitPerpEnd(env, q, v, got) == LET t == TrueTan(env, q, v) IN
   \* the circle fit is ill-posed for exactly collinear points: the least-squares iteration occasionally stops at a centre on
   \* or near the line, and the tangent is then off by anything between a few degrees and 90 degrees (observed: 24, 56, 88).
   \* Any tangent error beyond tolerance on an exactly straight interface is attributed to this defect; arcs stay sharp.
   /\ env.E[q].straight
   /\ ~(Close(got[1], t[1], TolTangent) /\ Close(got[2], t[2], TolTangent))
\* known finding: the default ("dlite") circle fit loses accuracy when the tissue lies more than ~500 tissue
\* sizes away from the origin. Measured over 5000 arc ends (findings/c02_far_from_origin probe): from about 500 tissue sizes
\* on, sporadic tangent errors of up to 3.5e-2 (growing with the offset measured in interface lengths, so larger tissues are
\* hit earlier); beyond 4000 tissue sizes several 1e-3 up to 0.7. The case-level matcher (tension checks) is the onset;
\* at coefficient level the excuse is bounded in magnitude up to 4000 sizes, so a change that loses accuracy much earlier or
\* much more does not hide behind it.
KF_FarFromOrigin(env, fit) == fit = "dlite" /\ env.offset_sizes > 500
KF_FarFromOriginCoef(env, fit, got, want) ==
  /\ KF_FarFromOrigin(env, fit)
  /\ \/ env.offset_sizes > 4000
     \/ Abs(got[1] - want[1]) <= 80000 /\ Abs(got[2] - want[2]) <= 80000
CoefKF(m, f, env, fm, ki, fit) ==
  LET q == PhysOf(env, f.ifaces[ki[2]])
      row == fm.rows[ki[1]] IN
  IF q = 0 THEN "" ELSE IF KF_TwoPointIfc(env, q) THEN "KF_TwoPointInterface"
  ELSE IF KF_SignForcedEnd(env, q, row.v) THEN "KF_SignForced"
  ELSE IF KF_FarFromOriginCoef(env, fit, Entry(row, ColOf(fm, ki[2])), TrueTan(env, q, row.v)) THEN "KF_FarFromOrigin"
  ELSE IF KF_LineFitPerpEnd(env, q, row.v, Entry(row, ColOf(fm, ki[2]))) THEN "KF_LineFitPerp" ELSE ""

ZerosOK(m, f, fm) == \A k \in DOMAIN fm.rows : LET row == fm.rows[k] IN
  {row.e[j][1] : j \in DOMAIN row.e} \subseteq {ColOf(fm, i) : i \in InternalEndingAt(m, f, row.v)}

\* junctions: missing / unexpected
JunctionsMissing(m, f, fm, ignoreFour) == ExpectedJunctions(m, f, ignoreFour) \ RowVertices(fm)
JunctionsExtra(m, f, fm, ignoreFour)   == RowVertices(fm) \ ExpectedJunctions(m, f, ignoreFour)
\* known finding: a junction is kept only if >= 3 coefficients are non-zero in x or in y; with exactly
\* axis-aligned tangents (or two-point interfaces, whose coefficient is the rotated chord) it is dropped
NonZeroCount(env, m, f, v, k) == Cardinality({i \in InternalEndingAt(m, f, v) :
     LET q == PhysOf(env, f.ifaces[i]) IN q # 0 /\ Abs(TrueTan(env, q, v)[k]) > 1000})
KF_AxisAlignedDropped(env, m, f, v) == NonZeroCount(env, m, f, v, 1) < 3 /\ NonZeroCount(env, m, f, v, 2) < 3
KF_TwoPointAt(env, m, f, v) == \E i \in InternalEndingAt(m, f, v) :
     LET q == PhysOf(env, f.ifaces[i]) IN q # 0 /\ KF_TwoPointIfc(env, q)
RowsDistinctOK(fm) == /\ \A j, k \in DOMAIN fm.rows : j # k => fm.rows[j].v # fm.rows[k].v /\ fm.rows[j].r # fm.rows[k].r
                      /\ \A k \in DOMAIN fm.rows : fm.rows[k].r % 2 = 0 /\ fm.rows[k].r + 1 < fm.nrows
                      /\ fm.nrows = 2 * Len(fm.rows)

(***************************** C16 ******************************************)
(* vs[k] = [v |-> junction, d |-> sequence of unit direction pairs]: the directions the            *)
(* implementation assigns to the interfaces meeting at v (their correctness is C02's business).     *)
(* cosLimit: fixed-point cosine of the limit; a pair opens by at least the limit iff dot <= cos.     *)
CosMargin == 200   \* 2e-4: decisions closer than this to the threshold are rejected input
OpensAtLeast(d, cosLimit) == \E i, j \in DOMAIN d : i < j /\ Dot(d[i], d[j]) <= cosLimit - CosMargin
OpensUnclear(d, cosLimit) == /\ ~OpensAtLeast(d, cosLimit)
                             /\ \E i, j \in DOMAIN d : i < j /\ Dot(d[i], d[j]) < cosLimit + CosMargin
=============================================================================

---------------------------- MODULE Trace_Edits2 ----------------------------
(* Trace validation of the public editing behaviour covered by the extension check `edits2`.                    *)
(* A frame view is {m: projected mesh (Mesh.tla fields + vid / cid labels), f: projected Frame (Interfaces.tla),  *)
(* obe: own_big_edges per vertex (1-based interface indices)}.  Events of a case:                               *)
(*   Session          {depth = 0, frames: [view, ...]}   a freshly built ForSys session (root of the case's tree) *)
(*   RemoveCell       {depth, frame, cell, raised, frames}   ForSys.remove_cell(frame, cell) applied to the        *)
(*                    session at depth `depth` of the tree; `frames` = all views afterwards                       *)
(*   RemoveOutermost  {depth, frame, flags, raised, frames}  ForSys.remove_outermost_edges(frame, 1); flags[u] =   *)
(*                    labels of the cells of frame u - 1 whose is_border is set at the time of the call           *)
(*     judged by CellRemoval.tla's D (RemovalVerdict) against the parent session:                                *)
(*       E2.removed_mesh  E2.other_frames_untouched  E2.consistent  E2.interfaces  E2.border_layer  E2.raised     *)
(*     E2.interfaces = the interfaces are the decomposition (Paths) of the restriction of the parent mesh to the *)
(*     remaining cells and, when the mesh is that restriction, the whole C08Verdict of Interfaces.tla holds.     *)
(*   FilterEdges      {method, before: view, after: view, xid_b, xid_a, raised}   Frame.filter_edges(method);      *)
(*                    xid = exact-position ids interned over both views                                          *)
(*       E2.filter_topology (same mesh, same interface vertex sequences), E2.consistent,                          *)
(*       E2.filter_short_unchanged (a vertex none of whose interfaces has >= 5 points keeps its exact position;   *)
(*       method "none": every vertex), E2.raised                                                                  *)
(*   WktRoundTrip     {closed, before: mesh with pos, after: mesh with pos, raised}                               *)
(*                    create_lattice(create_wkt(cells).splitlines()); closed = the harness repeated the first     *)
(*                    point of every ring, as WKT proper demands                                                  *)
(*       E2.wkt_cycles (same cells: the same vertex cycles up to rotation / direction under (x, y) -> (x, 1024-y)),*)
(*       E2.wkt_shared (every vertex of the result is exactly one vertex of the input, no input vertex twice),    *)
(*       E2.consistent, E2.raised                                                                                 *)
(*   ReduceAmount     {before: mesh with pos, after: mesh with pos, raised}     wkt.reduce_amount                 *)
(*       E2.reduce_only_collinear (same cells; every cycle is the old cycle without the removed vertices; a       *)
(*       removed vertex had two mesh edges, fewer than three cells and was collinear with its two neighbours),    *)
(*       E2.consistent, E2.raised                                                                                 *)
(* Known-finding matchers: KF_FrameZero, KF_SharedEndsEdgeKept (CellRemoval.tla), KF_StaleOwnBigEdges,            *)
(* KF_WktOpenRing (below).  Premises (rejected inputs) are evaluated here from the logged data.                   *)
EXTENDS CellRemoval, FixedPoint, TraceKit

VARIABLES l, stk            \* stk[d + 1] = [fr |-> views, clean |-> BOOLEAN] at depth d on the current path
vars == <<l, stk>>
NoSess == [fr |-> <<>>, clean |-> FALSE]
Init == l = 1 /\ stk = <<>>

LOCAL Rq(q) == {q[i] : i \in DOMAIN q}

ViewOK(v) == Has(v, "m") /\ Has(v, "f") /\ Has(v.f, "ifaces") /\ Has(v.m, "nv")
IflOf(v) == IF ~ViewOK(v) THEN <<>>
            ELSE [i \in DOMAIN v.f.ifaces |-> [j \in DOMAIN v.f.ifaces[i] |-> VLab(v.m, v.f.ifaces[i][j])]]
CleanView(v) == ViewOK(v) /\ CleanMesh(v.m) /\ DecompL(v.m, CellLabs(v.m), IflOf(v))

(******************************** Session **********************************)
DoSession(e) ==
  /\ e.ev = "Session"
  /\ LET clean == e.raised = "" /\ \A u \in DOMAIN e.frames : CleanView(e.frames[u])
     IN  /\ EmitV(e, {}, {}, {"E2.session"}, {}, ~clean)
         /\ stk' = <<[fr |-> e.frames, clean |-> clean]>>

(**************************** cell removal *********************************)
\* a failing get_big_edge_by_cells whose two cells share a vertex that still lists an interface index of the
\* Frame object that was replaced (Vertex.own_big_edges accumulates: the Frame is rebuilt on the same objects)
LookupBad(m, f) ==
  LET sepOf == {<<i, SepCells(m, f.ifaces[i])>> : i \in DOMAIN f.ifaces} IN
  {k \in DOMAIN f.lookup : LET a == f.lookup[k][1] b == f.lookup[k][2] r == f.lookup[k][3]
       common == {p[1] : p \in {q \in sepOf : {a, b} \subseteq q[2]}}
   IN Cardinality(common) = 1 /\ (\A i \in common : Len(f.ifaces[i]) > 2) /\ r \notin common}
KF_StaleOwnBigEdges(m, f, obe) ==
  /\ LookupBad(m, f) # {}
  /\ \A k \in LookupBad(m, f) : LET a == f.lookup[k][1] b == f.lookup[k][2] IN
        \E v \in Rq(m.C[a]) \cap Rq(m.C[b]) :
           Deg(m, v) < 3 /\ \E x \in Rq(obe[v]) : x \notin DOMAIN f.ifaces \/ v \notin Rq(f.ifaces[x])

DoRemoval(e) ==
  /\ e.ev \in {"RemoveCell", "RemoveOutermost"}
  /\ LET par   == IF e.depth + 1 <= Len(stk) THEN stk[e.depth + 1] ELSE NoSess
         t     == e.frame + 1
         isRO  == e.ev = "RemoveOutermost"
         legal == /\ par.clean /\ t \in DOMAIN par.fr /\ DOMAIN e.frames = DOMAIN par.fr
                  /\ \A u \in DOMAIN e.frames : Has(e.frames[u], "m") /\ Has(e.frames[u].m, "nv")
                  /\ isRO \/ e.cell \in CellLabs(par.fr[t].m)
                  /\ isRO => \A u \in DOMAIN par.fr : Rq(e.flags[u]) \subseteq CellLabs(par.fr[u].m)
     IN  IF ~legal
         THEN /\ EmitV(e, {}, {}, {}, {}, TRUE)
              /\ stk' = SubSeq(stk, 1, e.depth + 1) \o <<NoSess>>
         ELSE
         LET mb    == par.fr[t].m
             va    == e.frames[t]
             ma    == va.m
             ifl   == IflOf(va)
             want  == IF isRO THEN CellLabs(mb) \ Rq(e.flags[t]) ELSE CellLabs(mb) \ {e.cell}
             keep  == IF isRO THEN CellLabs(ma) ELSE want
             asked == IF isRO THEN want ELSE CellLabs(ma)
             unt   == \A u \in DOMAIN par.fr \ {t} : e.frames[u] = par.fr[u]
             restr == e.raised = "" /\ keep \subseteq CellLabs(mb) /\ RestrictionOK(mb, ma, keep)
             c08   == IF restr /\ ViewOK(va) /\ Consistent(ma) = {} THEN C08Verdict(ma, va.f) ELSE {}
             extra == c08 # {} \/ (e.raised = "" /\ ~ViewOK(va))
             fails == RemovalVerdict(mb, ma, ifl, keep, asked, e.raised, unt, extra)
             stale == c08 = {"C08.lookup"} /\ DecompL(mb, keep, ifl) /\ KF_StaleOwnBigEdges(ma, va.f, va.obe)
             tri   == RemovalTriage(fails, mb, ma, ifl, keep, e.frame, e.raised, e.frames[1] # par.fr[1],
                                    isRO /\ Rq(e.flags[1]) # Rq(e.flags[t]), stale)
             hits  == {"E2.raised", "E2.other_frames_untouched"} \cup
                      (IF e.raised = "" THEN {"E2.removed_mesh", "E2.consistent", "E2.interfaces"} ELSE {}) \cup
                      (IF e.raised = "" /\ isRO THEN {"E2.border_layer"} ELSE {}) \cup
                      (IF c08 = {} /\ restr /\ ViewOK(va) /\ Len(va.f.lookup) > 0 THEN {"E2.interfaces.lookup"} ELSE {})
         IN  /\ EmitV(e, tri.fails, tri.kf, hits, {}, FALSE)
             \* only the lookup finding leaves a session on which the next edit can be judged
             /\ stk' = SubSeq(stk, 1, e.depth + 1) \o
                       <<[fr |-> e.frames, clean |-> fails \subseteq (IF stale THEN {"E2.interfaces"} ELSE {})]>>

(****************************** filter_edges *******************************)
Topo(m) == [nv |-> m.nv, ne |-> m.ne, nc |-> m.nc, vid |-> m.vid, eid |-> m.eid, cid |-> m.cid,
            oe |-> m.oe, oc |-> m.oc, E |-> m.E, C |-> m.C, vkey |-> m.vkey, ekey |-> m.ekey, ckey |-> m.ckey]
Window == 5
DoFilter(e) ==
  /\ e.ev = "FilterEdges"
  /\ LET b     == e.before
         legal == ViewOK(b) /\ Consistent(b.m) = {} /\ e.method \in {"SG", "none"}
     IN  IF ~legal THEN EmitV(e, {}, {}, {}, {}, TRUE)
         ELSE IF e.raised # "" THEN EmitV(e, {"E2.raised"}, {}, {"E2.raised"}, {}, FALSE)
         ELSE
         LET a     == e.after
             topo  == ViewOK(a) /\ Topo(a.m) = Topo(b.m) /\ a.f.ifaces = b.f.ifaces
             long  == IF e.method = "none" THEN {}
                      ELSE UNION {Rq(b.f.ifaces[i]) : i \in {j \in DOMAIN b.f.ifaces : Len(b.f.ifaces[j]) >= Window}}
             short == V(b.m) \ long
             moved == {v \in short : e.xid_a[v] # e.xid_b[v]}
             fails == {c \in {"E2.filter_topology", "E2.consistent", "E2.filter_short_unchanged"} :
                         \/ c = "E2.filter_topology" /\ ~topo
                         \/ c = "E2.consistent" /\ topo /\ Consistent(a.m) # {}
                         \/ c = "E2.filter_short_unchanged" /\ topo /\ moved # {}}
             hits  == {"E2.raised", "E2.filter_topology", "E2.consistent"} \cup
                      (IF short # {} THEN {"E2.filter_short_unchanged"} ELSE {}) \cup
                      (IF long # {} THEN {"E2.filter_long_present"} ELSE {})
         IN  EmitV(e, fails, {}, hits, {}, FALSE)

(**************************** WKT round trip *******************************)
YFlip == 1024 * Q
PosTol == 2
\* input vertices whose flipped position is the position of output vertex j (fixed point, 1e-6)
Match(mi, mo, j) == {i \in V(mi) : Close(mo.pos[j][1], mi.pos[i][1], PosTol)
                                  /\ Close(mo.pos[j][2], YFlip - mi.pos[i][2], PosTol)}
\* canonical form of a simple cycle: start at the smallest element, go towards its smaller neighbour
CanCyc(c) ==
  LET n  == Len(c)
      r  == CHOOSE i \in 1..n : \A j \in 1..n : c[i] <= c[j]
      fw == [i \in 1..n |-> c[((r + i - 2) % n) + 1]]
      bw == [i \in 1..n |-> c[((r - i + n) % n) + 1]]
  IN  IF n < 3 THEN c ELSE IF fw[2] <= bw[2] THEN fw ELSE bw
\* premise: a proper cell complex whose vertices are at least 1e-4 apart, coordinates inside the fixed-point range
WktLegal(mi) == /\ Consistent(mi) = {} /\ mi.nc >= 1
                /\ \A c \in Ce(mi) : Len(mi.C[c]) >= 3
                /\ \A v \in V(mi) : Abs(mi.pos[v][1]) < 1000 * Q /\ Abs(mi.pos[v][2]) < 1000 * Q
                /\ \A v, w \in V(mi) : v < w => Abs(mi.pos[v][1] - mi.pos[w][1]) + Abs(mi.pos[v][2] - mi.pos[w][2]) >= 100
\* KF_WktOpenRing: create_wkt writes every ring open (the first point is not repeated), create_lattice drops
\* the last point of every ring: cell by cell, the result is the input cycle without its last vertex
KF_WktOpenRing(mi, mo, mt, closed) ==
  /\ ~closed /\ mo.nc = mi.nc
  /\ \A c \in Ce(mi) : [i \in DOMAIN mo.C[c] |-> mt[mo.C[c][i]]] = SubSeq(mi.C[c], 1, Len(mi.C[c]) - 1)
DoWkt(e) ==
  /\ e.ev = "WktRoundTrip"
  /\ LET mi == e.before IN
     IF ~WktLegal(mi) THEN EmitV(e, {}, {}, {}, {}, TRUE)
     ELSE IF e.raised # "" THEN EmitV(e, {"E2.raised"}, {}, {"E2.raised"}, {}, FALSE)
     ELSE
     LET mo     == e.after
         ms     == [j \in 1..mo.nv |-> Match(mi, mo, j)]
         unique == \A j \in 1..mo.nv : Cardinality(ms[j]) = 1
         mt     == [j \in 1..mo.nv |-> IF Cardinality(ms[j]) = 1 THEN CHOOSE i \in ms[j] : TRUE ELSE 0]
         shared == unique /\ Cardinality({mt[j] : j \in 1..mo.nv}) = mo.nv
         refsOK == \A c \in Ce(mo) : \A i \in DOMAIN mo.C[c] : mo.C[c][i] \in 1..mo.nv
         cycIn  == {CanCyc(mi.C[c]) : c \in Ce(mi)}
         cycOut == IF unique /\ refsOK THEN {CanCyc([i \in DOMAIN mo.C[c] |-> mt[mo.C[c][i]]]) : c \in Ce(mo)} ELSE {}
         cycles == unique /\ refsOK /\ mo.nc = mi.nc /\ cycOut = cycIn
         open   == ~cycles /\ unique /\ refsOK /\ KF_WktOpenRing(mi, mo, mt, e.closed)
         fails  == {c \in {"E2.wkt_cycles", "E2.wkt_shared", "E2.consistent"} :
                      \/ c = "E2.wkt_cycles" /\ ~cycles /\ ~open
                      \/ c = "E2.wkt_shared" /\ ~shared
                      \/ c = "E2.consistent" /\ Consistent(mo) # {}}
         kf     == IF open THEN {"KF_WktOpenRing:E2.wkt_cycles"} ELSE {}
         hits   == {"E2.raised", "E2.wkt_cycles", "E2.wkt_shared", "E2.consistent"} \cup
                   (IF \E v \in V(mi) : NCells(mi, v) >= 2 THEN {"E2.wkt_shared.nontrivial"} ELSE {})
     IN  EmitV(e, fails, kf, hits, {}, FALSE)

(****************************** reduce_amount ******************************)
\* collinear within the quantisation of the logged positions (cross product of the two steps, fixed point)
Collinear(pa, pj, pb) ==
  LET d1 == <<pj[1] - pa[1], pj[2] - pa[2]>>
      d2 == <<pb[1] - pj[1], pb[2] - pj[2]>>
      l1 == Abs(d1[1]) + Abs(d1[2]) + Abs(d2[1]) + Abs(d2[2])
  IN  Abs(Cross(d1, d2)) <= 20 + l1 \div 100000
\* premise: a clean cell complex whose mesh edges are shorter than 30 (the fixed-point cross product fits)
ReduceLegal(mb) == /\ CleanMesh(mb)
                   /\ \A e \in Ed(mb) : Abs(mb.pos[mb.E[e][1]][1] - mb.pos[mb.E[e][2]][1]) < 30 * Q
                                      /\ Abs(mb.pos[mb.E[e][1]][2] - mb.pos[mb.E[e][2]][2]) < 30 * Q
DoReduce(e) ==
  /\ e.ev = "ReduceAmount"
  /\ LET mb == e.before IN
     IF ~ReduceLegal(mb) THEN EmitV(e, {}, {}, {}, {}, TRUE)
     ELSE IF e.raised # "" THEN EmitV(e, {"E2.raised"}, {}, {"E2.raised"}, {}, FALSE)
     ELSE
     LET ma      == e.after
         gone    == {v \in V(mb) : mb.vid[v] \notin VertLabs(ma)}
         nbrs(v) == {Other(mb, mb.oe[v][i], v) : i \in DOMAIN mb.oe[v]}
         mayGo(v) == /\ Deg(mb, v) = 2 /\ NCells(mb, v) < 3 /\ Cardinality(nbrs(v)) = 2
                     /\ LET a == CHOOSE x \in nbrs(v) : TRUE
                            b == CHOOSE x \in nbrs(v) : x # a
                        IN  Collinear(mb.pos[a], mb.pos[v], mb.pos[b])
         goneL   == {mb.vid[v] : v \in gone}
         cellsOK == /\ Cardinality(CellLabs(ma)) = ma.nc /\ CellLabs(ma) = CellLabs(mb)
                    /\ VertLabs(ma) \subseteq VertLabs(mb) /\ Cardinality(VertLabs(ma)) = ma.nv
                    /\ \A lab \in CellLabs(mb) :
                          CycEq(CycL(ma, CellByLab(ma, lab)),
                                SelectSeq(CycL(mb, CellByLab(mb, lab)), LAMBDA x : x \notin goneL))
         fails   == {c \in {"E2.reduce_only_collinear", "E2.consistent"} :
                       \/ c = "E2.reduce_only_collinear" /\ ~(cellsOK /\ \A v \in gone : mayGo(v))
                       \/ c = "E2.consistent" /\ Consistent(ma) # {}}
         hits    == {"E2.raised", "E2.reduce_only_collinear", "E2.consistent"} \cup
                    (IF gone # {} THEN {"E2.reduce.removed_some"} ELSE {}) \cup
                    (IF \E v \in V(mb) \ gone : Deg(mb, v) = 2 /\ NCells(mb, v) < 3 THEN {"E2.reduce.kept_some_degree2"} ELSE {})
     IN  EmitV(e, fails, {}, hits, {}, FALSE)

Next == /\ l <= Len(TR)
        /\ LET e == TR[l] IN
             \/ DoSession(e)
             \/ DoRemoval(e)
             \/ (DoFilter(e) \/ DoWkt(e) \/ DoReduce(e)) /\ UNCHANGED stk
        /\ l' = l + 1
Spec == Init /\ [][Next]_vars
Done == TLCGet("stats").diameter - 1 = Len(TR)
=============================================================================

----------------------------- MODULE Reporting -----------------------------
(***************************************************************************)
(* Extension check `reporting` (not one of the listed properties): the     *)
(* reporting / ground-truth API of a Frame (forsys/frames.py) and of the   *)
(* ForSys wrapper (forsys/forsys.py: solve_stress / solve_pressure write-  *)
(* back as far as the tables read it, log_force, get_edge_force).          *)
(*                                                                         *)
(* An explicit state machine.  STATE = the abstract frame:                 *)
(*   structure F (fixed after construction)                                *)
(*     nb, nc, ne     numbers of interfaces (BigEdges, stored order = id   *)
(*                    order), cells (stored order), mesh edges             *)
(*     ext[j]         BigEdge.external         inl[j]  j is listed in      *)
(*                    Frame.internal_big_edges (the solver's columns)      *)
(*     edges[j]       the mesh edges of interface j, along the interface   *)
(*     owner[e]       the interface of mesh edge e (interfaces partition   *)
(*                    the mesh edges: C08; re-checked as a premise)        *)
(*     npt[j]         number of vertices of interface j (2 = no interior   *)
(*                    point)                                               *)
(*     touch[j]       the cells that have a mesh edge of j on their cycle  *)
(*     gtflag         the Frame was built with gt=True                     *)
(*   values s (everything the calls read or write)                         *)
(*     egt[e], eT[e]  ground-truth / inferred tension of mesh edge e       *)
(*     igt[j], iT[j]  BigEdge.gt / BigEdge.tension                         *)
(*     cgt[c], cP[c]  Cell.gt_pressure / Cell.pressure                     *)
(*     hasF, forces   Frame.forces exists / its values by position in the  *)
(*                    internal list ("solved" flag of the stress step)     *)
(*     stGT, stT      Frame.big_edge_gt_tension / big_edge_tension (the    *)
(*                    two stores export_tensions reads), rows <<j, value>> *)
(* A value is a pair <<flag, v>>: <<1, v>> number (fixed point Q = 1e6 on  *)
(* traces, small integers in MC_Reporting), <<0, 0>> None, <<2, 0>> NaN,   *)
(* <<3, 0>> not modelled (geometry columns of the abstract MC frames).     *)
(*                                                                         *)
(* ACTIONS = the public calls.  A call is a record                         *)
(*   [op, wb, isgt, g, map, a, b]   (wb = use_all / with_border / "ext")   *)
(* and what it returned a record                                           *)
(*   [raised, kind, ids, cols, rows, rows2, j]                             *)
(*                                                                         *)
(*   updates  AssignGT(g, use_all)     assign_gt_tensions_to_big_edges     *)
(*            AssignGTSmall(ext)       assign_gt_small_edges               *)
(*            AssignPressures(g, map)  assign_pressures                    *)
(*            AssignSmall(g)           assign_tensions (legacy, public)    *)
(*            ToBig                    assign_tensions_to_big_edges        *)
(*            Solve(g)                 ForSys.build_force_matrix +         *)
(*                                     solve_stress (g = returned forces)  *)
(*            SolveP(g, map)           ForSys.build_pressure_matrix +      *)
(*                                     solve_pressure                      *)
(*   queries  BigEdges(use_all) External ExternalIds Tensions(wb) GT(wb)   *)
(*            Pressures Export(is_gt, wb) ByCells(a, b) CellProps          *)
(*            EdgeProps EdgesId(a) LogForce EdgeForce(a)                   *)
(*                                                                         *)
(* Two layers (DESIGN 2.2):                                                *)
(*   D  Judge(F, pre, c, r, post, memo): the declarative definition of     *)
(*      every call - which rows, in which order, which columns and values, *)
(*      when it must raise, what it may change - as the set of FAILED      *)
(*      clause instances <<clause, known-finding tag or "">>.              *)
(*   I  IStep(F, s, c): what the code does, including the calls that the   *)
(*      code cannot serve (KF_* below).                                    *)
(* MC_Reporting explores I and checks  Judge(.. I ..) = only tagged        *)
(* instances  plus the cross-call properties; Trace_Reporting applies the  *)
(* SAME Judge to every call recorded from the real objects.                *)
(*                                                                         *)
(* Readings (least demanding, DESIGN 5.5):                                 *)
(*  R1 assign_gt_tensions_to_big_edges(g): "from a dictionary" does not    *)
(*     say keyed by what; the code uses the POSITION in get_big_edges(     *)
(*     use_all): the i-th listed interface gets g[i] (a list works too).   *)
(*  R2 solve_stress: the i-th returned value belongs to the i-th interface *)
(*     of Frame.internal_big_edges; -1 marks "not inferred" (excluded by   *)
(*     the angle limit) and leaves tension 0 there (C10/C16 own this);     *)
(*     border interfaces are not touched by the solver.                    *)
(*  R3 a query before any solve reports the defaults (tension 0, pressure  *)
(*     NaN / None); log_force has nothing to report and must raise.        *)
(*  R4 get_big_edge_by_cells(a, b), a # b: any interface whose cells are   *)
(*     exactly {a, b}; it must raise when there is none; the answer does   *)
(*     not depend on the order of the arguments.  a = b is not judged.     *)
(*  R5 export_tensions writes the table get_gt_tensions / get_tensions     *)
(*     shows (columns id, tension), with the same border filter.           *)
(***************************************************************************)
EXTENDS FixedPoint, TLC

(* ======================================================================= *)
(* values                                                                  *)
(* ======================================================================= *)
NoneV    == <<0, 0>>
NaNV     == <<2, 0>>
NoG      == <<3, 0>>
Num(v)   == <<1, v>>
Zero     == Num(0)
MinusOne == Num(-Q)
IsNum(x) == x[1] = 1
AsNaN(x) == IF x = NoneV THEN NaNV ELSE x

AllNum(vals) == \A i \in 1..Len(vals) : IsNum(vals[i])
Ints(vals)   == [i \in 1..Len(vals) |-> vals[i][2]]

\* mean of a non-empty sequence of integers, through differences to the first entry (32-bit integers)
MaxAbsDiff(s) == LET D == {Abs(s[i] - s[1]) : i \in 1..Len(s)} IN CHOOSE d \in D : \A x \in D : x <= d
MeanSafe(s)   == Len(s) > 0 /\ (\A i \in 1..Len(s) : Abs(s[i]) <= 1000 * Q) /\ Len(s) * (MaxAbsDiff(s) \div 1000) < 2000000
MeanInt(s)    == s[1] + SumSeq([i \in 1..Len(s) |-> s[i] - s[1]]) \div Len(s)
MeanTol       == 2
\* m is the mean of vals (not judged - TRUE - when a value is not a number or the sum leaves the integer range)
Judgeable(vals)  == Len(vals) > 0 /\ AllNum(vals) /\ MeanSafe(Ints(vals))
IsMeanV(m, vals) == Judgeable(vals) => (IsNum(m) /\ Close(m[2], MeanInt(Ints(vals)), MeanTol))
MeanV(vals)      == Num(MeanInt(Ints(vals)))

(* ======================================================================= *)
(* structure                                                               *)
(* ======================================================================= *)
RECURSIVE SelFrom(_, _, _)
SelFrom(P(_), j, n) == IF j > n THEN <<>> ELSE (IF P(j) THEN <<j>> ELSE <<>>) \o SelFrom(P, j + 1, n)
PosMap(L, n) == [j \in 1..n |-> IF \E i \in 1..Len(L) : L[i] = j THEN CHOOSE i \in 1..Len(L) : L[i] = j ELSE 0]
Owner(edges, ne) ==
  [e \in 1..ne |-> LET S == {j \in 1..Len(edges) : \E k \in 1..Len(edges[j]) : edges[j][k] = e}
                   IN  IF Cardinality(S) = 1 THEN CHOOSE j \in S : TRUE ELSE 0]

\* raw = [nb, nc, ne, ext, inl, edges, npt, touch (sequences of cells), gtflag, geom, ifx, ify, cx, cy]
RawWF0(raw) ==
  /\ raw.nb >= 0 /\ raw.nc >= 0 /\ raw.ne >= 0
  /\ Len(raw.ext) = raw.nb /\ Len(raw.inl) = raw.nb /\ Len(raw.edges) = raw.nb /\ Len(raw.npt) = raw.nb
  /\ \A j \in 1..raw.nb : /\ Len(raw.edges[j]) >= 1
                          /\ \A k \in 1..Len(raw.edges[j]) : raw.edges[j][k] \in 1..raw.ne
  /\ raw.geom => /\ Len(raw.ifx) = raw.nb /\ Len(raw.ify) = raw.nb /\ Len(raw.cx) = raw.nc /\ Len(raw.cy) = raw.nc
                 /\ \A j \in 1..raw.nb : Len(raw.ifx[j]) = raw.npt[j] /\ Len(raw.ify[j]) = raw.npt[j]
                 /\ \A c \in 1..raw.nc : Len(raw.cx[c]) = Len(raw.cy[c])
RawWF(raw) ==
  /\ RawWF0(raw)
  /\ Len(raw.touch) = raw.nb
  /\ \A j \in 1..raw.nb : \A k \in 1..Len(raw.touch[j]) : raw.touch[j][k] \in 1..raw.nc

MkFrame(raw) ==
  LET nonext == SelFrom(LAMBDA j : ~raw.ext[j], 1, raw.nb)
      inlist == SelFrom(LAMBDA j : raw.inl[j], 1, raw.nb)
  IN  [nb |-> raw.nb, nc |-> raw.nc, ne |-> raw.ne, ext |-> raw.ext, inl |-> raw.inl, edges |-> raw.edges,
       npt |-> raw.npt, touch |-> [j \in 1..raw.nb |-> Range(raw.touch[j])], gtflag |-> raw.gtflag,
       geom |-> raw.geom, ifx |-> raw.ifx, ify |-> raw.ify, cx |-> raw.cx, cy |-> raw.cy,
       all |-> [j \in 1..raw.nb |-> j] \o <<>>,
       nonext |-> nonext, inlist |-> inlist,
       extl |-> SelFrom(LAMBDA j : raw.ext[j], 1, raw.nb),
       posNon |-> PosMap(nonext, raw.nb) \o <<>>, posIn |-> PosMap(inlist, raw.nb) \o <<>>,
       owner |-> Owner(raw.edges, raw.ne) \o <<>>]

\* premise (C08 owns it): the interfaces partition the mesh edges
Partition(F) == \A e \in 1..F.ne : F.owner[e] # 0

Listed(F, wb) == IF wb THEN F.all ELSE F.nonext
ListPos(F, wb) == IF wb THEN F.all ELSE F.posNon
EdgeVals(F, vals, j) == [k \in 1..Len(F.edges[j]) |-> vals[F.edges[j][k]]]

StateWF(F, o) ==
  /\ Len(o.egt) = F.ne /\ Len(o.eT) = F.ne /\ Len(o.igt) = F.nb /\ Len(o.iT) = F.nb
  /\ Len(o.cgt) = F.nc /\ Len(o.cP) = F.nc
  /\ \A i \in 1..Len(o.stGT) : Len(o.stGT[i]) = 2
  /\ \A i \in 1..Len(o.stT) : Len(o.stT[i]) = 2

StateFields == {"egt", "eT", "igt", "iT", "cgt", "cP", "hasF", "forces", "stGT", "stT"}
StateDiff(a, b) ==
  (IF a.egt # b.egt THEN {"egt"} ELSE {}) \cup (IF a.eT # b.eT THEN {"eT"} ELSE {}) \cup
  (IF a.igt # b.igt THEN {"igt"} ELSE {}) \cup (IF a.iT # b.iT THEN {"iT"} ELSE {}) \cup
  (IF a.cgt # b.cgt THEN {"cgt"} ELSE {}) \cup (IF a.cP # b.cP THEN {"cP"} ELSE {}) \cup
  (IF a.hasF # b.hasF THEN {"hasF"} ELSE {}) \cup (IF a.forces # b.forces THEN {"forces"} ELSE {}) \cup
  (IF a.stGT # b.stGT THEN {"stGT"} ELSE {}) \cup (IF a.stT # b.stT THEN {"stT"} ELSE {})
SameState(a, b) == StateDiff(a, b) = {}

(* ======================================================================= *)
(* D: state after construction                                             *)
(* ======================================================================= *)
\* "the ground truth of an interface is the mean of its mesh edges' ground truth" (Frame(gt=True); kept by every
\* assignment call afterwards)
GTIsMean(F, s) == \A j \in 1..F.nb : IsMeanV(s.igt[j], EdgeVals(F, s.egt, j))
DefaultsOK(F, s) ==
  /\ \A j \in 1..F.nb : s.iT[j] = Zero
  /\ F.gtflag \/ \A j \in 1..F.nb : s.igt[j] = Zero
  /\ \A c \in 1..F.nc : s.cP[c] = NoneV
  /\ ~s.hasF /\ s.forces = <<>> /\ s.stGT = <<>> /\ s.stT = <<>>

(* ======================================================================= *)
(* D: updates                                                              *)
(* ======================================================================= *)
Updates == {"AssignGT", "AssignGTSmall", "AssignPressures", "AssignSmall", "ToBig", "Solve", "SolveP"}
Queries == {"BigEdges", "External", "ExternalIds", "Tensions", "GT", "Pressures", "Export", "ByCells", "CellProps",
            "EdgeProps", "EdgesId", "LogForce", "EdgeForce"}

\* the i-th listed interface gets g[i], on the interface and on each of its mesh edges (R1)
AssignGTPost(F, s, g, useAll) ==
  LET P == ListPos(F, useAll) IN
  [s EXCEPT !.igt = [j \in 1..F.nb |-> IF P[j] > 0 THEN g[P[j]] ELSE s.igt[j]] \o <<>>,
            !.egt = [e \in 1..F.ne |-> IF P[F.owner[e]] > 0 THEN g[P[F.owner[e]]] ELSE s.egt[e]] \o <<>>]
\* every mesh edge of the chosen interfaces ("ext": all, otherwise the internal list) gets its interface's value
AssignGTSmallPost(F, s, ext) ==
  [s EXCEPT !.egt = [e \in 1..F.ne |-> IF ext \/ F.inl[F.owner[e]] THEN s.igt[F.owner[e]] ELSE s.egt[e]] \o <<>>]
\* cell c gets pressures[mapping[c]]
AssignPressuresPost(F, s, g, map) == [s EXCEPT !.cP = [c \in 1..F.nc |-> g[map[c]]] \o <<>>]
\* legacy assign_tensions: the mesh edges of the j-th stored interface get x[j]
AssignSmallPost(F, s, g) == [s EXCEPT !.eT = [e \in 1..F.ne |-> g[F.owner[e]]] \o <<>>]
\* assign_tensions_to_big_edges: every interface gets the mean of its mesh edges
ToBigOK(F, s, post) ==
  /\ StateDiff(s, post) \subseteq {"iT"}
  /\ \A j \in 1..F.nb : IsMeanV(post.iT[j], EdgeVals(F, s.eT, j))
\* solve_stress (R2)
Written(x) == IF x = MinusOne THEN Zero ELSE x
SolveOK(F, s, g, post) ==
  /\ StateDiff(s, post) \subseteq {"eT", "iT", "hasF", "forces"}
  /\ post.hasF /\ post.forces = g
  /\ \A e \in 1..F.ne : LET p == F.posIn[F.owner[e]] IN
                        post.eT[e] = (IF p > 0 THEN Written(g[p]) ELSE s.eT[e])
  /\ \A j \in 1..F.nb : IsMeanV(post.iT[j], EdgeVals(F, post.eT, j))

MapOK(F, g, map) == Len(map) = F.nc /\ \A c \in 1..F.nc : map[c] \in 1..Len(g)

\* the call is legitimate: it must not raise
UpdEnabled(F, s, c) ==
  CASE c.op = "AssignGT"        -> Len(c.g) >= Len(Listed(F, c.wb))
    [] c.op = "AssignGTSmall"   -> TRUE
    [] c.op = "AssignPressures" -> MapOK(F, c.g, c.map)
    [] c.op = "AssignSmall"     -> Len(c.g) >= F.nb
    [] c.op = "ToBig"           -> TRUE
    [] c.op = "Solve"           -> Len(c.g) = Len(F.inlist)
    [] c.op = "SolveP"          -> MapOK(F, c.g, c.map)
    [] OTHER                    -> FALSE
UpdPostOK(F, s, c, post) ==
  CASE c.op = "AssignGT"        -> SameState(post, AssignGTPost(F, s, c.g, c.wb))
    [] c.op = "AssignGTSmall"   -> SameState(post, AssignGTSmallPost(F, s, c.wb))
    [] c.op = "AssignPressures" -> SameState(post, AssignPressuresPost(F, s, c.g, c.map))
    [] c.op = "AssignSmall"     -> SameState(post, AssignSmallPost(F, s, c.g))
    [] c.op = "ToBig"           -> ToBigOK(F, s, post)
    [] c.op = "Solve"           -> SolveOK(F, s, c.g, post)
    [] c.op = "SolveP"          -> SameState(post, AssignPressuresPost(F, s, c.g, c.map))
    [] OTHER                    -> TRUE

(* ======================================================================= *)
(* D: the tables                                                           *)
(* ======================================================================= *)
ColsTensions == <<"id", "gt", "stress">>
ColsGT       == <<"id", "gt">>
ColsPress    == <<"id", "gt_pressure", "pressure">>
ColsExport   == <<"id", "tension">>
ColsCell     == <<"cid", "centerx", "centery", "perimeter", "area", "pressure">>
ColsEdge     == <<"eid", "posx", "posy", "tension", "gt_tension">>
ColsLog      == <<"0", "is_border">>

DTensions(F, s, wb) == LET L == Listed(F, wb) IN [i \in 1..Len(L) |-> <<L[i], s.igt[L[i]], s.iT[L[i]]>>] \o <<>>
DGT(F, s, wb)       == LET L == Listed(F, wb) IN [i \in 1..Len(L) |-> <<L[i], s.igt[L[i]]>>] \o <<>>
DPressures(F, s)    == [c \in 1..F.nc |-> <<c, s.cgt[c], AsNaN(s.cP[c])>>] \o <<>>
DExport(F, s, isgt, wb) ==
  LET L == Listed(F, wb) IN [i \in 1..Len(L) |-> <<L[i], IF isgt THEN s.igt[L[i]] ELSE s.iT[L[i]]>>] \o <<>>
DEdgeProps(F, s)    == [j \in 1..F.nb |-> <<j, s.iT[j], s.igt[j]>>] \o <<>>
DCellProps(F, s)    == [c \in 1..F.nc |-> <<c, s.cP[c]>>] \o <<>>
DLogForce(s)        == [i \in 1..Len(s.forces) |-> <<i - 1, s.forces[i], 0>>] \o <<>>
\* the interfaces between cells a and b (R4)
Between(F, a, b)    == {j \in 1..F.nb : F.touch[j] = {a, b}}

RowIds(rows) == [i \in 1..Len(rows) |-> rows[i][1]] \o <<>>

(* ======================================================================= *)
(* Known-finding matchers (instance level; reproducers findings/rep_*.py)  *)
(* ======================================================================= *)
\* get_big_edges(use_all=True) returns the DICTIONARY Frame.big_edges (documented :rtype: list); its caller
\* assign_gt_tensions_to_big_edges(use_all=True) enumerates the keys and raises AttributeError on an int
KF_UseAllDict(c, r) ==
  /\ c.wb
  /\ \/ c.op = "BigEdges" /\ r.raised = "" /\ r.kind = "dict"
     \/ c.op = "AssignGT" /\ r.raised = "AttributeError"
\* assign_gt_small_edges("ext") iterates Frame.big_edges_list (lists of vertex ids), not BigEdge objects
KF_GTSmallExt(c, r) == c.op = "AssignGTSmall" /\ c.wb /\ r.raised = "AttributeError"
\* export_tensions reads Frame.big_edge_gt_tension / big_edge_tension, which nothing ever fills: an empty file with
\* the border, AttributeError ('DataFrame' object has no attribute 'id') without
KF_ExportEmptyStore(s, c, r) ==
  /\ c.op = "Export" /\ (IF c.isgt THEN s.stGT ELSE s.stT) = <<>>
  /\ \/ c.wb /\ r.raised = "" /\ r.rows = <<>>
     \/ ~c.wb /\ r.raised = "AttributeError"
\* get_big_edge_by_cells looks the interface up through the common vertices with fewer than three mesh edges: an
\* interface without interior point is never found (IndexError)
KF_ByCellsNoInterior(F, c, r) ==
  /\ c.op = "ByCells" /\ r.raised = "IndexError"
  /\ Between(F, c.a, c.b) # {} /\ \A j \in Between(F, c.a, c.b) : F.npt[j] = 2
\* ForSys.get_edge_force reads Frame.earr, which no longer exists (and looks the time -1 up in the mapping)
KF_EdgeForceBroken(c, r) == c.op = "EdgeForce" /\ r.raised \in {"AttributeError", "KeyError"}

(* ======================================================================= *)
(* D: Judge - the set of failed clause instances <<clause, tag>>           *)
(* ======================================================================= *)
If(b, S) == IF b THEN S ELSE {}
T(clause, tag) == {<<clause, tag>>}

JUpdate(F, s, c, r, post) ==
  LET tag == IF KF_UseAllDict(c, r) THEN "KF_UseAllDict" ELSE IF KF_GTSmallExt(c, r) THEN "KF_GTSmallExt" ELSE ""
      en  == UpdEnabled(F, s, c)
  IN  \* numerical failures of the solvers are not this check's business (C04, C05): rejected input
      IF c.op \in {"Solve", "SolveP"} /\ r.raised # "" THEN {}
      ELSE If(en /\ r.raised # "", T("REP.raised", tag))
           \cup If(r.raised # "" /\ ~SameState(s, post), T("REP.raise_keeps_state", ""))
           \cup If(~en /\ r.raised = "", T("REP.refused", ""))
           \cup If(en /\ r.raised = "" /\ ~UpdPostOK(F, s, c, post), T("REP.state." \o c.op, ""))

\* tables: columns, which rows in which order, values
JTable(name, r, cols, expIds) ==
  If(r.raised # "", T("REP.raised", ""))
  \cup If(r.raised = "" /\ r.cols # cols, T("REP." \o name \o ".columns", ""))
  \cup If(r.raised = "" /\ RowIds(r.rows) # expIds, T("REP." \o name \o ".rows", ""))

JBigEdges(F, c, r) ==
  LET tag == IF KF_UseAllDict(c, r) THEN "KF_UseAllDict" ELSE "" IN
  If(r.raised # "", T("REP.raised", ""))
  \cup If(r.raised = "" /\ r.kind # "list", T("REP.big_edges.type", tag))
  \cup If(r.raised = "" /\ r.ids # Listed(F, c.wb), T("REP.big_edges.rows", ""))
JExternal(F, c, r) ==
  If(r.raised # "", T("REP.raised", ""))
  \cup If(r.raised = "" /\ r.kind # "list", T("REP.external.type", ""))
  \cup If(r.raised = "" /\ r.ids # F.extl, T("REP.external.rows", ""))
JTensions(F, s, c, r) ==
  JTable("tensions", r, ColsTensions, Listed(F, c.wb))
  \cup If(r.raised = "" /\ \E i \in 1..Len(r.rows) : LET j == r.rows[i][1] IN
             j \in 1..F.nb /\ (r.rows[i][2] # s.igt[j] \/ r.rows[i][3] # s.iT[j]), T("REP.tensions.values", ""))
JGT(F, s, c, r) ==
  JTable("gt", r, ColsGT, Listed(F, c.wb))
  \cup If(r.raised = "" /\ \E i \in 1..Len(r.rows) : LET j == r.rows[i][1] IN j \in 1..F.nb /\ r.rows[i][2] # s.igt[j],
          T("REP.gt.values", ""))
JPressures(F, s, c, r) ==
  JTable("pressures", r, ColsPress, [k \in 1..F.nc |-> k] \o <<>>)
  \cup If(r.raised = "" /\ \E i \in 1..Len(r.rows) : LET k == r.rows[i][1] IN
             k \in 1..F.nc /\ (r.rows[i][2] # s.cgt[k] \/ r.rows[i][3] # AsNaN(s.cP[k])), T("REP.pressures.values", ""))
\* the exported file round-trips to the table (R5); r.kind = "file" when the file exists and every line parses
JExport(F, s, c, r) ==
  LET tag == IF KF_ExportEmptyStore(s, c, r) THEN "KF_ExportEmptyStore" ELSE "" IN
  If(r.raised # "", T("REP.raised", tag))
  \cup If(r.raised = "" /\ (r.kind # "file" \/ r.cols # ColsExport), T("REP.export.file", tag))
  \cup If(r.raised = "" /\ RowIds(r.rows) # Listed(F, c.wb), T("REP.export.rows", tag))
  \cup If(r.raised = "" /\ \E i \in 1..Len(r.rows) : LET j == r.rows[i][1] IN
             j \in 1..F.nb /\ r.rows[i][2] # (IF c.isgt THEN s.igt[j] ELSE s.iT[j]), T("REP.export.values", tag))
\* (R4) memo = earlier lookups on this frame <<a, b, answer>> (answer -1 = raised)
JByCells(F, c, r, memo) ==
  LET S == Between(F, c.a, c.b)
      tag == IF KF_ByCellsNoInterior(F, c, r) THEN "KF_ByCellsNoInterior" ELSE ""
      ans == IF r.raised # "" THEN -1 ELSE r.j
  IN  IF c.a = c.b \/ c.a \notin 1..F.nc \/ c.b \notin 1..F.nc THEN {}
      ELSE If(S = {} /\ r.raised = "", T("REP.by_cells.none", ""))
           \cup If(S # {} /\ (r.raised # "" \/ r.j \notin S), T("REP.by_cells.found", tag))
           \cup If(\E m \in memo : m[1] = c.b /\ m[2] = c.a /\ m[3] # ans, T("REP.by_cells.symmetric", ""))
\* geometry columns are judged where the frame carries positions (traces): centre of method "centroid" = mean of the
\* cell's vertices, position of an interface = mean of its vertices; perimeter and area = the cell's own primitives
\* (rows2 = <<perimeter, area>> of Cell.get_perimeter / get_area, C20 owns their correctness)
CoordMeanOK(v, xs) == (Len(xs) > 0 /\ MeanSafe(xs)) => (IsNum(v) /\ Close(v[2], MeanInt(xs), MeanTol))
JCellProps(F, s, c, r) ==
  JTable("cell_props", r, ColsCell, [k \in 1..F.nc |-> k] \o <<>>)
  \cup If(r.raised = "" /\ \E i \in 1..Len(r.rows) : LET k == r.rows[i][1] IN k \in 1..F.nc /\ r.rows[i][6] # s.cP[k],
          T("REP.cell_props.pressure", ""))
  \cup If(r.raised = "" /\ F.geom /\ Len(r.rows2) = Len(r.rows) /\
          \E i \in 1..Len(r.rows) : r.rows[i][4] # r.rows2[i][1] \/ r.rows[i][5] # r.rows2[i][2],
          T("REP.cell_props.geometry", ""))
  \cup If(r.raised = "" /\ F.geom /\ c.wb /\
          \E i \in 1..Len(r.rows) : LET k == r.rows[i][1] IN
             k \in 1..F.nc /\ (~CoordMeanOK(r.rows[i][2], F.cx[k]) \/ ~CoordMeanOK(r.rows[i][3], F.cy[k])),
          T("REP.cell_props.center", ""))
JEdgeProps(F, s, c, r) ==
  JTable("edge_props", r, ColsEdge, F.all)
  \cup If(r.raised = "" /\ \E i \in 1..Len(r.rows) : LET j == r.rows[i][1] IN
             j \in 1..F.nb /\ (r.rows[i][4] # s.iT[j] \/ r.rows[i][5] # s.igt[j]), T("REP.edge_props.values", ""))
  \cup If(r.raised = "" /\ F.geom /\
          \E i \in 1..Len(r.rows) : LET j == r.rows[i][1] IN
             j \in 1..F.nb /\ (~CoordMeanOK(r.rows[i][2], F.ifx[j]) \/ ~CoordMeanOK(r.rows[i][3], F.ify[j])),
          T("REP.edge_props.position", ""))
JEdgesId(F, c, r) ==
  IF c.a \notin 1..F.nb THEN {}
  ELSE If(r.raised # "", T("REP.raised", "")) \cup If(r.raised = "" /\ r.ids # F.edges[c.a], T("REP.edges_id", ""))
\* (R3)
JLogForce(s, c, r) ==
  IF ~s.hasF THEN If(r.raised = "", T("REP.log_force.before_solve", ""))
  ELSE If(r.raised # "", T("REP.raised", ""))
       \cup If(r.raised = "" /\ r.cols # ColsLog, T("REP.log_force.columns", ""))
       \cup If(r.raised = "" /\ r.rows # DLogForce(s), T("REP.log_force.rows", ""))
\* get_edge_force(v0, v1, t0 = 0, tmax = 1) for two consecutive vertices of interface a of frame 0: one value, the
\* inferred tension of that interface
JEdgeForce(F, s, c, r) ==
  LET tag == IF KF_EdgeForceBroken(c, r) THEN "KF_EdgeForceBroken" ELSE "" IN
  IF c.a \notin 1..F.nb \/ ~s.hasF THEN {}
  ELSE If(r.raised # "", T("REP.raised", tag))
       \cup If(r.raised = "" /\ r.rows # <<<<s.iT[c.a]>>>>, T("REP.edge_force", ""))

JQuery(F, s, c, r, memo) ==
  CASE c.op = "BigEdges"    -> JBigEdges(F, c, r)
    [] c.op \in {"External", "ExternalIds"} -> JExternal(F, c, r)
    [] c.op = "Tensions"    -> JTensions(F, s, c, r)
    [] c.op = "GT"          -> JGT(F, s, c, r)
    [] c.op = "Pressures"   -> JPressures(F, s, c, r)
    [] c.op = "Export"      -> JExport(F, s, c, r)
    [] c.op = "ByCells"     -> JByCells(F, c, r, memo)
    [] c.op = "CellProps"   -> JCellProps(F, s, c, r)
    [] c.op = "EdgeProps"   -> JEdgeProps(F, s, c, r)
    [] c.op = "EdgesId"     -> JEdgesId(F, c, r)
    [] c.op = "LogForce"    -> JLogForce(s, c, r)
    [] c.op = "EdgeForce"   -> JEdgeForce(F, s, c, r)
    [] OTHER                -> {}

Judge(F, s, c, r, post, memo) ==
  (IF c.op \in Updates THEN JUpdate(F, s, c, r, post)
   ELSE JQuery(F, s, c, r, memo) \cup If(~SameState(s, post), T("REP.query_pure", "")))    \* queries never change the state
  \cup If(F.gtflag /\ ~GTIsMean(F, post), T("REP.gt_is_mean", ""))

JudgeFrame(F, s) ==
  If(~DefaultsOK(F, s), T("REP.frame.defaults", ""))
  \cup If(F.gtflag /\ ~GTIsMean(F, s), T("REP.gt_is_mean", ""))

Fails(inst) == {x[1] : x \in {y \in inst : y[2] = ""}}
Known(inst) == {x[2] \o ":" \o x[1] : x \in {y \in inst : y[2] # ""}}

\* clauses an event exercises (coverage accounting)
HitsOf(F, s, c, r) ==
  CASE c.op \in Updates  -> IF r.raised # "" THEN {"REP.raised", "REP.raise_keeps_state"}
                            ELSE {"REP.state." \o c.op} \cup (IF F.gtflag THEN {"REP.gt_is_mean"} ELSE {})
                                 \cup (IF c.op = "Solve" /\ \E i \in 1..Len(c.g) : c.g[i] = MinusOne
                                       THEN {"REP.state.Solve.excluded"} ELSE {})
    [] c.op = "ByCells"  -> IF c.a = c.b THEN {}
                            ELSE {"REP.query_pure", "REP.by_cells.symmetric",
                                  IF Between(F, c.a, c.b) = {} THEN "REP.by_cells.none" ELSE "REP.by_cells.found"}
                                 \cup (IF Cardinality(Between(F, c.a, c.b)) > 1 THEN {"REP.by_cells.several"} ELSE {})
    [] c.op = "LogForce" -> {"REP.query_pure", IF s.hasF THEN "REP.log_force.rows" ELSE "REP.log_force.before_solve"}
    [] c.op = "Export"   -> {"REP.query_pure", "REP.export.file", "REP.export.rows", "REP.export.values"}
    [] c.op = "CellProps" -> {"REP.query_pure", "REP.cell_props.rows", "REP.cell_props.pressure"}
                             \cup (IF F.geom THEN {"REP.cell_props.geometry"} ELSE {})
                             \cup (IF F.geom /\ c.wb THEN {"REP.cell_props.center"} ELSE {})
    [] c.op = "EdgeProps" -> {"REP.query_pure", "REP.edge_props.rows", "REP.edge_props.values"}
                             \cup (IF F.geom THEN {"REP.edge_props.position"} ELSE {})
    [] c.op = "Tensions"  -> {"REP.query_pure", "REP.tensions.rows", "REP.tensions.values",
                              IF s.hasF THEN "REP.tensions.after_solve" ELSE "REP.tensions.before_solve"}
    [] c.op = "GT"        -> {"REP.query_pure", "REP.gt.rows", "REP.gt.values"}
    [] c.op = "Pressures" -> {"REP.query_pure", "REP.pressures.rows", "REP.pressures.values"}
    [] c.op = "BigEdges"  -> {"REP.query_pure", "REP.big_edges.type", "REP.big_edges.rows"}
    [] c.op \in {"External", "ExternalIds"} -> {"REP.query_pure", "REP.external.rows"}
    [] c.op = "EdgesId"   -> {"REP.query_pure", "REP.edges_id"}
    [] c.op = "EdgeForce" -> IF s.hasF THEN {"REP.query_pure", "REP.edge_force"} ELSE {}
    [] OTHER              -> {}

(* ======================================================================= *)
(* I: what the code does                                                   *)
(* ======================================================================= *)
Res0 == [raised |-> "", kind |-> "", ids |-> <<>>, cols |-> <<>>, rows |-> <<>>, rows2 |-> <<>>, j |-> 0]
Raise(x) == [Res0 EXCEPT !.raised = x]
Tab(cols, rows) == [Res0 EXCEPT !.cols = cols, !.rows = rows]
SetMin(S) == CHOOSE x \in S : \A y \in S : x <= y

\* export_tensions: DataFrame.from_dict(store.items()), border filter through df.id, to_csv
IExport(F, s, isgt, wb) ==
  LET store == IF isgt THEN s.stGT ELSE s.stT IN
  IF store = <<>> THEN (IF wb THEN [Res0 EXCEPT !.kind = "file"] ELSE Raise("AttributeError"))
  ELSE [Tab(ColsExport, SelectSeq(store, LAMBDA row : wb \/ ~F.ext[row[1]])) EXCEPT !.kind = "file"]
\* get_big_edge_by_cells: common vertices with fewer than 3 mesh edges -> their interfaces -> list(set(..))[0]
\* (small integers hash to themselves: the smallest id)
IByCells(F, a, b) ==
  LET S == {j \in 1..F.nb : {a, b} \subseteq F.touch[j] /\ F.npt[j] > 2} IN
  IF S = {} THEN Raise("IndexError") ELSE [Res0 EXCEPT !.j = SetMin(S)]

IQuery(F, s, c) ==
  CASE c.op = "BigEdges"    -> [Res0 EXCEPT !.kind = IF c.wb THEN "dict" ELSE "list", !.ids = Listed(F, c.wb)]
    [] c.op \in {"External", "ExternalIds"} -> [Res0 EXCEPT !.kind = "list", !.ids = F.extl]
    [] c.op = "Tensions"    -> Tab(ColsTensions, DTensions(F, s, c.wb))
    [] c.op = "GT"          -> Tab(ColsGT, DGT(F, s, c.wb))
    [] c.op = "Pressures"   -> Tab(ColsPress, DPressures(F, s))
    [] c.op = "Export"      -> IExport(F, s, c.isgt, c.wb)
    [] c.op = "ByCells"     -> IByCells(F, c.a, c.b)
    [] c.op = "CellProps"   -> Tab(ColsCell, [k \in 1..F.nc |-> <<k, NoG, NoG, NoG, NoG, s.cP[k]>>] \o <<>>)
    [] c.op = "EdgeProps"   -> Tab(ColsEdge, [j \in 1..F.nb |-> <<j, NoG, NoG, s.iT[j], s.igt[j]>>] \o <<>>)
    [] c.op = "EdgesId"     -> [Res0 EXCEPT !.ids = F.edges[c.a]]
    [] c.op = "LogForce"    -> IF s.hasF THEN Tab(ColsLog, DLogForce(s)) ELSE Raise("AttributeError")
    [] c.op = "EdgeForce"   -> Raise("AttributeError")

IStep(F, s, c) ==
  CASE c.op = "AssignGT" ->
         IF c.wb THEN [res |-> Raise("AttributeError"), post |-> s]      \* enumerate(dict) yields the keys
         ELSE [res |-> Res0, post |-> AssignGTPost(F, s, c.g, FALSE)]
    [] c.op = "AssignGTSmall" ->
         IF c.wb THEN [res |-> Raise("AttributeError"), post |-> s]      \* big_edges_list holds lists of vertex ids
         ELSE [res |-> Res0, post |-> AssignGTSmallPost(F, s, FALSE)]
    [] c.op \in {"AssignPressures", "SolveP"} -> [res |-> Res0, post |-> AssignPressuresPost(F, s, c.g, c.map)]
    [] c.op = "AssignSmall" -> [res |-> Res0, post |-> AssignSmallPost(F, s, c.g)]
    [] c.op = "ToBig" ->
         [res |-> Res0, post |-> [s EXCEPT !.iT = [j \in 1..F.nb |-> MeanV(EdgeVals(F, s.eT, j))] \o <<>>]]
    [] c.op = "Solve" ->
         LET eT2 == [e \in 1..F.ne |-> LET p == F.posIn[F.owner[e]] IN IF p > 0 THEN Written(c.g[p]) ELSE s.eT[e]] \o <<>>
         IN  [res |-> Res0,
              post |-> [s EXCEPT !.eT = eT2, !.iT = [j \in 1..F.nb |-> MeanV(EdgeVals(F, eT2, j))] \o <<>>,
                                 !.hasF = TRUE, !.forces = c.g]]
    [] OTHER -> [res |-> IQuery(F, s, c), post |-> s]

\* the state a Frame is constructed with; egt0 / cgt0 = what the mesh edges and cells carry
InitState(F, egt0, cgt0) ==
  [egt |-> egt0, eT |-> [e \in 1..F.ne |-> Zero] \o <<>>,
   igt |-> [j \in 1..F.nb |-> IF F.gtflag THEN MeanV(EdgeVals(F, egt0, j)) ELSE Zero] \o <<>>,
   iT |-> [j \in 1..F.nb |-> Zero] \o <<>>,
   cgt |-> cgt0, cP |-> [c \in 1..F.nc |-> NoneV] \o <<>>,
   hasF |-> FALSE, forces |-> <<>>, stGT |-> <<>>, stT |-> <<>>]
=============================================================================

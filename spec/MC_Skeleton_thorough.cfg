SPECIFICATION Spec
CONSTANT N = 3
INVARIANT DrawnIsSuperset
INVARIANT CleanKeepsTopology
INVARIANT CleanIsMinimal
INVARIANT MinimalIsThin
INVARIANT JunctionSurvives
INVARIANT Emit
CHECK_DEADLOCK FALSE

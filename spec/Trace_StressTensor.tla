------------------------- MODULE Trace_StressTensor -------------------------
(***************************************************************************)
(* Trace validation for C18. Events of one case (same `case`):             *)
(*   Env       : geometry as read from the built frame (centroids, areas,  *)
(*               own cells and vector per interface), histogram edges,     *)
(*               grid size, radius.  Resets the per-case state.            *)
(*   Tensor    : one per call of stress_tensor(frame, grid, radius):       *)
(*               pressures p, tensions T on the frame at the call, the     *)
(*               returned dictionary `ent` (key string, xx, xy, yx, yy),   *)
(*               bins_centers `bc`; optional `lin` = [i, j, a, b]: this    *)
(*               run is claimed to be a*run_i + b*run_j (premise checked). *)
(*   Principal : Frame.calculate_stress_tensor: p, T, items of             *)
(*               Frame.principal_stress (key, eigenvalues, eigenvectors).  *)
(* Each event takes three TLC steps (tables -> expected tensors -> verdict)*)
(* so that every table is a normalised state value when it is used.        *)
(***************************************************************************)
EXTENDS StressTensor, TraceKit

VARIABLES l, st, env, g1, sel, runs, tab, cur
vars == <<l, st, env, g1, sel, runs, tab, cur>>

NoEnv == [n |-> 0]
Init == /\ l = 1 /\ st = 0 /\ env = NoEnv /\ g1 = <<>> /\ sel = <<>> /\ runs = <<>> /\ tab = <<>> /\ cur = <<>>
        /\ TLCSet(1, 1)

E == TR[l]
HaveEnv == env.n > 0
Usable(e) == HaveEnv /\ e.raised = "" /\ RunOK(env, e.p, e.T)

\* verdict line with accounting extras (npos: decided grid positions, nund: undecidable ones)
\* use: largest share (percent) of the Batchelor tolerance consumed at a judged position (margin accounting)
EmitY(e, fails, kf, hits, drift, rejected, npos, nund, use) ==
  PrintT("VJ " \o ToJson([case |-> e.case, ev |-> e.ev, fails |-> fails, kf |-> kf, hits |-> hits,
                          drift |-> drift, rejected |-> rejected, npos |-> npos, nund |-> nund, use |-> use]))
EmitX(e, fails, kf, hits, drift, rejected, npos, nund) == EmitY(e, fails, kf, hits, drift, rejected, npos, nund, 0)
MaxOf(S) == IF S = {} THEN 0 ELSE CHOOSE x \in S : \A y \in S : y <= x
UseAt(val, sq, ex) ==
  IF sq.ok /\ sq.s # {} /\ ex.ok /\ ValInR(val)
  THEN LET d == Max(Max(Abs(val[1] - ex.xx), Abs(val[4] - ex.yy)), Max(Abs(val[2] - ex.xy), Abs(val[3] - ex.xy)))
       IN  (100 * Min(d, 10000000)) \div ex.tol
  ELSE 0

Advance == /\ st' = 0 /\ l' = l + 1 /\ TLCSet(1, l + 1)

(* ------------------------------- Env ------------------------------------ *)
EnvA == /\ st = 0 /\ E.ev = "Env"
        /\ env' = IF EnvOK(E) THEN E ELSE NoEnv
        /\ g1' = IF EnvOK(E) THEN Geo1(E) ELSE <<>>
        /\ runs' = <<>> /\ sel' = <<>> /\ tab' = <<>> /\ cur' = <<>>
        /\ st' = 1 /\ UNCHANGED l
EnvB == /\ st = 1 /\ E.ev = "Env"
        /\ sel' = IF HaveEnv THEN SelTable(env, g1) ELSE <<>>
        /\ st' = 2 /\ UNCHANGED <<l, env, g1, runs, tab, cur>>
EnvC == /\ st = 2 /\ E.ev = "Env"
        /\ IF HaveEnv
           THEN LET Qs == 1..(env.G * env.G) IN
                EmitX(E, {}, {}, {}, GridDrift(env), FALSE,
                      Cardinality({q \in Qs : sel[q].ok}), Cardinality({q \in Qs : ~sel[q].ok}))
           ELSE EmitX(E, {}, {}, {}, {}, TRUE, 0, 0)
        /\ Advance /\ UNCHANGED <<env, g1, sel, runs, tab, cur>>

(* ------------------------------ Tensor ---------------------------------- *)
TenA == /\ st = 0 /\ E.ev = "Tensor"
        /\ tab' = IF Usable(E) THEN RunTab(env, g1, E.p, E.T) ELSE <<>>
        /\ st' = 1 /\ UNCHANGED <<l, env, g1, sel, runs, cur>>
TenB == /\ st = 1 /\ E.ev = "Tensor"
        /\ cur' = IF Usable(E) THEN [exp |-> ExpFn(env, g1, sel, tab), vals |-> ValsOf(env.G, E.ent)] ELSE <<>>
        /\ st' = 2 /\ UNCHANGED <<l, env, g1, sel, runs, tab>>

LinOf(e) ==      \* premise of the linearity clause, from logged data
  IF ~Has(e, "lin") THEN [on |-> FALSE]
  ELSE LET i == e.lin[1]  j == e.lin[2]  a == e.lin[3]  b == e.lin[4] IN
       IF /\ i \in 1..Len(runs) /\ j \in 1..Len(runs) /\ runs[i].ok /\ runs[j].ok
          /\ Abs(a) <= 4 * Q /\ Abs(b) <= 4 * Q
          /\ Combo(e.p, runs[i].p, runs[j].p, a, b) /\ Combo(e.T, runs[i].T, runs[j].T, a, b)
       THEN [on |-> TRUE, a |-> a, b |-> b, i |-> i, j |-> j]
       ELSE [on |-> FALSE]

CentresFail(e) ==    \* returned bins_centers are the mid points of the returned edges
  ~(/\ e.xe = env.xe /\ e.ye = env.ye                 \* the returned edges do not depend on the run
    /\ Len(e.bc) = 2 /\ Len(e.bc[1]) = env.G /\ Len(e.bc[2]) = env.G
    /\ \A r \in 1..env.G : Abs(e.bc[1][r] - g1.X[r]) <= 3 /\ Abs(e.bc[2][r] - g1.Y[r]) <= 3)

TenC == /\ st = 2 /\ E.ev = "Tensor"
        /\ IF ~HaveEnv THEN EmitX(E, {}, {}, {}, {}, TRUE, 0, 0)
           ELSE IF E.raised # "" THEN EmitX(E, {"C18.raised"}, {}, {}, {}, FALSE, 0, 0)
           ELSE IF ~RunOK(env, E.p, E.T) THEN EmitX(E, {}, {}, {}, {}, TRUE, 0, 0)
           ELSE
             LET G    == env.G
                 Qs   == 1..(G * G)
                 lin  == LinOf(E)
                 pure == Pure(E.p, E.T)
                 exq(q) == IF sel[q].ok THEN cur.exp[sel[q].s] ELSE NoExp
                 linq(q) == IF lin.on THEN [on |-> TRUE, a |-> lin.a, b |-> lin.b,
                                            v1 |-> runs[lin.i].vals[q], v2 |-> runs[lin.j].vals[q]]
                            ELSE [on |-> FALSE]
                 F    == [q \in Qs |-> TensorFailsAt(cur.vals[q], sel[q], exq(q), pure, E.p[1], linq(q))]
                 bad  == {q \in Qs : F[q] # {}}
                 kfq  == {q \in bad : KF_KeyCollision(G, PosRow(G, q), PosCol(G, q))}
                 dec  == {q \in Qs : sel[q].ok}
                 hits == {"C18.symmetric"}
                         \cup (IF \E q \in dec : sel[q].s = {} THEN {"C18.zero_iff_empty"} ELSE {})
                         \cup (IF \E q \in dec : sel[q].s # {} /\ exq(q).ok THEN {"C18.batchelor"} ELSE {})
                         \cup (IF pure /\ \E q \in dec : sel[q].s # {} THEN {"C18.pure_pressure"} ELSE {})
                         \cup (IF lin.on THEN {"C18.linear"} ELSE {})
                         \cup {"C18.centres"}
             IN  EmitY(E, UNION {F[q] : q \in bad \ kfq} \cup (IF CentresFail(E) THEN {"C18.centres"} ELSE {})
                          \cup (IF ~E.finite THEN {"C18.finite"} ELSE {}),
                       {"KF_KeyCollision:" \o cl : cl \in UNION {F[q] : q \in kfq}},
                       hits,
                       (IF Has(E, "lin") /\ ~lin.on THEN {"C18.linear_premise_not_met"} ELSE {})
                       \cup (IF Len(E.ent) # Cardinality(DistinctKeys(G)) THEN {"C18.key_model_mismatch"} ELSE {}),
                       dec = {}, Cardinality(dec), Cardinality(Qs \ dec),
                       MaxOf({UseAt(cur.vals[q], sel[q], exq(q)) : q \in Qs \ kfq}))
        /\ runs' = IF HaveEnv THEN Append(runs, IF Usable(E) THEN [ok |-> TRUE, p |-> E.p, T |-> E.T, vals |-> cur.vals]
                                                 ELSE [ok |-> FALSE])
                   ELSE runs
        /\ Advance /\ UNCHANGED <<env, g1, sel, tab, cur>>

(* ----------------------------- Principal -------------------------------- *)
PrA == /\ st = 0 /\ E.ev = "Principal"
       /\ tab' = IF Usable(E) THEN RunTab(env, g1, E.p, E.T) ELSE <<>>
       /\ st' = 1 /\ UNCHANGED <<l, env, g1, sel, runs, cur>>
PrB == /\ st = 1 /\ E.ev = "Principal"
       /\ cur' = IF Usable(E) THEN [exp |-> ExpFn(env, g1, sel, tab), at |-> ItemsAt(env, g1, E.items)] ELSE <<>>
       /\ st' = 2 /\ UNCHANGED <<l, env, g1, sel, runs, tab>>
PrC == /\ st = 2 /\ E.ev = "Principal"
       /\ IF ~HaveEnv THEN EmitX(E, {}, {}, {}, {}, TRUE, 0, 0)
          ELSE IF E.raised # "" THEN EmitX(E, {"C18.raised"}, {}, {}, {}, FALSE, 0, 0)
          ELSE IF ~RunOK(env, E.p, E.T) THEN EmitX(E, {}, {}, {}, {}, TRUE, 0, 0)
          ELSE
            LET G   == env.G
                Qs  == 1..(G * G)
                exq(q) == IF sel[q].ok THEN cur.exp[sel[q].s] ELSE NoExp
                F   == [q \in Qs |-> PrincipalFailsAt(cur.at[q], E.items, sel[q], exq(q))]
                bad == {q \in Qs : F[q] # {}}
                kfq == {q \in bad : KF_KeyCollision(G, PosRow(G, q), PosCol(G, q))}
                dec == {q \in Qs : sel[q].ok /\ exq(q).ok}
                \* an item whose key is the centre of no grid position
                stray == \E j \in 1..Len(E.items) : \A q \in Qs : j \notin cur.at[q]
            IN  EmitX(E, UNION {F[q] : q \in bad \ kfq} \cup (IF stray THEN {"C18.principal_key"} ELSE {}),
                      {"KF_KeyCollision:" \o cl : cl \in UNION {F[q] : q \in kfq}},
                      {"C18.principal_key"} \cup (IF dec # {} THEN {"C18.principal_is_eigen"} ELSE {}),
                      {}, dec = {}, Cardinality(dec), Cardinality(Qs \ dec))
       /\ Advance /\ UNCHANGED <<env, g1, sel, runs, tab, cur>>

Next == /\ l <= Len(TR)
        /\ \/ EnvA \/ EnvB \/ EnvC \/ TenA \/ TenB \/ TenC \/ PrA \/ PrB \/ PrC

Spec == Init /\ [][Next]_vars
Done == TLCGet(1) = Len(TR) + 1
=============================================================================

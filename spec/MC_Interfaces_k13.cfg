SPECIFICATION Spec
CONSTANT KS = {1, 3}
INVARIANT ModelMeshConsistent
INVARIANT ImplSatisfiesD
INVARIANT ThreeCopiesAgree
INVARIANT Emit
CHECK_DEADLOCK FALSE

--------------------------- MODULE MC_Interfaces ---------------------------
(***************************************************************************)
(* Bounded-exhaustive model check of the interface decomposition (C08) and *)
(* mesh consistency of the model builder (C09) over ALL sub-tissues of a   *)
(* catalogue tissue x interior-point counts KS:                            *)
(*    the implementation-shaped operators (I) satisfy the declarative      *)
(*    verdict (D):  C08Verdict(m, ImplFrame(m)) = {}.                      *)
(* Every leaf state is also emitted (`EJ {json}`) and replayed on the code.*)
(***************************************************************************)
EXTENDS Interfaces, SubTissue

CONSTANT KS
VARIABLES i, sub, k, m
vars == <<i, sub, k, m>>

LOCAL Rn(s) == {s[j] : j \in DOMAIN s}

(* ---- implementation-shaped frame (transcription of Frame.__post_init__, BigEdge) ---- *)
ImplExternal(mm, p) == (\E j \in DOMAIN p : NCells(mm, p[j]) < 2)
                       \/ ~(NCells(mm, p[1]) > 2 \/ NCells(mm, p[Len(p)]) > 2)
ImplBorderList(mm, ps) == {j \in DOMAIN ps : \E q \in DOMAIN ps[j] : NCells(mm, ps[j][q]) < 2}
ImplInternalList(mm, ps) == SeqOfSetSorted({j \in DOMAIN ps : j \notin ImplBorderList(mm, ps)
                                /\ (NCells(mm, ps[j][1]) > 2 \/ NCells(mm, ps[j][Len(ps[j])]) > 2)})
ImplOwnCells(mm, p) == IF Len(p) = 2 THEN SeqOfSetSorted(Rn(mm.oc[p[1]]) \cap Rn(mm.oc[p[2]]))
                       ELSE mm.oc[p[((Len(p) - 1) \div 2) + 1]]
ImplEdges(mm, p) == [j \in 1..(Len(p) - 1) |-> CHOOSE e \in Rn(mm.oe[p[j]]) : e \in Rn(mm.oe[p[j + 1]])]
OwnBig(ps, v) == {j \in DOMAIN ps : v \in Rn(ps[j])}
ImplLookupOne(mm, ps, a, b) ==
  LET va == {v \in Rn(mm.C[a]) : Deg(mm, v) < 3}
      vb == {v \in Rn(mm.C[b]) : Deg(mm, v) < 3}
      shared == UNION {OwnBig(ps, v) : v \in va \cap vb}
  IN  IF shared = {} THEN -1 ELSE CHOOSE j \in shared : TRUE
ImplFrame(mm) ==
  LET ps == ImplInterfaces(mm)
      internal == ImplInternalList(mm, ps)
      oc == [j \in DOMAIN ps |-> ImplOwnCells(mm, ps[j])]
      pairs == {<<oc[j][1], oc[j][2]>> : j \in {q \in DOMAIN ps : ~ImplExternal(mm, ps[q]) /\ Len(oc[q]) = 2}}
      look == LET RECURSIVE F(_) F(S) == IF S = {} THEN <<>> ELSE LET x == CHOOSE y \in S : TRUE IN
                     <<<<x[1], x[2], ImplLookupOne(mm, ps, x[1], x[2])>>,
                       <<x[2], x[1], ImplLookupOne(mm, ps, x[2], x[1])>>>> \o F(S \ {x})
              IN F(pairs)
  IN [ifaces |-> ps,
      ext_flag |-> [j \in DOMAIN ps |-> ImplExternal(mm, ps[j])],
      ext_ids |-> [j \in DOMAIN ps |-> j \in ImplBorderList(mm, ps)],
      internal |-> internal,
      own_cells |-> oc,
      edges |-> [j \in DOMAIN ps |-> ImplEdges(mm, ps[j])],
      table |-> SeqOfSetSorted({j \in DOMAIN ps : ~ImplExternal(mm, ps[j])}),
      table_raised |-> "",
      lookup |-> look]

NoMesh == [nv |-> 0]
Init == i = 1 /\ sub = {} /\ k = -1 /\ m = NoMesh

Pick == /\ i <= Base.nc
        /\ \/ sub' = sub \cup {i}
           \/ sub' = sub
        /\ i' = i + 1 /\ UNCHANGED <<k, m>>
ChooseK == /\ i = Base.nc + 1 /\ k = -1 /\ sub # {}
           /\ k' \in KS /\ UNCHANGED <<i, sub, m>>
Build == /\ k >= 0 /\ m = NoMesh
         /\ m' = SubMesh(sub, k)
         /\ UNCHANGED <<i, sub, k>>
Next == Pick \/ ChooseK \/ Build
Spec == Init /\ [][Next]_vars

Leaf == m # NoMesh

ModelMeshConsistent == Leaf => Consistent(m) = {}
ImplSatisfiesD      == Leaf => C08Verdict(m, ImplFrame(m)) = {}
ThreeCopiesAgree    == Leaf => LET ps == ImplInterfaces(m) IN
                          \A j \in DOMAIN ps : ImplExternal(m, ps[j]) = ~InternalPath(m, ps[j])
Emit == Leaf => PrintT("EJ " \o ToJson([base |-> Base.name, sub |-> sub, k |-> k,
                                        cells |-> SubCycles(sub), nifaces |-> Cardinality(Paths(m)),
                                        ninternal |-> Cardinality({p \in Paths(m) : InternalPath(m, p)})]))

KnownFindingReachable == Leaf => C08KF(m, ImplFrame(m)) = {}   \* expected to be VIOLATED (vacuity guard)
=============================================================================

--------------------------- MODULE FixedPoint ---------------------------
(***************************************************************************)
(* Fixed-point arithmetic for TLC (32-bit integers, overflow is an error). *)
(* Real quantities are logged as integers at scale Q = 10^6, |v| < 2000.   *)
(* Mul(a, b) = a*b/Q is computed from 10^3 limbs so that no intermediate   *)
(* exceeds 2^31 as long as the result fits.                                *)
(***************************************************************************)
EXTENDS Integers, Sequences, FiniteSets

Q  == 1000000
K  == 1000

Abs(x)    == IF x < 0 THEN -x ELSE x
Sgn(x)    == IF x < 0 THEN -1 ELSE IF x > 0 THEN 1 ELSE 0
Max(a, b) == IF a >= b THEN a ELSE b
Min(a, b) == IF a <= b THEN a ELSE b

\* truncating division towards zero (TLC's \div floors)
TDiv(a, b) == IF (a < 0) = (b < 0) THEN Abs(a) \div Abs(b) ELSE -(Abs(a) \div Abs(b))

\* a*b/Q for |a|,|b| < 2^31, exact to 2 ulp, safe when the result fits
MulAbs(a, b) ==
  LET ah == a \div K  al == a % K
      bh == b \div K  bl == b % K
  IN  ah * bh + (ah * bl + al * bh) \div K + (al * bl) \div Q
Mul(a, b) == IF (a < 0) = (b < 0) THEN MulAbs(Abs(a), Abs(b)) ELSE -MulAbs(Abs(a), Abs(b))

\* |a - b| <= tol, total on the whole 32-bit range (a - b itself overflows for large values of opposite sign)
Close(a, b, tol) == IF (a >= 0) = (b >= 0) THEN Abs(a - b) <= tol
                    ELSE Abs(a) <= tol /\ Abs(b) <= tol /\ Abs(a) <= tol - Abs(b)

\* integer square root (floor) by bisection, n >= 0, n < 2^31
RECURSIVE ISqrtBis(_, _, _)
ISqrtBis(n, lo, hi) ==
  IF hi - lo <= 1 THEN lo
  ELSE LET mid == (lo + hi) \div 2
       IN  IF mid <= n \div mid THEN ISqrtBis(n, mid, hi) ELSE ISqrtBis(n, lo, mid)
ISqrt(n) == IF n <= 0 THEN 0 ELSE IF n = 1 THEN 1 ELSE ISqrtBis(n, 1, Min(n, 46341))

\* fixed-point division a/b (both at scale Q): a*Q/b by long division, |b| < 2*10^8
RECURSIVE FDivDigits(_, _, _, _)
FDivDigits(r, b, q, n) ==
  IF n = 0 THEN q ELSE FDivDigits((r * 10) % b, b, q * 10 + (r * 10) \div b, n - 1)
FDivAbs(a, b) == (a \div b) * Q + FDivDigits(a % b, b, 0, 6)
FDiv(a, b) == IF (a < 0) = (b < 0) THEN FDivAbs(Abs(a), Abs(b)) ELSE -FDivAbs(Abs(a), Abs(b))

\* sqrt of a fixed-point number (result fixed-point), two Newton steps from ISqrt(a)*K
FSqrt(a) ==
  IF a <= 0 THEN 0
  ELSE LET s0 == Max(ISqrt(a) * K, 1)
           s1 == (s0 + FDiv(a, s0)) \div 2
           s2 == (s1 + FDiv(a, s1)) \div 2
       IN  s2

RECURSIVE SumSeq(_)
SumSeq(s) == IF Len(s) = 0 THEN 0 ELSE Head(s) + SumSeq(Tail(s))

RECURSIVE SumFrom(_, _, _)
SumFrom(f(_), i, n) == IF i > n THEN 0 ELSE f(i) + SumFrom(f, i + 1, n)

RECURSIVE MaxFrom(_, _, _)
MaxFrom(f(_), i, n) == IF i > n THEN 0 ELSE Max(f(i), MaxFrom(f, i + 1, n))

\* fixed-point dot / cross of pairs <<x, y>>
Dot(a, b)   == Mul(a[1], b[1]) + Mul(a[2], b[2])
Cross(a, b) == Mul(a[1], b[2]) - Mul(a[2], b[1])
Norm2(a)    == Dot(a, a)
Norm(a)     == FSqrt(Norm2(a))

\* exact integer dot / cross for small model-frame integers
IDot(a, b)   == a[1] * b[1] + a[2] * b[2]
ICross(a, b) == a[1] * b[2] - a[2] * b[1]

Range(s) == {s[i] : i \in DOMAIN s}
SeqToSet(s) == Range(s)
=============================================================================

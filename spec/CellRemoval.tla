----------------------------- MODULE CellRemoval -----------------------------
(***************************************************************************)
(* Removal of cells from a frame of a ForSys session (extension check      *)
(* `edits2`): ForSys.remove_cell(frame_number, cell_id) and                *)
(* ForSys.remove_outermost_edges(frame_number, 1).                         *)
(*                                                                         *)
(* D (declarative).  Removing a set of cells from frame t leaves, in frame *)
(*   t, exactly the mesh of the remaining cells (the sub-tissue): every    *)
(*   remaining cell keeps its vertex cycle, the vertices and mesh edges    *)
(*   are those lying on a remaining cell (what belonged to removed cells   *)
(*   only is gone, what is shared stays), the mesh is Consistent           *)
(*   (Mesh.tla), the frame's interfaces are the decomposition of that      *)
(*   sub-tissue (Interfaces.tla: Paths), every other frame of the session  *)
(*   is untouched and nothing is raised.  remove_outermost_edges(t, 1)     *)
(*   removes exactly the cells flagged is_border in frame t.               *)
(*   Everything is stated on LABELS (vertex ids / cell ids of the          *)
(*   projected meshes), never on dictionary positions.                     *)
(* I (implementation-shaped).  Transcription of forsys.py on the concrete  *)
(*   mesh states of MeshEdits.tla, including the places where the code     *)
(*   says `self.frames[0]` although `frame_number` is meant, and the       *)
(*   rebuild of the Frame on the same Vertex objects.                      *)
(* MC_CellRemoval checks I against D on catalogue tissues and shows that   *)
(* the restriction used by D is SubTissue.tla's SubMesh of the remaining   *)
(* cell set.                                                               *)
(***************************************************************************)
EXTENDS MeshEdits, SubTissue

LOCAL Rs(q) == {q[i] : i \in DOMAIN q}

(******************************* label space *******************************)
\* m: a projected mesh (Mesh.tla fields) with labels m.vid[v] (vertex ids) and m.cid[c] (cell ids)
VLab(m, v)   == IF v \in 1..m.nv THEN m.vid[v] ELSE -1            \* a reference that does not resolve
CellLabs(m)  == {m.cid[c] : c \in Ce(m)}
VertLabs(m)  == {m.vid[v] : v \in V(m)}
CycL(m, c)   == [i \in DOMAIN m.C[c] |-> VLab(m, m.C[c][i])]
CellByLab(m, lab) == CHOOSE c \in Ce(m) : m.cid[c] = lab
EdgePairsL(m) == {{VLab(m, m.E[e][1]), VLab(m, m.E[e][2])} : e \in Ed(m)}
CellsOf(m, keep) == {c \in Ce(m) : m.cid[c] \in keep}

\* equal as cycles: up to rotation and reversal
CycEq(a, b) ==
  LET n == Len(a) IN
  /\ Len(b) = n
  /\ n = 0 \/ \E r \in 1..n :
        \/ \A i \in 1..n : b[i] = a[((i + r - 2) % n) + 1]
        \/ \A i \in 1..n : b[i] = a[((r - i + n) % n) + 1]

PairsOfL(cyc) == {{cyc[i], cyc[Nxt(i, Len(cyc))]} : i \in DOMAIN cyc}
ExpectedVL(mb, keep) == UNION {Rs(CycL(mb, c)) : c \in CellsOf(mb, keep)}
ExpectedEL(mb, keep) == UNION {PairsOfL(CycL(mb, c)) : c \in CellsOf(mb, keep)}

\* ma is exactly the mesh of the cells `keep` (labels) of mb
CellsKeptOK(mb, ma, keep) == /\ Cardinality(CellLabs(ma)) = ma.nc /\ CellLabs(ma) = keep
                             /\ \A lab \in keep : CycEq(CycL(ma, CellByLab(ma, lab)), CycL(mb, CellByLab(mb, lab)))
VerticesKeptOK(mb, ma, keep) == Cardinality(VertLabs(ma)) = ma.nv /\ VertLabs(ma) = ExpectedVL(mb, keep)
EdgesKeptOK(mb, ma, keep) == Cardinality(EdgePairsL(ma)) = ma.ne /\ EdgePairsL(ma) = ExpectedEL(mb, keep)
RestrictionOK(mb, ma, keep) == CellsKeptOK(mb, ma, keep) /\ VerticesKeptOK(mb, ma, keep) /\ EdgesKeptOK(mb, ma, keep)

\* the restriction as a mesh of its own (dense indices in the order of mb, labels carried along)
RestrictMesh(mb, keep) ==
  LET kc   == SortedAcc(CellsOf(mb, keep), mb.nc, 1, <<>>)
      used == UNION {Rs(mb.C[kc[j]]) : j \in DOMAIN kc}
      rk   == RankAcc(used, mb.nv, 1, 0, <<>>)
      us   == SortedAcc(used, mb.nv, 1, <<>>)
      cyc  == [j \in DOMAIN kc |-> [i \in DOMAIN mb.C[kc[j]] |-> rk[mb.C[kc[j]][i]]]]
  IN  MeshOfCycles(Len(us), cyc) @@ [vid |-> [i \in DOMAIN us |-> mb.vid[us[i]]],
                                     cid |-> [j \in DOMAIN kc |-> mb.cid[kc[j]]]]

\* interfaces in label space
PathsL(m) == {Can([j \in DOMAIN p |-> m.vid[p[j]]]) : p \in Paths(m)}
IfaceSetL(ifl) == {Can(ifl[i]) : i \in DOMAIN ifl}
DecompL(mb, keep, ifl) == /\ IfaceSetL(ifl) = PathsL(RestrictMesh(mb, keep))
                          /\ Cardinality(IfaceSetL(ifl)) = Len(ifl)

\* the premise of an edit: the frame's mesh is a clean cell complex (Consistent, and nothing but its cells)
CleanMesh(m) == /\ Consistent(m) = {}
                /\ Cardinality(CellLabs(m)) = m.nc /\ Cardinality(VertLabs(m)) = m.nv
                /\ \A c \in Ce(m) : Len(m.C[c]) >= 3
                /\ RestrictionOK(m, m, CellLabs(m))

(********************************** D **************************************)
RemovalClauses == {"E2.removed_mesh", "E2.other_frames_untouched", "E2.consistent", "E2.interfaces",
                   "E2.border_layer", "E2.raised"}
\* mb / ma: mesh of the named frame before / after; ifl: its interfaces after (label sequences);
\* keep: the cell labels that must remain; asked: for remove_outermost_edges the cells that must remain by the
\* flags of the named frame (= keep for remove_cell); untouched: every other frame's view is unchanged;
\* ifaceExtra: further interface checks of the caller (C08Verdict on the real Frame) failed
RemovalVerdict(mb, ma, ifl, keep, asked, raised, untouched, ifaceExtra) ==
  {c \in RemovalClauses :
     \/ c = "E2.raised" /\ raised # ""
     \/ c = "E2.other_frames_untouched" /\ ~untouched
     \/ raised = "" /\ \/ c = "E2.border_layer" /\ CellLabs(ma) # asked
                       \/ c = "E2.removed_mesh" /\ ~(keep \subseteq CellLabs(mb) /\ RestrictionOK(mb, ma, keep))
                       \/ c = "E2.consistent"   /\ Consistent(ma) # {}
                       \/ c = "E2.interfaces"   /\ (ifaceExtra \/ ~(keep \subseteq CellLabs(mb) /\ DecompL(mb, keep, ifl)))}

(***************************** known findings ******************************)
\* KF_FrameZero: remove_cell says `del self.frames[0].cells[cell_id]` and remove_outermost_edges reads the
\* is_border flags of `self.frames[0]`: for frame_number # 0 the cell disappears from frame 0 (which is not
\* rebuilt), stays in the named frame whose private vertices and edges are already deleted, and the rebuild of
\* the named frame raises KeyError.  Instance: frame_number # 0 and (something was raised, or frame 0 changed, or
\* - remove_outermost_edges - the flags of frame 0 differ from those of the named frame).
KF_FrameZero(t0, raised, frame0Changed, flagsDiffer) == t0 # 0 /\ (raised # "" \/ frame0Changed \/ flagsDiffer)

\* KF_SharedEndsEdgeKept: remove_cell deletes the mesh edges of the vertices that belong to the removed cell only;
\* a mesh edge of the removed cell(s) whose two ends both survive (each lies on a remaining cell) and that lies on no
\* remaining cell is never deleted: it stays as a dangling mesh edge that raises the degree of its ends.
KeptPairsL(mb, keep) == LET vl == ExpectedVL(mb, keep)  el == ExpectedEL(mb, keep)
                        IN  {pr \in EdgePairsL(mb) : pr \notin el /\ pr \subseteq vl}
KF_SharedEndsEdgeKept(mb, ma, keep) ==
  /\ keep \subseteq CellLabs(mb) /\ KeptPairsL(mb, keep) # {}
  /\ CellsKeptOK(mb, ma, keep) /\ VerticesKeptOK(mb, ma, keep)
  /\ Cardinality(EdgePairsL(ma)) = ma.ne
  /\ EdgePairsL(ma) = ExpectedEL(mb, keep) \cup KeptPairsL(mb, keep)
\* ... and the interfaces are then the decomposition of the mesh with the dangling edges (both ends of a kept edge
\* have become junctions), without the dangling edges themselves (create_edges_new walks along the cells)
KF_SharedEndsEdgeKeptIfaces(mb, ma, ifl, keep) ==
  /\ KF_SharedEndsEdgeKept(mb, ma, keep) /\ Consistent(ma) = {}
  /\ IfaceSetL(ifl) = {p \in PathsL(ma) : ~(Len(p) = 2 /\ {p[1], p[2]} \in KeptPairsL(mb, keep))}
  /\ Cardinality(IfaceSetL(ifl)) = Len(ifl)

\* fails -> [fails |-> unmatched clauses, kf |-> {"Matcher:clause"}]
RemovalTriage(fails, mb, ma, ifl, keep, t0, raised, frame0Changed, flagsDiffer, staleLookupOnly) ==
  LET fz  == IF fails # {} /\ KF_FrameZero(t0, raised, frame0Changed, flagsDiffer) THEN fails ELSE {}
      r1  == fails \ fz
      ke  == IF "E2.removed_mesh" \in r1 /\ raised = "" /\ KF_SharedEndsEdgeKept(mb, ma, keep)
             THEN {"E2.removed_mesh"} \cup
                  (IF "E2.interfaces" \in r1 /\ KF_SharedEndsEdgeKeptIfaces(mb, ma, ifl, keep) THEN {"E2.interfaces"} ELSE {})
             ELSE {}
      r2  == r1 \ ke
      sl  == IF "E2.interfaces" \in r2 /\ staleLookupOnly THEN {"E2.interfaces"} ELSE {}
  IN  [fails |-> r2 \ sl,
       kf |-> {"KF_FrameZero:" \o c : c \in fz} \cup {"KF_SharedEndsEdgeKept:" \o c : c \in ke}
              \cup {"KF_StaleOwnBigEdges:" \o c : c \in sl}]

(********************************** I **************************************)
(* A session: fr[u] the mesh state (MeshEdits.tla) of frame u - 1, big[u] the interface list (label sequences)  *)
(* of the Frame object currently stored for it, bord[u] the cell ids flagged is_border, err the escaped exception *)
Views(S) == [u \in DOMAIN S.fr |-> [m |-> AbstractOf(S.fr[u]), ifl |-> S.big[u]]]

\* Frame(...): create_edges_new looks the vertices of the cells up in the dictionary (KeyError), BigEdge takes the
\* first common mesh edge of consecutive interface vertices (IndexError)
FrameBuild(s) ==
  IF \E c \in DOMAIN s.C : \E i \in DOMAIN s.C[c] : s.C[c][i] \notin s.vd THEN [err |-> "KeyError", ifl |-> <<>>]
  ELSE LET m   == AbstractOf(s)
           bed == ImplInterfaces(m)
           gap == \E i \in DOMAIN bed : \E j \in 1..(Len(bed[i]) - 1) :
                     (Rs(m.oe[bed[i][j]]) \cap Rs(m.oe[bed[i][j + 1]])) \ {0} = {}
       IN  [err |-> IF gap THEN "IndexError" ELSE "",
            ifl |-> [i \in DOMAIN bed |-> [j \in DOMAIN bed[i] |-> m.vid[bed[i][j]]]]]

\* for vertex in cells[cell_id].vertices: if len(vertex.ownCells) < 2: assert ...; del every own edge; remember id
RECURSIVE RCVerts(_, _, _, _, _)
RCVerts(s, cid, cyc, i, vdel) ==
  IF ~OK(s) \/ i > Len(cyc) THEN [s |-> s, vdel |-> vdel]
  ELSE LET v == cyc[i] IN
       IF Len(s.V[v].oc) < 2
       THEN IF Len(s.V[v].oc) = 0 THEN [s |-> Fail(s, "IndexError"), vdel |-> vdel]
            ELSE IF s.V[v].oc[1] # cid THEN [s |-> Fail(s, "AssertionError"), vdel |-> vdel]
            ELSE RCVerts(FoldDelEdges(s, s.V[v].oe, 1), cid, cyc, i + 1, Append(vdel, s.V[v].id))
       ELSE RCVerts(s, cid, cyc, i + 1, vdel)
\* for vertex_id in list(set(vertex_to_delete)): del vertices[vertex_id]
RECURSIVE RCDelV(_, _, _)
RCDelV(s, ids, i) ==
  IF ~OK(s) \/ i > Len(ids) THEN s
  ELSE LET h == Lookup(s, ids[i]) IN RCDelV(IF h = 0 THEN Fail(s, "KeyError") ELSE DelVertex(s, h), ids, i + 1)

Settle(s) == [s EXCEPT !.err = ""]        \* the objects keep what was done to them when an exception escapes

\* the proposed repair of KF_SharedEndsEdgeKept: also delete the mesh edges between consecutive vertices of the
\* removed cell that no other cell shares
RECURSIVE Sweep(_, _, _, _)
Sweep(s, cid, cyc, i) ==
  IF ~OK(s) \/ i > Len(cyc) THEN s
  ELSE LET v == cyc[i]  w == cyc[Nxt(i, Len(cyc))]
           es == (Rs(s.V[v].oe) \cap Rs(s.V[w].oe)) \cap DOMAIN s.E
       IN  IF (Rs(s.V[v].oc) \cap Rs(s.V[w].oc)) \ {cid} = {}
           THEN Sweep(FoldDelEdges(s, SeqOfSetSorted(es), 1), cid, cyc, i + 1)
           ELSE Sweep(s, cid, cyc, i + 1)

\* remove_cell(frame_number = t0, cell_id = cid); zero == TRUE transcribes the code (`self.frames[0].cells`),
\* zero == FALSE is the repaired function (`self.frames[frame_number].cells`, with the sweep above)
RemoveCellG(S, t0, cid, zero) ==
  IF S.err # "" THEN S ELSE
  LET t == t0 + 1 IN
  IF t \notin DOMAIN S.fr THEN [S EXCEPT !.err = "KeyError"] ELSE
  LET s == S.fr[t] IN
  IF cid \notin DOMAIN s.C THEN [S EXCEPT !.err = "KeyError"] ELSE
  LET r  == RCVerts(s, cid, s.C[cid], 1, <<>>)
      s0 == IF OK(r.s) THEN RCDelV(r.s, SeqOfSetSorted(Rs(r.vdel)), 1) ELSE r.s
      s1 == IF OK(s0) /\ ~zero THEN Sweep(s0, cid, s.C[cid], 1) ELSE s0
      F1 == [S.fr EXCEPT ![t] = Settle(s1)]
  IN  IF ~OK(s1) THEN [S EXCEPT !.fr = F1, !.err = s1.err] ELSE
      LET w  == IF zero THEN 1 ELSE t
          z  == DelCell(F1[w], cid)
          F2 == [F1 EXCEPT ![w] = Settle(z)]
      IN  IF ~OK(z) THEN [S EXCEPT !.fr = F2, !.err = z.err] ELSE
          LET fb == FrameBuild(F2[t]) IN
          IF fb.err # "" THEN [S EXCEPT !.fr = F2, !.err = fb.err]
          ELSE [S EXCEPT !.fr = F2, !.big[t] = fb.ifl, !.bord[w] = @ \ {cid}]
RemoveCellI(S, t0, cid) == RemoveCellG(S, t0, cid, TRUE)

\* remove_outermost_edges(frame_number = t0, layers = 1): the ids of the flagged cells of frames[0] in dictionary order
RECURSIVE ROFold(_, _, _, _, _)
ROFold(S, t0, ids, i, zero) == IF S.err # "" \/ i > Len(ids) THEN S ELSE ROFold(RemoveCellG(S, t0, ids[i], zero), t0, ids, i + 1, zero)
RemoveOutermostG(S, t0, zero) ==
  IF S.err # "" THEN S ELSE
  LET w == IF zero THEN 1 ELSE t0 + 1 IN
  ROFold(S, t0, SelectSeq(S.fr[w].co, LAMBDA c : c \in S.bord[w]), 1, zero)
RemoveOutermostI(S, t0) == RemoveOutermostG(S, t0, TRUE)

\* the skeleton parser's rule for is_border: some vertex of the cell lists exactly one cell
OuterCells(s) == {c \in DOMAIN s.C : \E i \in DOMAIN s.C[c] : Len(s.V[s.C[c][i]].oc) = 1}
=============================================================================

---------------------------- MODULE MC_Primitives ----------------------------
(***************************************************************************)
(* Bounded exploration of the life-cycle machine of Primitives.tla.        *)
(*                                                                         *)
(* From NV0 fresh vertices TLC explores EVERY sequence of the operations   *)
(* named in OPS up to MAXDEPTH steps (breadth first, modulo equality of    *)
(* the reached <<heap, contract history>>, VIEW), arguments ranging over   *)
(* all vertices, the ids EIDS / CIDS / BIDS, all live object slots and all *)
(* vertex sequences of length <= CYCLEN (cell cycles, interface paths),    *)
(* including every call that is refused (raises).                          *)
(*                                                                         *)
(* Checked on the model:                                                   *)
(*   InvState     PJudgeState(..).fails = {}: no duplicated entries ever;  *)
(*                own lists = live objects containing the vertex, for      *)
(*                every id inside the contract, except instances matched   *)
(*                by a known-finding predicate                             *)
(*   InvDictView  exact own lists + no object alive outside its dict =>    *)
(*                the C09 clauses the primitives answer for                *)
(*   InvLaws      add_* idempotent and reporting, remove_* undoes add_*,   *)
(*                a refused call changes nothing (Vertex methods)          *)
(*   InvNav       next / previous are inverse cyclic successors            *)
(*   StepOK       (action property, EVERY transition) the declarative      *)
(*                clauses of PJudgeStep                                    *)
(*   G_*          vacuity guards: EXPECTED TO BE VIOLATED - each known-    *)
(*                finding matcher is reachable, i.e. the raw property      *)
(*                fails on the model (design-level counterexample, printed *)
(*                as `GJ {json}` and replayed on the real code)            *)
(* Every distinct state carries one history that reaches it (`path`, not   *)
(* in the VIEW); a sample is printed as `EJ {json}` and replayed on real   *)
(* forsys objects; with -simulate the walks of length MAXDEPTH are printed.*)
(***************************************************************************)
EXTENDS Primitives, Json

CONSTANTS NV0, NV, EIDS, CIDS, BIDS, MAXE, MAXC, CYCLEN, OPS, MAXDEPTH, EMITMOD, WALKS

VARIABLES st, hist, last, path
vars == <<st, hist, last, path>>
View == <<st, hist>>
\* with several workers TLC's breadth-first search is not level-synchronous: a state first reached by a longer history would be
\* expanded less deep. Keeping the depth in the view makes "every sequence up to MAXDEPTH" exact for any number of workers.
ViewD == <<st, hist, Len(path)>>

OpsAll   == POps
OpsEdges == {"add_edge", "remove_edge", "NewEdge", "DelEdge", "PinEdge", "UnpinEdge", "EdgeReplace"}
OpsCells == {"add_cell", "remove_cell", "NewCell", "DelCell", "PinCell", "UnpinCell", "CellReplace"}
OpsObjects == {"NewVertex", "NewEdge", "DelEdge", "PinEdge", "UnpinEdge", "EdgeReplace",
               "NewCell", "DelCell", "PinCell", "UnpinCell", "CellReplace", "NewBigEdge", "DropBigEdge"}
OpsBig   == {"NewEdge", "DelEdge", "NewCell", "DelCell", "NewBigEdge", "DropBigEdge", "add_big_edge", "remove_big_edge"}

Seqs(S, n) == UNION {{Mat(f) : f \in [1..m -> S]} : m \in 0..n}
NoCyc == <<>>

Cands ==
  LET W == 1..st.nv
      On(op) == op \in OPS
  IN
  (IF On("NewVertex") /\ st.nv < NV THEN {POp("NewVertex", 0, 0, 0, NoCyc)} ELSE {}) \cup
  {POp(op, i, a, 0, NoCyc) : op \in OPS \cap {"add_edge", "remove_edge"}, i \in EIDS, a \in W} \cup
  {POp(op, i, a, 0, NoCyc) : op \in OPS \cap {"add_cell", "remove_cell"}, i \in CIDS, a \in W} \cup
  {POp(op, i, a, 0, NoCyc) : op \in OPS \cap {"add_big_edge", "remove_big_edge"}, i \in BIDS, a \in W} \cup
  (IF On("NewEdge") /\ Cardinality(PLiveE(st)) < MAXE THEN {POp("NewEdge", i, a, b, NoCyc) : i \in EIDS, a \in W, b \in W} ELSE {}) \cup
  {POp(op, i, 0, 0, NoCyc) : op \in OPS \cap {"DelEdge", "PinEdge"}, i \in EIDS} \cup
  (IF On("UnpinEdge") THEN {POp("UnpinEdge", k, 0, 0, NoCyc) : k \in 1..MAXE} ELSE {}) \cup
  (IF On("EdgeReplace") THEN {POp("EdgeReplace", k, a, b, NoCyc) : k \in PLiveE(st), a \in W, b \in W} ELSE {}) \cup
  (IF On("NewCell") /\ Cardinality(PLiveC(st)) < MAXC THEN {POp("NewCell", i, 0, 0, c) : i \in CIDS, c \in Seqs(W, CYCLEN)} ELSE {}) \cup
  {POp(op, i, 0, 0, NoCyc) : op \in OPS \cap {"DelCell", "PinCell"}, i \in CIDS} \cup
  (IF On("UnpinCell") THEN {POp("UnpinCell", k, 0, 0, NoCyc) : k \in 1..MAXC} ELSE {}) \cup
  (IF On("CellReplace") THEN {POp("CellReplace", k, a, b, NoCyc) : k \in PLiveC(st), a \in W, b \in W} ELSE {}) \cup
  (IF On("NewBigEdge") THEN {POp("NewBigEdge", i, 0, 0, c) : i \in BIDS, c \in Seqs(W, CYCLEN)} ELSE {}) \cup
  (IF On("DropBigEdge") THEN {POp("DropBigEdge", i, 0, 0, NoCyc) : i \in BIDS} ELSE {})

NoLast == [o |-> POp("none", 0, 0, 0, NoCyc), ret |-> PNone, raised |-> "", unr |-> 0]
Init == st = PInit(NV0) /\ hist = PHist0 /\ last = NoLast /\ path = <<>>

Do(o) == \E r \in {PStep(st, o)} :
           /\ st' = r.s
           /\ hist' = PHistNext(hist, st, o, r)
           /\ last' = [o |-> o, ret |-> r.ret, raised |-> r.raised, unr |-> r.unr]
           /\ path' = Append(path, o)
Next == Len(path) < MAXDEPTH /\ \E o \in Cands : Do(o)
Spec == Init /\ [][Next]_vars

(* ------------------------------ properties ------------------------------ *)
TypeOK == /\ st.nv \in NV0..NV /\ Len(st.oe) = st.nv /\ Len(st.oc) = st.nv /\ Len(st.ob) = st.nv
          /\ Len(st.E) <= MAXE + 1 /\ Len(st.C) <= MAXC + 1
          /\ \A k \in DOMAIN st.E : PLive(st.E[k]) \/ st.E[k] = PFreeE
          /\ \A k \in DOMAIN st.C : PLive(st.C[k]) \/ st.C[k] = PFreeC
          /\ (Len(st.E) > 0 => PLive(st.E[Len(st.E)])) /\ (Len(st.C) > 0 => PLive(st.C[Len(st.C)]))
          \* a dict holds at most one object per key
          /\ \A k1, k2 \in DOMAIN st.E : (k1 # k2 /\ st.E[k1].d /\ st.E[k2].d) => st.E[k1].id # st.E[k2].id
          /\ \A k1, k2 \in DOMAIN st.C : (k1 # k2 /\ st.C[k1].d /\ st.C[k2].d) => st.C[k1].id # st.C[k2].id

InvState    == PJudgeState(st, hist).fails = {}
InvDictView == PDictViewOK(st)
InvNav == LET ob == PObs(st) IN
          \A k \in PLiveC(st) : (NoDup(st.C[k].vs) /\ ob.sg[k] # 0) => PDNavOK(st.C[k].vs, ob.sg[k], ob.nx[k], ob.pv[k])
\* zero-area cycles (two vertices, repeated vertices): next = previous = the vertex itself (recorded behaviour)
InvNavFlat == LET ob == PObs(st) IN
              \A k \in PLiveC(st) : ob.sg[k] = 0 => \A h \in PRg(st.C[k].vs) : ob.nx[k][h] = h /\ ob.pv[k][h] = h
InvLaws ==
  \A kd \in {"e", "c", "b"} : \A h \in 1..st.nv : \A i \in (CASE kd = "e" -> EIDS [] kd = "c" -> CIDS [] OTHER -> BIDS) :
     LET r1 == PAdd(st, kd, h, i)
         r2 == PAdd(r1.s, kd, h, i)
         r3 == PRemove(r1.s, kd, h, i)
         r0 == PRemove(st, kd, h, i)
     IN  /\ r1.ret = PBool(i \notin PRg(PGet(st, kd, h))) /\ (r1.ret = PBool(FALSE) => r1.s = st)
         /\ r2.s = r1.s /\ r2.ret = PBool(FALSE)                                      \* idempotent
         /\ r3.raised = "" /\ (r1.ret = PBool(TRUE) => r3.s = st)                     \* remove undoes add
         /\ (r0.raised # "" <=> i \notin PRg(PGet(st, kd, h))) /\ (r0.raised # "" => r0.s = st)
         /\ (r0.raised = "" => i \notin PRg(PGet(r0.s, kd, h)))                       \* no duplicate was there

(* --- Primitives.tla agrees with the primitives of MeshEdits.tla (C09's model of the same code, without lifetimes) --- *)
ME == INSTANCE MeshEdits
LiveIdsE(s) == {s.E[k].id : k \in PLiveE(s)}
LiveIdsC(s) == {s.C[k].id : k \in PLiveC(s)}
\* a heap in which every live object sits in its dict, as a MeshEdits state (vertex id = handle; dict order of cells unknown)
ToME(s, err) == [V  |-> [h \in 1..s.nv |-> [id |-> h, oe |-> s.oe[h], oc |-> s.oc[h], pos |-> PPos(h)]],
                 vd |-> 1..s.nv,
                 E  |-> [i \in LiveIdsE(s) |-> LET x == s.E[PDictSlot(s.E, i)] IN <<x.a, x.b>>],
                 C  |-> [i \in LiveIdsC(s) |-> s.C[PDictSlot(s.C, i)].vs],
                 co |-> SeqOfSetSorted(LiveIdsC(s)),
                 err |-> err]
SameME(x, y) == x.V = y.V /\ x.E = y.E /\ x.C = y.C /\ x.err = y.err
InvRefinesMeshEdits ==
  PNoZombie(st) =>
    \A o \in Cands :
       LET m == ToME(st, "")
           r == PStep(st, o)
       IN  CASE ~PNoZombie(r.s) -> TRUE              \* an object survives its dict entry: outside MeshEdits
             [] o.op = "NewEdge" /\ o.i \notin LiveIdsE(st) -> SameME(ME!AddEdge(m, o.i, o.a, o.b), ToME(r.s, r.raised))
             [] o.op = "DelEdge" -> SameME(ME!DelEdge(m, o.i), ToME(r.s, r.raised))
             [] o.op = "NewCell" /\ o.i \notin LiveIdsC(st) /\ Len(o.cyc) >= 2 -> SameME(ME!AddCell(m, o.i, o.cyc), ToME(r.s, r.raised))
             [] o.op = "DelCell" -> SameME(ME!DelCell(m, o.i), ToME(r.s, r.raised))
             [] o.op = "EdgeReplace" -> SameME(ME!EdgeReplaceVertex(m, st.E[o.i].id, o.a, o.b), ToME(r.s, r.raised))
             [] o.op = "CellReplace" -> SameME(ME!CellReplaceVertex(m, st.C[o.i].id, o.a, o.b), ToME(r.s, r.raised))
             [] OTHER -> TRUE

StepFails == PJudgeStep(st, hist, last'.o, st', last'.ret, last'.raised, last'.unr).fails
StepOK == [][StepFails = {}]_vars

(* ------------------------------- emission ------------------------------- *)
RECURSIVE SumCyc(_, _)
SumCyc(c, j) == IF j > Len(c) THEN 0 ELSE 3 * j * c[j] + SumCyc(c, j + 1)
OpSeq == <<"NewVertex", "add_edge", "remove_edge", "add_cell", "remove_cell", "add_big_edge", "remove_big_edge",
           "NewEdge", "DelEdge", "PinEdge", "UnpinEdge", "EdgeReplace",
           "NewCell", "DelCell", "PinCell", "UnpinCell", "CellReplace", "NewBigEdge", "DropBigEdge">>
OpCode(op) == CHOOSE j \in DOMAIN OpSeq : OpSeq[j] = op
HashOp(o) == 31 * OpCode(o.op) + 7 * o.i + 13 * o.a + 17 * o.b + SumCyc(o.cyc, 1)
RECURSIVE HashPath(_, _)
HashPath(p, j) == IF j > Len(p) THEN 0 ELSE (2 * j + 1) * HashOp(p[j]) + HashPath(p, j + 1)
Tags == LET js == PJudgeState(st, hist) IN
        js.kf \cup (IF last.unr > 0 THEN {"unr"} ELSE {}) \cup (IF last.raised # "" THEN {"refused"} ELSE {})
           \cup (IF ~PNoZombie(st) THEN {"zombie"} ELSE {})
Line(tag) == PrintT(tag \o " " \o ToJson([nv0 |-> NV0, path |-> path, tags |-> Tags]))
Interesting == PJudgeState(st, hist).kf # {} \/ last.unr > 0 \/ ~PNoZombie(st)
Emit == (path # <<>> /\ ~WALKS /\ (HashPath(path, 1) % EMITMOD = 0 \/ (Interesting /\ HashPath(path, 1) % ((EMITMOD \div 8) + 1) = 0)))
           => Line("EJ")
EmitWalk == (WALKS /\ Len(path) = MAXDEPTH) => Line("EJ")

(* ---------- vacuity guards: EXPECTED to be violated (print the history, then fail) ---------- *)
HasKF(m) == \E c \in {"PRIM.own_edges_exact", "PRIM.own_cells_exact", "PRIM.own_big_exact"} :
               (m \o ":" \o c) \in PJudgeState(st, hist).kf
G_SameIdAlive            == HasKF("KF_SameIdAlive") => (Line("GJ") /\ FALSE)
G_CellReplaceKeepsOld    == HasKF("KF_CellReplaceKeepsOld") => (Line("GJ") /\ FALSE)
G_BigEdgeNeverDeregisters == HasKF("KF_BigEdgeNeverDeregisters") => (Line("GJ") /\ FALSE)
\* a deleted edge that is still referenced elsewhere keeps its registrations: the dict view is inconsistent
G_Zombie == (~PNoZombie(st) /\ Consistent(PAbstract(st)) \cap PrimC09 # {}) => (Line("GJ") /\ FALSE)
\* a destructor that raises (swallowed)
G_Unraisable == last.unr > 0 => (Line("GJ") /\ FALSE)
=============================================================================

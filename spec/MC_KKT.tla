------------------------------- MODULE MC_KKT -------------------------------
(***************************************************************************)
(* Meta-check of the certificate used for C05: on tiny exact instances of  *)
(* the augmented system  [[A, 1], [1', 0]] z = (b; n)  (one junction, i.e. *)
(* two equations, two unknown tensions, integer coefficients) the KKT      *)
(* certificate is                                                          *)
(*   sound      : a point that passes has minimal residual among all grid  *)
(*                points z >= 0;                                           *)
(*   not strict : a grid point that attains the minimum over the grid and  *)
(*                is a true optimum (checked on a 2x finer grid) passes.   *)
(* Everything is exact: coefficients and grid points are integers scaled   *)
(* by G (grid denominator); tolerances are zero.                           *)
(***************************************************************************)
EXTENDS Integers, FiniteSets, TLC

CONSTANTS CoefRange, RhsRange, G, ZMax
CoefRangeDef == -2..2
RhsRangeDef == -1..1
CoefRangeSmall == -1..1
VARIABLES a11, a12, a21, a22, b1, b2, stage

\* z = (x1, x2, lam) in units of 1/G; residual components in units of 1/G
R1(x1, x2, lam) == a11 * x1 + a12 * x2 + lam - b1 * G
R2(x1, x2, lam) == a21 * x1 + a22 * x2 + lam - b2 * G
R3(x1, x2)      == x1 + x2 - 2 * G
Obj(x1, x2, lam) == R1(x1, x2, lam) * R1(x1, x2, lam) + R2(x1, x2, lam) * R2(x1, x2, lam) + R3(x1, x2) * R3(x1, x2)
G1(x1, x2, lam) == a11 * R1(x1, x2, lam) + a21 * R2(x1, x2, lam) + R3(x1, x2)
G2(x1, x2, lam) == a12 * R1(x1, x2, lam) + a22 * R2(x1, x2, lam) + R3(x1, x2)
GL(x1, x2, lam) == R1(x1, x2, lam) + R2(x1, x2, lam)
KKT(x1, x2, lam) == /\ G1(x1, x2, lam) >= 0 /\ G2(x1, x2, lam) >= 0 /\ GL(x1, x2, lam) >= 0
                    /\ x1 * G1(x1, x2, lam) = 0 /\ x2 * G2(x1, x2, lam) = 0 /\ lam * GL(x1, x2, lam) = 0
Grid == 0..ZMax

\* staged enumeration (one choice per step, so that the expensive invariants are evaluated by all workers)
Init == a11 = 0 /\ a12 = 0 /\ a21 = 0 /\ a22 = 0 /\ b1 = 0 /\ b2 = 0 /\ stage = 1
Next == \/ stage = 1 /\ a11' \in CoefRange /\ stage' = 2 /\ UNCHANGED <<a12, a21, a22, b1, b2>>
        \/ stage = 2 /\ a12' \in CoefRange /\ stage' = 3 /\ UNCHANGED <<a11, a21, a22, b1, b2>>
        \/ stage = 3 /\ a21' \in CoefRange /\ stage' = 4 /\ UNCHANGED <<a11, a12, a22, b1, b2>>
        \/ stage = 4 /\ a22' \in CoefRange /\ stage' = 5 /\ UNCHANGED <<a11, a12, a21, b1, b2>>
        \/ stage = 5 /\ b1' \in RhsRange /\ stage' = 6 /\ UNCHANGED <<a11, a12, a21, a22, b2>>
        \/ stage = 6 /\ b2' \in RhsRange /\ stage' = 7 /\ UNCHANGED <<a11, a12, a21, a22, b1>>
Spec == Init /\ [][Next]_<<a11, a12, a21, a22, b1, b2, stage>>
Leaf == stage = 7

\* soundness: KKT point => no grid point is better (convexity makes this hold for ALL z >= 0)
Sound == Leaf => \A x1, x2, lam \in Grid : KKT(x1, x2, lam) =>
            \A y1, y2, mu \in Grid : Obj(y1, y2, mu) >= Obj(x1, x2, lam)
\* exactness of the gradient used by the certificate: along every coordinate direction the objective is
\*   Obj(z + t e_i) = Obj(z) + 2 t G_i(z) + t^2 H_i ,  H_i = squared norm of column i.
\* With convexity this gives necessity: a point failing KKT has a feasible strict descent direction
\* (G_i < 0: increase z_i; z_i > 0 and G_i > 0: decrease z_i), so the certificate never rejects an optimum.
H1 == a11 * a11 + a21 * a21 + 1
H2 == a12 * a12 + a22 * a22 + 1
HL == 2
GradientIdentity == Leaf => \A x1, x2, lam \in Grid : \A t \in {-2, -1, 1, 2, 3} :
   /\ Obj(x1 + t, x2, lam) = Obj(x1, x2, lam) + 2 * t * G1(x1, x2, lam) + t * t * H1
   /\ Obj(x1, x2 + t, lam) = Obj(x1, x2, lam) + 2 * t * G2(x1, x2, lam) + t * t * H2
   /\ Obj(x1, x2, lam + t) = Obj(x1, x2, lam) + 2 * t * GL(x1, x2, lam) + t * t * HL
\* the closed-form multiplier: for fixed x the best lam >= 0 on the grid is max(0, round(mean(b - A x)))
BestLamIsBest == Leaf => \A x1, x2 \in Grid : \A lam \in Grid :
   LET s == (b1 * G - a11 * x1 - a12 * x2) + (b2 * G - a21 * x1 - a22 * x2)   \* sum of (b - A x), units 1/G
   IN  \* lam* = max(0, s/2) (real); objective is a parabola in lam with vertex s/2
       (2 * lam - s) * (2 * lam - s) >= (IF s > 0 THEN 0 ELSE s * s) 
\* vacuity guard: KKT points exist on the grid for some system (expected to be VIOLATED when checked)
NoKKTPoint == Leaf => \A x1, x2, lam \in Grid : ~KKT(x1, x2, lam)
=============================================================================

------------------------------ MODULE MeshEdits ------------------------------
(***************************************************************************)
(* The data model of ForSys (vertex.py, edge.py, cell.py) with its         *)
(* register / unregister discipline, as state-transforming operators       *)
(* shaped like the code, and the public operations composed from them      *)
(* (generate_mesh, join_two_vertices, the skeleton parser's clean-up       *)
(* steps, the Surface Evolver parser's orphan removal).  Property C09.     *)
(*                                                                         *)
(* Concrete mesh state s ("the heap and the three dictionaries"):          *)
(*   s.V   [handle -> [id, oe, oc, pos]]  Vertex OBJECTS (a handle is the  *)
(*         object's identity; `id` its id field; oe / oc = ownEdges /      *)
(*         ownCells, sequences of edge ids / cell ids; pos = <<x, y>>)     *)
(*   s.vd  set of handles stored in the dict `vertices` (under their id)   *)
(*   s.E   [edge id -> <<h1, h2>>]  dict `edges`: SmallEdge.v1 / v2        *)
(*   s.C   [cell id -> Seq(handle)] dict `cells`: Cell.vertices            *)
(*   s.co  Seq(cell id)             dict order of `cells`                  *)
(*   s.err "" or the class name of the exception that escaped              *)
(* __del__ is modelled as immediate (CPython refcounting, no outside       *)
(* reference): guarded for edges, unguarded for cells, as in the code.     *)
(* Every operator is the identity on a state that already failed.          *)
(***************************************************************************)
EXTENDS Interfaces

LOCAL R(q) == {q[i] : i \in DOMAIN q}
AbsI(x) == IF x < 0 THEN -x ELSE x

OK(s)        == s.err = ""
Fail(s, cls) == [s EXCEPT !.err = cls]

\* list.remove(x): drop the first occurrence (caller checks membership)
RemoveFirst(q, x) ==
  LET i == CHOOSE j \in DOMAIN q : q[j] = x /\ \A p \in 1..(j - 1) : q[p] # x
  IN  [j \in 1..(Len(q) - 1) |-> IF j < i THEN q[j] ELSE q[j + 1]]
\* Vertex.add_edge / add_cell: append unless present
AppendNew(q, x) == IF x \in R(q) THEN q ELSE Append(q, x)
FirstIndex(q, x) == CHOOSE j \in DOMAIN q : q[j] = x /\ \A p \in 1..(j - 1) : q[p] # x

EmptyState == [V |-> <<>>, vd |-> {}, E |-> <<>>, C |-> <<>>, co |-> <<>>, err |-> ""]

(******************************* primitives ********************************)
\* vertices[id] = Vertex(id, x, y)
AddVertex(s, h, id, pos) ==
  IF ~OK(s) THEN s ELSE
  [s EXCEPT !.V = [x \in DOMAIN s.V \cup {h} |->
                     IF x = h THEN [id |-> id, oe |-> <<>>, oc |-> <<>>, pos |-> pos] ELSE s.V[x]],
            !.vd = @ \cup {h}]

\* SmallEdge.__del__: for v in verticesArray: if id in v.ownEdges: v.remove_edge(id)
UnregisterEdge(s, eid, a, b) ==
  LET s1 == IF eid \in R(s.V[a].oe) THEN [s EXCEPT !.V[a].oe = RemoveFirst(@, eid)] ELSE s
  IN  IF eid \in R(s1.V[b].oe) THEN [s1 EXCEPT !.V[b].oe = RemoveFirst(@, eid)] ELSE s1

\* edges[eid] = SmallEdge(eid, a, b): __post_init__ registers on both ends, then asserts v1.id # v2.id
AddEdge(s, eid, a, b) ==
  IF ~OK(s) THEN s ELSE
  LET s1 == [s  EXCEPT !.V[a].oe = AppendNew(@, eid)]
      s2 == [s1 EXCEPT !.V[b].oe = AppendNew(@, eid)]
  IN  IF s.V[a].id = s.V[b].id
      THEN Fail(UnregisterEdge(s2, eid, a, b), "AssertionError")   \* half-built object is collected
      ELSE [s2 EXCEPT !.E = [x \in DOMAIN s.E \cup {eid} |-> IF x = eid THEN <<a, b>> ELSE s.E[x]]]

\* del edges[eid]
DelEdge(s, eid) ==
  IF ~OK(s) THEN s ELSE
  IF eid \notin DOMAIN s.E THEN Fail(s, "KeyError") ELSE
  LET e  == s.E[eid]
      s1 == UnregisterEdge(s, eid, e[1], e[2])
  IN  [s1 EXCEPT !.E = [x \in DOMAIN s.E \ {eid} |-> s.E[x]]]

\* cells[cid] = Cell(cid, cyc): __post_init__: for v in vertices: v.add_cell(id)
RECURSIVE RegisterCell(_, _, _, _)
RegisterCell(s, cid, cyc, i) ==
  IF i > Len(cyc) THEN s
  ELSE RegisterCell([s EXCEPT !.V[cyc[i]].oc = AppendNew(@, cid)], cid, cyc, i + 1)
AddCell(s, cid, cyc) ==
  IF ~OK(s) THEN s ELSE
  LET s1 == RegisterCell(s, cid, cyc, 1)
  IN  [s1 EXCEPT !.C = [x \in DOMAIN s.C \cup {cid} |-> IF x = cid THEN cyc ELSE s.C[x]],
                 !.co = Append(@, cid)]

\* Cell.__del__: for v in vertices: v.remove_cell(id) -- unguarded; an exception inside __del__ is
\* printed and swallowed by the interpreter, the loop is abandoned
RECURSIVE UnregisterCell(_, _, _, _)
UnregisterCell(s, cid, cyc, i) ==
  IF i > Len(cyc) THEN s
  ELSE IF cid \notin R(s.V[cyc[i]].oc) THEN s
  ELSE UnregisterCell([s EXCEPT !.V[cyc[i]].oc = RemoveFirst(@, cid)], cid, cyc, i + 1)
\* del cells[cid]
DelCell(s, cid) ==
  IF ~OK(s) THEN s ELSE
  IF cid \notin DOMAIN s.C THEN Fail(s, "KeyError") ELSE
  LET s1 == UnregisterCell(s, cid, s.C[cid], 1)
  IN  [s1 EXCEPT !.C = [x \in DOMAIN s.C \ {cid} |-> s.C[x]],
                 !.co = SelectSeq(@, LAMBDA x : x # cid)]

\* del vertices[id]  (the object stays alive while an edge or a cell still refers to it)
DelVertex(s, h) ==
  IF ~OK(s) THEN s ELSE
  IF h \notin s.vd THEN Fail(s, "KeyError") ELSE [s EXCEPT !.vd = @ \ {h}]

\* SmallEdge.replace_vertex(vold, vnew)
EdgeReplaceVertex(s, eid, vold, vnew) ==
  IF ~OK(s) THEN s ELSE
  IF eid \notin DOMAIN s.E THEN Fail(s, "KeyError") ELSE
  LET e   == s.E[eid]
      who == IF s.V[e[1]].id = s.V[vold].id THEN 1 ELSE 2
      tgt == e[who]
  IN  IF eid \notin R(s.V[tgt].oe) THEN Fail(s, "ValueError")
      ELSE LET s1 == [s  EXCEPT !.V[tgt].oe = RemoveFirst(@, eid)]
               s2 == [s1 EXCEPT !.E[eid] = [e EXCEPT ![who] = vnew]]
           IN  [s2 EXCEPT !.V[vnew].oe = AppendNew(@, eid)]

\* Cell.replace_vertex(vold, vnew): two branches; never touches vold.ownCells
CellReplaceVertex(s, cid, vold, vnew) ==
  IF ~OK(s) THEN s ELSE
  IF cid \notin DOMAIN s.C THEN Fail(s, "KeyError") ELSE
  LET cyc == s.C[cid]
      ids == [i \in DOMAIN cyc |-> s.V[cyc[i]].id]
  IN  IF s.V[vnew].id \in R(ids)
      THEN IF vold \notin R(cyc) THEN Fail(s, "ValueError")
           ELSE [s EXCEPT !.C[cid] = RemoveFirst(@, vold)]
      ELSE IF s.V[vold].id \notin R(ids) THEN Fail(s, "ValueError")
           ELSE LET i  == FirstIndex(ids, s.V[vold].id)
                    s1 == [s EXCEPT !.C[cid][i] = vnew]
                IN  [s1 EXCEPT !.V[vnew].oc = AppendNew(@, cid)]

RECURSIVE FoldCellReplace(_, _, _, _, _)
FoldCellReplace(s, cids, i, vold, vnew) ==
  IF i > Len(cids) \/ ~OK(s) THEN s
  ELSE FoldCellReplace(CellReplaceVertex(s, cids[i], vold, vnew), cids, i + 1, vold, vnew)
RECURSIVE FoldEdgeReplace(_, _, _, _, _)
FoldEdgeReplace(s, eids, i, vold, vnew) ==
  IF i > Len(eids) \/ ~OK(s) THEN s
  ELSE FoldEdgeReplace(EdgeReplaceVertex(s, eids[i], vold, vnew), eids, i + 1, vold, vnew)

(************************** join_two_vertices ******************************)
IdsInDict(s) == {s.V[h].id : h \in s.vd}
\* vertices[id] -> handle, 0 = KeyError
Lookup(s, id) == IF \E h \in s.vd : s.V[h].id = id THEN CHOOSE h \in s.vd : s.V[h].id = id ELSE 0
\* try vertices[x] except KeyError: vertices[mapper[x]]
Resolve(s, mp, id) == LET h == Lookup(s, id) IN
                      IF h # 0 THEN h ELSE IF id \notin DOMAIN mp THEN 0 ELSE Lookup(s, mp[id])
\* get_unused_id: len(d), then len(d)+0, len(d)+1, ... until free
UnusedId(s) == LET L == Cardinality(s.vd)  ids == IdsInDict(s)
               IN  CHOOSE x \in L..(2 * L + 1) : x \notin ids /\ \A y \in L..(x - 1) : y \in ids

\* pair = <<id0, id1>> (ids as listed in vertices_to_join), mp = the mapper, hnew = identity of the new object
Join(s, pair, mp, hnew) ==
  IF ~OK(s) THEN [s |-> s, mp |-> mp] ELSE
  LET v0 == Resolve(s, mp, pair[1])
      v1 == Resolve(s, mp, pair[2])
  IN
  IF v0 = 0 \/ v1 = 0 THEN [s |-> Fail(s, "KeyError"), mp |-> mp] ELSE
  LET common == R(s.V[v0].oe) \cap R(s.V[v1].oe) IN
  IF common = {} THEN [s |-> Fail(s, "IndexError"), mp |-> mp] ELSE
  LET ce  == CHOOSE e \in common : \A f \in common : e <= f       \* list(set & set)[0]
      nid == UnusedId(s)
      p0  == s.V[v0].pos
      p1  == s.V[v1].pos
      pos == <<AbsI(p0[1] + p1[1]) \div 2, AbsI(p0[2] + p1[2]) \div 2>>   \* abs(v0.x + v1.x) / 2
      s1  == AddVertex(s, hnew, nid, pos)
      mp1 == [k \in DOMAIN mp \cup {pair[1], pair[2]} |-> IF k \in {pair[1], pair[2]} THEN nid ELSE mp[k]]
      s2  == FoldCellReplace(s1, s.V[v0].oc, 1, v0, hnew)     \* both ownCells lists are copied first
      s3  == FoldCellReplace(s2, s.V[v1].oc, 1, v1, hnew)
      s4  == DelEdge(s3, ce)
      s5  == IF OK(s4) THEN FoldEdgeReplace(s4, s4.V[v0].oe, 1, v0, hnew) ELSE s4
      s6  == IF OK(s5) THEN FoldEdgeReplace(s5, s4.V[v1].oe, 1, v1, hnew) ELSE s5
      s7  == DelVertex(s6, v0)
      s8  == DelVertex(s7, v1)
  IN  [s |-> s8, mp |-> mp1]

RECURSIVE FoldJoin(_, _, _, _, _)
FoldJoin(s, mp, tj, i, hf) ==
  IF i > Len(tj) \/ ~OK(s) THEN s
  ELSE LET r == Join(s, tj[i], mp, hf) IN FoldJoin(r.s, r.mp, tj, i + 1, hf + 1)

(************************* abstraction to Mesh.tla *************************)
\* rank tables in one pass: r[x] = position of x in the ascending enumeration of S (0 if absent), x in 1..N
RECURSIVE RankAcc(_, _, _, _, _)
RankAcc(S, N, x, cnt, acc) ==
  IF x > N THEN acc
  ELSE IF x \in S THEN RankAcc(S, N, x + 1, cnt + 1, Append(acc, cnt + 1))
       ELSE RankAcc(S, N, x + 1, cnt, Append(acc, 0))
RECURSIVE SortedAcc(_, _, _, _)
SortedAcc(S, N, x, acc) ==
  IF x > N THEN acc ELSE SortedAcc(S, N, x + 1, IF x \in S THEN Append(acc, x) ELSE acc)
MaxOf(S) == IF S = {} THEN 0 ELSE CHOOSE x \in S : \A y \in S : y <= x
IndexIn(q, x) == IF \E i \in DOMAIN q : q[i] = x THEN CHOOSE i \in DOMAIN q : q[i] = x ELSE 0

\* the projection harness/project.py applies to real objects, applied to the model state:
\* dict order of vertices = handles ascending (insertion order), of edges = ids ascending
AbstractOf(s) ==
  LET NV  == MaxOf(s.vd)
      hs  == SortedAcc(s.vd, NV, 1, <<>>)
      rv  == RankAcc(s.vd, NV, 1, 0, <<>>)
      eS  == {e + 1 : e \in DOMAIN s.E}                   \* edge ids start at 0
      NE  == MaxOf(eS)
      es  == SortedAcc(eS, NE, 1, <<>>)
      re  == RankAcc(eS, NE, 1, 0, <<>>)
      vix(h) == IF h \in s.vd THEN rv[h] ELSE 0           \* "is the same object as the one in the dict"
      eix(e) == IF e \in DOMAIN s.E THEN re[e + 1] ELSE 0
  IN  [nv |-> Len(hs), ne |-> Len(es), nc |-> Len(s.co),
       hs |-> hs,
       vid |-> [i \in DOMAIN hs |-> s.V[hs[i]].id],
       pos |-> [i \in DOMAIN hs |-> s.V[hs[i]].pos],
       oe |-> [i \in DOMAIN hs |-> LET q == s.V[hs[i]].oe IN [j \in DOMAIN q |-> eix(q[j])]],
       oc |-> [i \in DOMAIN hs |-> LET q == s.V[hs[i]].oc IN [j \in DOMAIN q |-> IndexIn(s.co, q[j])]],
       E  |-> [i \in DOMAIN es |-> LET e == s.E[es[i] - 1] IN <<vix(e[1]), vix(e[2])>>],
       eid |-> [i \in DOMAIN es |-> es[i] - 1],
       C  |-> [i \in DOMAIN s.co |-> LET q == s.C[s.co[i]] IN [j \in DOMAIN q |-> vix(q[j])]],
       cid |-> s.co,
       vkey |-> [i \in DOMAIN hs |-> TRUE], ekey |-> [i \in DOMAIN es |-> TRUE],
       ckey |-> [i \in DOMAIN s.co |-> TRUE]]

\* inverse: a projected mesh (dense indices, Consistent) as a concrete state; handles = dense vertex
\* indices, cell ids = dense cell indices, edge ids = dense edge index - 1
StateOf(m) ==
  [V  |-> [h \in 1..m.nv |-> [id |-> m.vid[h], pos |-> m.pos[h],
                               oe |-> [j \in DOMAIN m.oe[h] |-> m.oe[h][j] - 1], oc |-> m.oc[h]]],
   vd |-> 1..m.nv,
   E  |-> [e \in 0..(m.ne - 1) |-> <<m.E[e + 1][1], m.E[e + 1][2]>>],
   C  |-> [c \in 1..m.nc |-> m.C[c]],
   co |-> [c \in 1..m.nc |-> c],
   err |-> ""]

(************** the skeleton parser's clean-up steps (skeleton.py) **************)
\* `for e in v.ownEdges: del self.edges[e]` iterates the LIVE list: the destructor removes e from it,
\* the iterator's index moves on, so every other element is skipped
RECURSIVE LiveDelEdges(_, _, _)
LiveDelEdges(s, h, i) ==
  IF ~OK(s) \/ i > Len(s.V[h].oe) THEN s
  ELSE LiveDelEdges(DelEdge(s, s.V[h].oe[i]), h, i + 1)
\* the same loop over a copy of the list (surface_evolver.py), KeyError swallowed
RECURSIVE CopyDelEdges(_, _, _)
CopyDelEdges(s, es, i) ==
  IF i > Len(es) THEN s
  ELSE CopyDelEdges(IF es[i] \in DOMAIN s.E THEN DelEdge(s, es[i]) ELSE s, es, i + 1)

\* isolated-cell removal: cells all of whose vertices list at most one cell
RECURSIVE IsoVertices(_, _, _)
IsoVertices(s, cyc, i) ==
  IF ~OK(s) \/ i > Len(cyc) THEN s
  ELSE LET s1 == LiveDelEdges(s, cyc[i], 1)
           s2 == IF OK(s1) /\ cyc[i] \in s1.vd THEN DelVertex(s1, cyc[i]) ELSE s1     \* KeyError caught
       IN  IsoVertices(s2, cyc, i + 1)
RECURSIVE IsoCells(_, _, _, _)
IsoCells(s, order, i, acc) ==            \* returns [s, acc]: acc = cells_to_remove
  IF ~OK(s) \/ i > Len(order) THEN [s |-> s, acc |-> acc]
  ELSE LET c == order[i]  cyc == s.C[c] IN
       IF \A j \in DOMAIN cyc : Len(s.V[cyc[j]].oc) <= 1
       THEN IsoCells(IsoVertices(s, cyc, 1), order, i + 1, Append(acc, c))
       ELSE IsoCells(s, order, i + 1, acc)
RECURSIVE DelCells(_, _, _)
DelCells(s, cs, i) == IF ~OK(s) \/ i > Len(cs) THEN s ELSE DelCells(DelCell(s, cs[i]), cs, i + 1)
IsolatedCellRemoval(s) ==
  IF ~OK(s) THEN s ELSE LET r == IsoCells(s, s.co, 1, <<>>) IN DelCells(r.s, r.acc, 1)

\* Surface Evolver parser: drop vertices without cells together with their edges
RECURSIVE OrphanFold(_, _, _)
OrphanFold(s, hs, i) ==
  IF ~OK(s) \/ i > Len(hs) THEN s
  ELSE OrphanFold(DelVertex(CopyDelEdges(s, s.V[hs[i]].oe, 1), hs[i]), hs, i + 1)
\* ... and (repository fix 41cf233) the mesh edges that belong to no face: in a dump the faces are loops of
\* signed edge ids, here the mesh edges joining consecutive vertices of some cell cycle
RECURSIVE FacelessFold(_, _, _)
FacelessFold(s, es, i) == IF ~OK(s) \/ i > Len(es) THEN s ELSE FacelessFold(DelEdge(s, es[i]), es, i + 1)
OnSomeCell(s, e) == \E c \in DOMAIN s.C : ConsecutiveIn(s.C[c], s.E[e][1], s.E[e][2])
OrphanRemoval(s) ==
  IF ~OK(s) THEN s
  ELSE LET s1 == OrphanFold(s, SeqOfSetSorted({h \in s.vd : Len(s.V[h].oc) = 0}), 1)
       IN  IF ~OK(s1) THEN s1
           ELSE FacelessFold(s1, SeqOfSetSorted({e \in DOMAIN s1.E : ~OnSomeCell(s1, e)}), 1)

\* do_t3_transition(artifact): merge the vertices `art` (sequence of handles) into a new vertex at their mean
RECURSIVE SumPos(_, _, _)
SumPos(s, art, i) == IF i > Len(art) THEN <<0, 0>>
                     ELSE LET r == SumPos(s, art, i + 1) IN <<s.V[art[i]].pos[1] + r[1], s.V[art[i]].pos[2] + r[2]>>
FloorDiv(a, n) == IF a >= 0 THEN a \div n ELSE -((-a + n - 1) \div n)
RECURSIVE FoldDelEdges(_, _, _)
FoldDelEdges(s, es, i) == IF ~OK(s) \/ i > Len(es) THEN s ELSE FoldDelEdges(DelEdge(s, es[i]), es, i + 1)
RECURSIVE T3Vertices(_, _, _, _)
T3Vertices(s, art, i, hnew) ==
  IF ~OK(s) \/ i > Len(art) THEN s
  ELSE LET v     == art[i]
           ids   == {s.V[art[j]].id : j \in DOMAIN art}
           inArt(e) == s.V[s.E[e][1]].id \in ids /\ s.V[s.E[e][2]].id \in ids
           oe    == s.V[v].oe
           stale == \E j \in DOMAIN oe : oe[j] \notin DOMAIN s.E          \* self.edges[e] -> KeyError
       IN  IF stale THEN Fail(s, "KeyError") ELSE
           LET rem == SelectSeq(oe, LAMBDA e : inArt(e))
               rep == SelectSeq(oe, LAMBDA e : ~inArt(e))
               s1  == FoldDelEdges(s, rem, 1)
               s2  == FoldEdgeReplace(s1, rep, 1, v, hnew)
               s3  == IF OK(s2) THEN FoldCellReplace(s2, s2.V[v].oc, 1, v, hnew) ELSE s2   \* live ownCells: not modified by replace_vertex of v
           IN  T3Vertices(s3, art, i + 1, hnew)
RECURSIVE T3Cleanup(_, _, _)
T3Cleanup(s, art, i) ==
  IF ~OK(s) \/ i > Len(art) THEN s
  ELSE T3Cleanup(IF Len(s.V[art[i]].oe) = 0 THEN DelVertex(s, art[i]) ELSE s, art, i + 1)
T3Transition(s, art, hnew) ==
  IF ~OK(s) THEN s ELSE
  LET sp   == SumPos(s, art, 1)
      n    == Len(art)
      ids  == IdsInDict(s)
      nid  == MaxOf(ids) + 1                                                 \* get_new_vid
      s1   == AddVertex(s, hnew, nid, <<FloorDiv(sp[1], n), FloorDiv(sp[2], n)>>)
  IN  T3Cleanup(T3Vertices(s1, art, 1, hnew), art, 1)

\* "triangles in the middle": two interfaces between the same two junctions, the listed one with at most
\* 3 points: its interior vertex is merged into its first end (replace_vertex in its cells, LIVE deletion
\* of its edges, removal from the dict).  Detection transcribed from create_lattice.
TriangleRemoval(s) ==
  IF ~OK(s) THEN s ELSE
  LET m    == AbstractOf(s)
      bed0 == ImplInterfaces(m)
      bed  == [i \in DOMAIN bed0 |-> [j \in DOMAIN bed0[i] |-> m.hs[bed0[i][j]]]]
      n    == Len(bed)
      fl   == [i \in 1..(2 * n) |-> IF i <= n THEN <<bed[i][1], bed[i][Len(bed[i])]>>
                                    ELSE <<bed[i - n][Len(bed[i - n])], bed[i - n][1]>>]
      cnt(pr)   == Cardinality({i \in DOMAIN fl : fl[i] = pr})
      first(pr) == CHOOSE i \in DOMAIN fl : fl[i] = pr /\ \A j \in 1..(i - 1) : fl[j] # pr
      \* keys of Counter(first_last) with count > 1, in order of first occurrence
      keysI == SeqOfSetSorted({i \in DOMAIN fl : first(fl[i]) = i /\ cnt(fl[i]) > 1})
      inner == [k \in DOMAIN keysI |-> fl[keysI[k]]]
      RECURSIVE Loop(_, _, _)
      Loop(st, idx, visited) ==
        IF ~OK(st) \/ idx > Len(inner) - 1 THEN st
        ELSE LET pr == inner[idx] IN
             IF pr \in visited \/ <<pr[2], pr[1]>> \in visited THEN Loop(st, idx + 1, visited)
             ELSE LET e0 == bed[((first(pr) - 1) % n) + 1]
                      e1 == bed[((first(inner[idx + 1]) - 1) % n) + 1]
                  IN  IF Len(e0) > 3 THEN Loop(st, idx + 1, visited)
                      ELSE LET diff == {st.V[x].id : x \in R(e0)} \ {st.V[x].id : x \in R(e1)}
                           IN  IF diff = {} THEN Fail(st, "IndexError")
                               ELSE LET did  == CHOOSE x \in diff : \A y \in diff : x <= y     \* np.setdiff1d(...)[0]
                                        vdel == Lookup(st, did)
                                        keep == Lookup(st, st.V[e0[1]].id)
                                    IN  IF vdel = 0 \/ keep = 0 THEN Fail(st, "KeyError")
                                        ELSE LET s1 == FoldCellReplace(st, st.V[vdel].oc, 1, vdel, keep)
                                                 s2 == LiveDelEdges(s1, vdel, 1)
                                                 s3 == DelVertex(s2, vdel)
                                             IN  Loop(s3, idx + 1, visited \cup {pr})
  IN  Loop(s, 1, {})

(****************************** generate_mesh ******************************)
\* nEdge = [e[int(len(e) / ne * i)] for i in range(ne)] + [e[-1]]  when len(e) > ne
\* (TLC computes floor(len * i / ne); the finitely many (len, ne, i) where IEEE rounding of
\*  len / ne * i could differ are a drift matter, D does not fix the indices)
ResampleOne(e, ne) ==
  IF Len(e) > ne
  THEN [i \in 1..(ne + 1) |-> IF i <= ne THEN e[((Len(e) * (i - 1)) \div ne) + 1] ELSE e[Len(e)]]
  ELSE e

RECURSIVE PairsOf(_, _)
PairsOf(arr, i) == IF i > Len(arr) THEN <<>>
                   ELSE [n \in 1..(Len(arr[i]) - 1) |-> <<arr[i][n], arr[i][n + 1]>>] \o PairsOf(arr, i + 1)

\* premise: AbstractOf(s) is Consistent (then edges.clear() empties every ownEdges list and the
\* removal of unused vertices from the cells of their ownCells is a filter)
\* m = AbstractOf(s) (passed in so that a caller that already has it does not recompute it)
GenerateMeshM(s, m, ne, rse, hfresh) ==
  IF ~OK(s) THEN [s |-> s, arr |-> <<>>] ELSE
  LET bed    == ImplInterfaces(m)                                   \* create_edges_new
      bedH   == [i \in DOMAIN bed |-> [j \in DOMAIN bed[i] |-> m.hs[bed[i][j]]]]
      narr   == [i \in DOMAIN bedH |-> ResampleOne(bedH[i], ne)]
      toJoin == SelectSeq(bedH, LAMBDA e : Len(e) <= ne /\ Len(e) = 2
                                           /\ Len(s.V[e[1]].oc) < 3 /\ Len(s.V[e[2]].oc) < 3)
      used   == UNION {R(narr[i]) : i \in DOMAIN narr}
      C1     == [c \in DOMAIN s.C |-> SelectSeq(s.C[c], LAMBDA h : h \in used)]
      keep   == {c \in DOMAIN s.C : Len(C1[c]) > 0}               \* empty cells are deleted
      prs    == PairsOf(narr, 1)                                    \* edges[k] = SmallEdge(k, be[n], be[n+1])
      bad    == {k \in DOMAIN prs : s.V[prs[k][1]].id = s.V[prs[k][2]].id}
      oeNew  == [h \in used |-> LET ks == {k \in DOMAIN prs : h = prs[k][1] \/ h = prs[k][2]}
                                IN  SeqOfSetSorted({k - 1 : k \in ks})]
      s1     == [V  |-> [h \in used |-> [s.V[h] EXCEPT !.oe = oeNew[h]]],
                 vd |-> used,
                 E  |-> [k \in 0..(Len(prs) - 1) |-> prs[k + 1]],
                 C  |-> [c \in keep |-> C1[c]],
                 co |-> SelectSeq(s.co, LAMBDA c : c \in keep),
                 err |-> IF bad # {} THEN "AssertionError" ELSE ""]
      tj     == [i \in DOMAIN toJoin |-> <<s.V[toJoin[i][1]].id, s.V[toJoin[i][2]].id>>]
      s2     == IF rse THEN FoldJoin(s1, <<>>, tj, 1, hfresh) ELSE s1
      s3     == IF s2.err = "KeyError" THEN Fail(s2, "SegmentationArtifactException") ELSE s2
  IN  [s |-> s3, arr |-> [i \in DOMAIN narr |-> [j \in DOMAIN narr[i] |-> s.V[narr[i][j]].id]]]
GenerateMesh(s, ne, rse, hfresh) == GenerateMeshM(s, AbstractOf(s), ne, rse, hfresh)
=============================================================================

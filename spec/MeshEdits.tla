------------------------------ MODULE MeshEdits ------------------------------
(***************************************************************************)
(* The data model of ForSys (vertex.py, edge.py, cell.py) with its         *)
(* register / unregister discipline, as state-transforming operators       *)
(* shaped like the code, and the public operations composed from them      *)
(* (generate_mesh, join_two_vertices, the skeleton parser's clean-up       *)
(* steps, the Surface Evolver parser's orphan removal).  Property C09.     *)
(*                                                                         *)
(* Concrete mesh state s ("the heap and the three dictionaries"):          *)
(*   s.V   [handle -> [id, oe, oc, pos]]  Vertex OBJECTS (a handle is the  *)
(*         object's identity; `id` its id field; oe / oc = ownEdges /      *)
(*         ownCells, sequences of edge ids / cell ids; pos = <<x, y>>)     *)
(*   s.vd  set of handles stored in the dict `vertices` (under their id)   *)
(*   s.E   [edge id -> <<h1, h2>>]  dict `edges`: SmallEdge.v1 / v2        *)
(*   s.C   [cell id -> Seq(handle)] dict `cells`: Cell.vertices            *)
(*   s.co  Seq(cell id)             dict order of `cells`                  *)
(*   s.err "" or the class name of the exception that escaped              *)
(* __del__ is modelled as immediate (CPython refcounting, no outside       *)
(* reference): guarded for edges, unguarded for cells, as in the code.     *)
(* Every operator is the identity on a state that already failed.          *)
(***************************************************************************)
EXTENDS Interfaces

LOCAL R(q) == {q[i] : i \in DOMAIN q}
AbsI(x) == IF x < 0 THEN -x ELSE x

OK(s)        == s.err = ""
Fail(s, cls) == [s EXCEPT !.err = cls]

\* list.remove(x): drop the first occurrence (caller checks membership)
RemoveFirst(q, x) ==
  LET i == CHOOSE j \in DOMAIN q : q[j] = x /\ \A p \in 1..(j - 1) : q[p] # x
  IN  [j \in 1..(Len(q) - 1) |-> IF j < i THEN q[j] ELSE q[j + 1]]
\* Vertex.add_edge / add_cell: append unless present
AppendNew(q, x) == IF x \in R(q) THEN q ELSE Append(q, x)
FirstIndex(q, x) == CHOOSE j \in DOMAIN q : q[j] = x /\ \A p \in 1..(j - 1) : q[p] # x

EmptyState == [V |-> <<>>, vd |-> {}, E |-> <<>>, C |-> <<>>, co |-> <<>>, err |-> ""]

(******************************* primitives ********************************)
\* vertices[id] = Vertex(id, x, y)
AddVertex(s, h, id, pos) ==
  IF ~OK(s) THEN s ELSE
  [s EXCEPT !.V = [x \in DOMAIN s.V \cup {h} |->
                     IF x = h THEN [id |-> id, oe |-> <<>>, oc |-> <<>>, pos |-> pos] ELSE s.V[x]],
            !.vd = @ \cup {h}]

\* SmallEdge.__del__: for v in verticesArray: if id in v.ownEdges: v.remove_edge(id)
UnregisterEdge(s, eid, a, b) ==
  LET s1 == IF eid \in R(s.V[a].oe) THEN [s EXCEPT !.V[a].oe = RemoveFirst(@, eid)] ELSE s
  IN  IF eid \in R(s1.V[b].oe) THEN [s1 EXCEPT !.V[b].oe = RemoveFirst(@, eid)] ELSE s1

\* edges[eid] = SmallEdge(eid, a, b): __post_init__ registers on both ends, then asserts v1.id # v2.id
AddEdge(s, eid, a, b) ==
  IF ~OK(s) THEN s ELSE
  LET s1 == [s  EXCEPT !.V[a].oe = AppendNew(@, eid)]
      s2 == [s1 EXCEPT !.V[b].oe = AppendNew(@, eid)]
  IN  IF s.V[a].id = s.V[b].id
      THEN Fail(UnregisterEdge(s2, eid, a, b), "AssertionError")   \* half-built object is collected
      ELSE [s2 EXCEPT !.E = [x \in DOMAIN s.E \cup {eid} |-> IF x = eid THEN <<a, b>> ELSE s.E[x]]]

\* del edges[eid]
DelEdge(s, eid) ==
  IF ~OK(s) THEN s ELSE
  IF eid \notin DOMAIN s.E THEN Fail(s, "KeyError") ELSE
  LET e  == s.E[eid]
      s1 == UnregisterEdge(s, eid, e[1], e[2])
  IN  [s1 EXCEPT !.E = [x \in DOMAIN s.E \ {eid} |-> s.E[x]]]

\* cells[cid] = Cell(cid, cyc): __post_init__: for v in vertices: v.add_cell(id)
RECURSIVE RegisterCell(_, _, _, _)
RegisterCell(s, cid, cyc, i) ==
  IF i > Len(cyc) THEN s
  ELSE RegisterCell([s EXCEPT !.V[cyc[i]].oc = AppendNew(@, cid)], cid, cyc, i + 1)
AddCell(s, cid, cyc) ==
  IF ~OK(s) THEN s ELSE
  LET s1 == RegisterCell(s, cid, cyc, 1)
  IN  [s1 EXCEPT !.C = [x \in DOMAIN s.C \cup {cid} |-> IF x = cid THEN cyc ELSE s.C[x]],
                 !.co = Append(@, cid)]

\* Cell.__del__: for v in vertices: v.remove_cell(id) -- unguarded; an exception inside __del__ is
\* printed and swallowed by the interpreter, the loop is abandoned
RECURSIVE UnregisterCell(_, _, _, _)
UnregisterCell(s, cid, cyc, i) ==
  IF i > Len(cyc) THEN s
  ELSE IF cid \notin R(s.V[cyc[i]].oc) THEN s
  ELSE UnregisterCell([s EXCEPT !.V[cyc[i]].oc = RemoveFirst(@, cid)], cid, cyc, i + 1)
\* del cells[cid]
DelCell(s, cid) ==
  IF ~OK(s) THEN s ELSE
  IF cid \notin DOMAIN s.C THEN Fail(s, "KeyError") ELSE
  LET s1 == UnregisterCell(s, cid, s.C[cid], 1)
  IN  [s1 EXCEPT !.C = [x \in DOMAIN s.C \ {cid} |-> s.C[x]],
                 !.co = SelectSeq(@, LAMBDA x : x # cid)]

\* del vertices[id]  (the object stays alive while an edge or a cell still refers to it)
DelVertex(s, h) ==
  IF ~OK(s) THEN s ELSE
  IF h \notin s.vd THEN Fail(s, "KeyError") ELSE [s EXCEPT !.vd = @ \ {h}]

\* SmallEdge.replace_vertex(vold, vnew)
EdgeReplaceVertex(s, eid, vold, vnew) ==
  IF ~OK(s) THEN s ELSE
  IF eid \notin DOMAIN s.E THEN Fail(s, "KeyError") ELSE
  LET e   == s.E[eid]
      who == IF s.V[e[1]].id = s.V[vold].id THEN 1 ELSE 2
      tgt == e[who]
  IN  IF eid \notin R(s.V[tgt].oe) THEN Fail(s, "ValueError")
      ELSE LET s1 == [s  EXCEPT !.V[tgt].oe = RemoveFirst(@, eid)]
               s2 == [s1 EXCEPT !.E[eid] = [e EXCEPT ![who] = vnew]]
           IN  [s2 EXCEPT !.V[vnew].oe = AppendNew(@, eid)]

\* Cell.replace_vertex(vold, vnew): two branches; never touches vold.ownCells
CellReplaceVertex(s, cid, vold, vnew) ==
  IF ~OK(s) THEN s ELSE
  IF cid \notin DOMAIN s.C THEN Fail(s, "KeyError") ELSE
  LET cyc == s.C[cid]
      ids == [i \in DOMAIN cyc |-> s.V[cyc[i]].id]
  IN  IF s.V[vnew].id \in R(ids)
      THEN IF vold \notin R(cyc) THEN Fail(s, "ValueError")
           ELSE [s EXCEPT !.C[cid] = RemoveFirst(@, vold)]
      ELSE IF s.V[vold].id \notin R(ids) THEN Fail(s, "ValueError")
           ELSE LET i  == FirstIndex(ids, s.V[vold].id)
                    s1 == [s EXCEPT !.C[cid][i] = vnew]
                IN  [s1 EXCEPT !.V[vnew].oc = AppendNew(@, cid)]

RECURSIVE FoldCellReplace(_, _, _, _, _)
FoldCellReplace(s, cids, i, vold, vnew) ==
  IF i > Len(cids) \/ ~OK(s) THEN s
  ELSE FoldCellReplace(CellReplaceVertex(s, cids[i], vold, vnew), cids, i + 1, vold, vnew)
RECURSIVE FoldEdgeReplace(_, _, _, _, _)
FoldEdgeReplace(s, eids, i, vold, vnew) ==
  IF i > Len(eids) \/ ~OK(s) THEN s
  ELSE FoldEdgeReplace(EdgeReplaceVertex(s, eids[i], vold, vnew), eids, i + 1, vold, vnew)

(************************** join_two_vertices ******************************)
IdsInDict(s) == {s.V[h].id : h \in s.vd}
\* vertices[id] -> handle, 0 = KeyError
Lookup(s, id) == IF \E h \in s.vd : s.V[h].id = id THEN CHOOSE h \in s.vd : s.V[h].id = id ELSE 0
\* try vertices[x] except KeyError: vertices[mapper[x]]
Resolve(s, mp, id) == LET h == Lookup(s, id) IN
                      IF h # 0 THEN h ELSE IF id \notin DOMAIN mp THEN 0 ELSE Lookup(s, mp[id])
\* get_unused_id: len(d), then len(d)+0, len(d)+1, ... until free
UnusedId(s) == LET L == Cardinality(s.vd)  ids == IdsInDict(s)
               IN  CHOOSE x \in L..(2 * L + 1) : x \notin ids /\ \A y \in L..(x - 1) : y \in ids

\* pair = <<id0, id1>> (ids as listed in vertices_to_join), mp = the mapper, hnew = identity of the new object
Join(s, pair, mp, hnew) ==
  IF ~OK(s) THEN [s |-> s, mp |-> mp] ELSE
  LET v0 == Resolve(s, mp, pair[1])
      v1 == Resolve(s, mp, pair[2])
  IN
  IF v0 = 0 \/ v1 = 0 THEN [s |-> Fail(s, "KeyError"), mp |-> mp] ELSE
  LET common == R(s.V[v0].oe) \cap R(s.V[v1].oe) IN
  IF common = {} THEN [s |-> Fail(s, "IndexError"), mp |-> mp] ELSE
  LET ce  == CHOOSE e \in common : \A f \in common : e <= f       \* list(set & set)[0]
      nid == UnusedId(s)
      p0  == s.V[v0].pos
      p1  == s.V[v1].pos
      pos == <<AbsI(p0[1] + p1[1]) \div 2, AbsI(p0[2] + p1[2]) \div 2>>   \* abs(v0.x + v1.x) / 2
      s1  == AddVertex(s, hnew, nid, pos)
      mp1 == [k \in DOMAIN mp \cup {pair[1], pair[2]} |-> IF k \in {pair[1], pair[2]} THEN nid ELSE mp[k]]
      s2  == FoldCellReplace(s1, s.V[v0].oc, 1, v0, hnew)     \* both ownCells lists are copied first
      s3  == FoldCellReplace(s2, s.V[v1].oc, 1, v1, hnew)
      s4  == DelEdge(s3, ce)
      s5  == IF OK(s4) THEN FoldEdgeReplace(s4, s4.V[v0].oe, 1, v0, hnew) ELSE s4
      s6  == IF OK(s5) THEN FoldEdgeReplace(s5, s4.V[v1].oe, 1, v1, hnew) ELSE s5
      s7  == DelVertex(s6, v0)
      s8  == DelVertex(s7, v1)
  IN  [s |-> s8, mp |-> mp1]

RECURSIVE FoldJoin(_, _, _, _, _)
FoldJoin(s, mp, tj, i, hf) ==
  IF i > Len(tj) \/ ~OK(s) THEN s
  ELSE LET r == Join(s, tj[i], mp, hf) IN FoldJoin(r.s, r.mp, tj, i + 1, hf + 1)

(************************* abstraction to Mesh.tla *************************)
\* rank tables in one pass: r[x] = position of x in the ascending enumeration of S (0 if absent), x in 1..N
RECURSIVE RankAcc(_, _, _, _, _)
RankAcc(S, N, x, cnt, acc) ==
  IF x > N THEN acc
  ELSE IF x \in S THEN RankAcc(S, N, x + 1, cnt + 1, Append(acc, cnt + 1))
       ELSE RankAcc(S, N, x + 1, cnt, Append(acc, 0))
RECURSIVE SortedAcc(_, _, _, _)
SortedAcc(S, N, x, acc) ==
  IF x > N THEN acc ELSE SortedAcc(S, N, x + 1, IF x \in S THEN Append(acc, x) ELSE acc)
MaxOf(S) == IF S = {} THEN 0 ELSE CHOOSE x \in S : \A y \in S : y <= x
IndexIn(q, x) == IF \E i \in DOMAIN q : q[i] = x THEN CHOOSE i \in DOMAIN q : q[i] = x ELSE 0

\* the projection harness/project.py applies to real objects, applied to the model state:
\* dict order of vertices = handles ascending (insertion order), of edges = ids ascending
AbstractOf(s) ==
  LET NV  == MaxOf(s.vd)
      hs  == SortedAcc(s.vd, NV, 1, <<>>)
      rv  == RankAcc(s.vd, NV, 1, 0, <<>>)
      eS  == {e + 1 : e \in DOMAIN s.E}                   \* edge ids start at 0
      NE  == MaxOf(eS)
      es  == SortedAcc(eS, NE, 1, <<>>)
      re  == RankAcc(eS, NE, 1, 0, <<>>)
      vix(h) == IF h \in s.vd THEN rv[h] ELSE 0           \* "is the same object as the one in the dict"
      eix(e) == IF e \in DOMAIN s.E THEN re[e + 1] ELSE 0
  IN  [nv |-> Len(hs), ne |-> Len(es), nc |-> Len(s.co),
       hs |-> hs,
       vid |-> [i \in DOMAIN hs |-> s.V[hs[i]].id],
       pos |-> [i \in DOMAIN hs |-> s.V[hs[i]].pos],
       oe |-> [i \in DOMAIN hs |-> LET q == s.V[hs[i]].oe IN [j \in DOMAIN q |-> eix(q[j])]],
       oc |-> [i \in DOMAIN hs |-> LET q == s.V[hs[i]].oc IN [j \in DOMAIN q |-> IndexIn(s.co, q[j])]],
       E  |-> [i \in DOMAIN es |-> LET e == s.E[es[i] - 1] IN <<vix(e[1]), vix(e[2])>>],
       eid |-> [i \in DOMAIN es |-> es[i] - 1],
       C  |-> [i \in DOMAIN s.co |-> LET q == s.C[s.co[i]] IN [j \in DOMAIN q |-> vix(q[j])]],
       cid |-> s.co,
       vkey |-> [i \in DOMAIN hs |-> TRUE], ekey |-> [i \in DOMAIN es |-> TRUE],
       ckey |-> [i \in DOMAIN s.co |-> TRUE]]

\* inverse: a projected mesh (dense indices, Consistent) as a concrete state; handles = dense vertex
\* indices, cell ids = dense cell indices, edge ids = dense edge index - 1
StateOf(m) ==
  [V  |-> [h \in 1..m.nv |-> [id |-> m.vid[h], pos |-> m.pos[h],
                               oe |-> [j \in DOMAIN m.oe[h] |-> m.oe[h][j] - 1], oc |-> m.oc[h]]],
   vd |-> 1..m.nv,
   E  |-> [e \in 0..(m.ne - 1) |-> <<m.E[e + 1][1], m.E[e + 1][2]>>],
   C  |-> [c \in 1..m.nc |-> m.C[c]],
   co |-> [c \in 1..m.nc |-> c],
   err |-> ""]

(****************************** generate_mesh ******************************)
\* nEdge = [e[int(len(e) / ne * i)] for i in range(ne)] + [e[-1]]  when len(e) > ne
\* (TLC computes floor(len * i / ne); the finitely many (len, ne, i) where IEEE rounding of
\*  len / ne * i could differ are a drift matter, D does not fix the indices)
ResampleOne(e, ne) ==
  IF Len(e) > ne
  THEN [i \in 1..(ne + 1) |-> IF i <= ne THEN e[((Len(e) * (i - 1)) \div ne) + 1] ELSE e[Len(e)]]
  ELSE e

RECURSIVE PairsOf(_, _)
PairsOf(arr, i) == IF i > Len(arr) THEN <<>>
                   ELSE [n \in 1..(Len(arr[i]) - 1) |-> <<arr[i][n], arr[i][n + 1]>>] \o PairsOf(arr, i + 1)

\* premise: AbstractOf(s) is Consistent (then edges.clear() empties every ownEdges list and the
\* removal of unused vertices from the cells of their ownCells is a filter)
\* m = AbstractOf(s) (passed in so that a caller that already has it does not recompute it)
GenerateMeshM(s, m, ne, rse, hfresh) ==
  IF ~OK(s) THEN [s |-> s, arr |-> <<>>] ELSE
  LET bed    == ImplInterfaces(m)                                   \* create_edges_new
      bedH   == [i \in DOMAIN bed |-> [j \in DOMAIN bed[i] |-> m.hs[bed[i][j]]]]
      narr   == [i \in DOMAIN bedH |-> ResampleOne(bedH[i], ne)]
      toJoin == SelectSeq(bedH, LAMBDA e : Len(e) <= ne /\ Len(e) = 2
                                           /\ Len(s.V[e[1]].oc) < 3 /\ Len(s.V[e[2]].oc) < 3)
      used   == UNION {R(narr[i]) : i \in DOMAIN narr}
      C1     == [c \in DOMAIN s.C |-> SelectSeq(s.C[c], LAMBDA h : h \in used)]
      keep   == {c \in DOMAIN s.C : Len(C1[c]) > 0}               \* empty cells are deleted
      prs    == PairsOf(narr, 1)                                    \* edges[k] = SmallEdge(k, be[n], be[n+1])
      bad    == {k \in DOMAIN prs : s.V[prs[k][1]].id = s.V[prs[k][2]].id}
      oeNew  == [h \in used |-> LET ks == {k \in DOMAIN prs : h = prs[k][1] \/ h = prs[k][2]}
                                IN  SeqOfSetSorted({k - 1 : k \in ks})]
      s1     == [V  |-> [h \in used |-> [s.V[h] EXCEPT !.oe = oeNew[h]]],
                 vd |-> used,
                 E  |-> [k \in 0..(Len(prs) - 1) |-> prs[k + 1]],
                 C  |-> [c \in keep |-> C1[c]],
                 co |-> SelectSeq(s.co, LAMBDA c : c \in keep),
                 err |-> IF bad # {} THEN "AssertionError" ELSE ""]
      tj     == [i \in DOMAIN toJoin |-> <<s.V[toJoin[i][1]].id, s.V[toJoin[i][2]].id>>]
      s2     == IF rse THEN FoldJoin(s1, <<>>, tj, 1, hfresh) ELSE s1
      s3     == IF s2.err = "KeyError" THEN Fail(s2, "SegmentationArtifactException") ELSE s2
  IN  [s |-> s3, arr |-> [i \in DOMAIN narr |-> [j \in DOMAIN narr[i] |-> s.V[narr[i][j]].id]]]
GenerateMesh(s, ne, rse, hfresh) == GenerateMeshM(s, AbstractOf(s), ne, rse, hfresh)
=============================================================================

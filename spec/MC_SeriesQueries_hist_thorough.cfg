SPECIFICATION Spec
CONSTANT NF = 3
CONSTANT KS <- KS23
CONSTANT SHAPES <- ShapesA
CONSTANT FAR = TRUE
CONSTANT CANON = 3
CONSTANT ONESET = TRUE
CONSTANT GUESSMAX = 99
CONSTANT ALLORDERS = FALSE
CONSTANT EMITMOD = 23
CONSTANT HIST = TRUE
INVARIANT InvPbm
INVARIANT InvAlgebra
INVARIANT InvVPos
INVARIANT InvVel
INVARIANT InvTtu
INVARIANT InvWhole
INVARIANT InvExport
INVARIANT InvCm
INVARIANT InvForced
INVARIANT InvMachine
INVARIANT Emit
PROPERTY QueriesArePure
CHECK_DEADLOCK FALSE

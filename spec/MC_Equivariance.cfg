SPECIFICATION Spec
CONSTANT K = 1
INVARIANT SameInterfaces
INVARIANT SameInternal
INVARIANT SameOwnCells
INVARIANT SameDeclarative
CHECK_DEADLOCK FALSE

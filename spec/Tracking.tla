------------------------------ MODULE Tracking ------------------------------
(***************************************************************************)
(* Vertex tracking between consecutive frames (C12) and velocities (C13).  *)
(*                                                                         *)
(* Abstract data of ONE step  frame t -> frame t+1  (record `st`):         *)
(*   n0, n1      number of vertices considered in frame t / t+1 (dense)    *)
(*   pos0, pos1  integer grid positions  <<x, y>>  per vertex              *)
(*   pool0/1     vertex is an interface end point of its frame             *)
(*   junc0/1     vertex has >= 3 mesh edges (junction)                     *)
(*   succ        true successor (index in frame t+1, 0 = none) per vertex  *)
(*   guess       user-supplied pairings, sequence of <<i, j>>              *)
(* The correspondence (record `mp`):                                       *)
(*   none        the step was skipped as "different tissue"                *)
(*   pairs       sequence of <<i, j>>; j = 0 is None; -1 = unresolvable id *)
(*                                                                         *)
(* D = declarative clauses (what C12/C13 state).                            *)
(* I = transcription of TimeSeries.create_mapping / find_best /            *)
(*     get_point_id_by_map / calculate_velocity on integer grids with      *)
(*     exact comparisons (record `s` with iteration orders ord0, ord1).    *)
(***************************************************************************)
EXTENDS FixedPoint, TLC

NoneV == 0
Unres == -1
Unset == -2
Raise == -3

D2(a, b) == (a[1] - b[1]) * (a[1] - b[1]) + (a[2] - b[2]) * (a[2] - b[2])

\* TLC enumerates integer sets in increasing order, so SMin succeeds on its first candidate
SMin(S) == CHOOSE x \in S : \A y \in S : x <= y
SMax(S) == -SMin({-x : x \in S})

PairSet(mp) == Range(mp.pairs)
Idx(flags)  == {i \in DOMAIN flags : flags[i]}

(* ======================================================================= *)
(* D — C12                                                                 *)
(* ======================================================================= *)
GuessSet(st)  == Range(st.guess)
GuessKeys(st) == {g[1] : g \in GuessSet(st)}
GuessInjective(st) == \A g, h \in GuessSet(st) : (g[1] = h[1]) = (g[2] = h[2])

\* keys are interface end points of this frame (or guess keys); values are interface end
\* points of the next frame or None (a user-supplied pair is taken as given)
RangeOK(st, mp) ==
  \A pr \in PairSet(mp) :
     \/ pr \in GuessSet(st)
     \/ /\ pr[1] \in 1..st.n0 /\ st.pool0[pr[1]]
        /\ (pr[2] = NoneV \/ (pr[2] \in 1..st.n1 /\ st.pool1[pr[2]]))

\* one value per key (a dict cannot violate this; kept for completeness) and never two
\* vertices to the same target
Injective(st, mp) ==
  \A a, b \in PairSet(mp) : (a # b /\ a[2] = b[2]) => a[2] = NoneV
Functional(mp) == \A a, b \in PairSet(mp) : a[1] = b[1] => a = b

GuessHonoured(st, mp) == GuessSet(st) \subseteq PairSet(mp)

\* structural part of the premise: the end points of frame t are exactly its junctions, each has
\* a true successor that is an end point (and a junction) of frame t+1; guesses agree with truth
PremiseStruct(st) ==
  /\ \A i \in 1..st.n0 : st.pool0[i] = st.junc0[i]
  /\ \A j \in 1..st.n1 : st.pool1[j] = st.junc1[j]
  /\ Idx(st.pool0) # {}
  /\ \A i \in Idx(st.pool0) : st.succ[i] \in 1..st.n1 /\ st.pool1[st.succ[i]]
  /\ \A g \in GuessSet(st) : g[1] \in 1..st.n0 /\ st.succ[g[1]] = g[2]
  /\ GuessInjective(st)

Xs(st) == {st.pos0[i][1] : i \in Idx(st.pool0)} \cup {st.pos1[j][1] : j \in Idx(st.pool1)}
Ys(st) == {st.pos0[i][2] : i \in Idx(st.pool0)} \cup {st.pos1[j][2] : j \in Idx(st.pool1)}
Extent(st) == Max(SMax(Xs(st)) - SMin(Xs(st)), SMax(Ys(st)) - SMin(Ys(st)))   \* the code's maxcoord
W0(st) == LET S == {st.pos0[i][1] : i \in Idx(st.pool0)} IN SMax(S) - SMin(S)
H0(st) == LET S == {st.pos0[i][2] : i \in Idx(st.pool0)} IN SMax(S) - SMin(S)
W1(st) == LET S == {st.pos1[i][1] : i \in Idx(st.pool1)} IN SMax(S) - SMin(S)
H1(st) == LET S == {st.pos1[i][2] : i \in Idx(st.pool1)} IN SMax(S) - SMin(S)
Shape2(st) == (W1(st) - W0(st)) * (W1(st) - W0(st)) + (H1(st) - H0(st)) * (H1(st) - H0(st))

\* largest squared move of a junction, smallest squared spacing over both frames (0 = no pair)
MaxMove2(st) == SMax({D2(st.pos0[i], st.pos1[st.succ[i]]) : i \in Idx(st.pool0)})
Spacings2(pos, S) == {D2(pos[a], pos[b]) : <<a, b>> \in {pr \in S \X S : pr[1] < pr[2]}}
MinSpacing2(st) == LET A == Spacings2(st.pos0, Idx(st.pool0)) \cup Spacings2(st.pos1, Idx(st.pool1))
                   IN  IF A = {} THEN 0 ELSE SMin(A)

\* exact premise on small integer grids (coordinates <= 240): strict bounds of the statement
PremiseExact(st) ==
  /\ PremiseStruct(st)
  /\ LET d2 == MaxMove2(st)  s2 == MinSpacing2(st)  M == Extent(st) IN
     /\ (s2 = 0 \/ 4 * d2 < s2)                     \* move < 1/2 smallest junction spacing
     /\ 10000 * d2 < 64 * M * M                     \* move < 8% of the extent
     /\ 100 * Shape2(st) < M * M                    \* bounding-box shape change < 10%

\* premise with a safety margin on fine integer grids (coordinates 0..30000): every bound is
\* demanded with 2% slack plus `g` grid units for rounding of the projection
PremiseMargin(st, g) ==
  /\ PremiseStruct(st)
  /\ LET d == ISqrt(MaxMove2(st)) + 1 + g
         s2 == MinSpacing2(st)
         s == ISqrt(s2) - g
         M == Extent(st) - g
         c == ISqrt(Shape2(st)) + 1 + g
     IN /\ (s2 = 0 \/ 200 * d <= 98 * s)
        /\ 10000 * d <= 784 * M
        /\ 1000 * c <= 98 * M

\* each junction is mapped to its true successor
Correct(st, mp) ==
  /\ ~mp.none
  /\ \A i \in Idx(st.junc0) : <<i, st.succ[i]>> \in PairSet(mp)

\* declarative reading of get_point_id_by_map for one step forward and one step backward
DFwd(mp, i) == IF \E pr \in PairSet(mp) : pr[1] = i
               THEN (CHOOSE pr \in PairSet(mp) : pr[1] = i)[2] ELSE Raise
DBackSet(mp, j) == {pr[1] : pr \in {q \in PairSet(mp) : q[2] = j}}

(* ======================================================================= *)
(* I — transcription of create_mapping / find_best on integer grids        *)
(*   s: [pos0, pos1, ord0, ord1, guess]; ord0/ord1 = pool vertices in the  *)
(*   frame's dict iteration order; guess = pairs between pool vertices     *)
(* ======================================================================= *)

Pow4 == <<1, 4, 16, 64, 256>>          \* (spread/0.005)^2 for spread = 0.005 .. 0.08

IXs(s) == {s.pos0[i][1] : i \in Range(s.ord0)} \cup {s.pos1[j][1] : j \in Range(s.ord1)}
IYs(s) == {s.pos0[i][2] : i \in Range(s.ord0)} \cup {s.pos1[j][2] : j \in Range(s.ord1)}
IMaxCoord(s) == Max(SMax(IXs(s)) - SMin(IXs(s)), SMax(IYs(s)) - SMin(IYs(s)))
ISide(pos, ord, c) == LET S == {pos[i][c] : i \in Range(ord)} IN SMax(S) - SMin(S)
\* displacement > 0.10 * maxcoord  (compared exactly)
IDifferent(s) ==
  LET dw == ISide(s.pos1, s.ord1, 1) - ISide(s.pos0, s.ord0, 1)
      dh == ISide(s.pos1, s.ord1, 2) - ISide(s.pos0, s.ord0, 2)
      M  == IMaxCoord(s)
  IN  100 * (dw * dw + dh * dh) > M * M

PosIn(ord, x) == CHOOSE k \in DOMAIN ord : ord[k] = x

\* find_best(v0 = i, pool = frame t+1 in order ord1, found = taken): radius doubling with strict <,
\* candidate list not cleared between radii (so it stops one doubling after the first hit),
\* nearest wins; ties: first in the concatenation Inverse ++ Obverse
IFindBest(s, M, i, taken) ==
  LET M2 == M * M
      avail == {j \in Range(s.ord1) : j \notin taken}
      InR(j, k) == 40000 * D2(s.pos0[i], s.pos1[j]) < Pow4[k] * M2       \* inside the radius of round k
      \* length of the (never cleared) candidate list after round k
      L(k) == Cardinality({pr \in avail \X (1..k) : InR(pr[1], pr[2])})
      ks == IF L(1) > 1 THEN 1 ELSE IF L(2) > 1 THEN 2 ELSE IF L(3) > 1 THEN 3 ELSE IF L(4) > 1 THEN 4 ELSE 5
      C  == {j \in avail : InR(j, ks)}
      inverseRan == ks <= 4 /\ L(ks) > 1        \* spread after the loop still < cutoff
  IN  IF C = {} THEN NoneV
      ELSE LET dmin == SMin({D2(s.pos0[i], s.pos1[j]) : j \in C})
               T == {j \in C : D2(s.pos0[i], s.pos1[j]) = dmin}
               ps == {PosIn(s.ord1, j) : j \in T}
           IN  s.ord1[IF inverseRan THEN SMax(ps) ELSE SMin(ps)]

RECURSIVE IAssign(_, _, _, _)
IAssign(s, M, k, map) ==
  IF k > Len(s.ord0) THEN map
  ELSE LET i == s.ord0[k] IN
       IF map[i] # Unset THEN IAssign(s, M, k + 1, map)
       ELSE IAssign(s, M, k + 1,
                    [map EXCEPT ![i] = IFindBest(s, M, i, {map[x] : x \in DOMAIN map} \ {Unset})])

\* result: [none, map] with map a sequence over the vertices of frame t (Unset = not a key)
IMapping(s) ==
  IF IDifferent(s) THEN [none |-> TRUE, map |-> <<>>]
  ELSE LET n0 == Len(s.pos0)
           g0 == [i \in 1..n0 |-> IF \E g \in Range(s.guess) : g[1] = i
                                  THEN (CHOOSE g \in Range(s.guess) : g[1] = i)[2] ELSE Unset]
       IN  [none |-> FALSE, map |-> IAssign(s, IMaxCoord(s), 1, g0)]

\* the same correspondence in the `mp` shape of the D layer
AsPairs(im) == [none |-> im.none,
                pairs |-> IF im.none THEN <<>> ELSE
                          LET KS == {i \in DOMAIN im.map : im.map[i] # Unset}
                              RECURSIVE F(_)
                              F(S) == IF S = {} THEN <<>> ELSE LET x == SMin(S) IN <<<<x, im.map[x]>>>> \o F(S \ {x})
                          IN F(KS)]

\* get_point_id_by_map over one step: forward = dict lookup (KeyError = Raise), backward = lookup
\* in the inverted dict {v: k} built in key order ord (later keys overwrite earlier ones)
IFwd(im, i) == IF i \in DOMAIN im.map /\ im.map[i] # Unset THEN im.map[i] ELSE Raise
IBack(im, ord, j) ==
  LET KK == {k \in DOMAIN ord : im.map[ord[k]] = j}
  IN  IF KK = {} THEN Raise ELSE ord[SMax(KK)]

(* ======================================================================= *)
(* C13 — velocities in exact rational arithmetic (integer grids) and in    *)
(* fixed point (traces)                                                    *)
(* ======================================================================= *)
\* transcription of calculate_velocity for a two-frame series (frame 2 is the last frame):
\* result <<numerator x, numerator y, denominator>>
IVelocity(s, im, stamps, frame, v) ==
  IF frame = 1
  THEN LET q == IFwd(im, v) IN
       IF q \in {Raise, NoneV} THEN <<0, 0, stamps[2] - stamps[1]>>
       ELSE <<s.pos1[q][1] - s.pos0[v][1], s.pos1[q][2] - s.pos0[v][2], stamps[2] - stamps[1]>>
  ELSE LET q == IBack(im, s.ord0, v) IN
       IF q = Raise THEN <<0, 0, stamps[1] - stamps[2]>>
       ELSE <<s.pos0[q][1] - s.pos1[v][1], s.pos0[q][2] - s.pos1[v][2], stamps[1] - stamps[2]>>

\* D: finite difference towards the tracked partner over the real elapsed time, zero without partner
DVelocityOK(st, mp, stamps, frame, v, r) ==
  IF frame = 1
  THEN LET q == DFwd(mp, v) IN
       IF q \in {Raise, NoneV, Unres} THEN r[1] = 0 /\ r[2] = 0
       ELSE /\ r[1] * (stamps[2] - stamps[1]) = (st.pos1[q][1] - st.pos0[v][1]) * r[3]
            /\ r[2] * (stamps[2] - stamps[1]) = (st.pos1[q][2] - st.pos0[v][2]) * r[3]
  ELSE LET B == DBackSet(mp, v) IN
       IF B = {} THEN r[1] = 0 /\ r[2] = 0
       ELSE \E q \in B :
            /\ r[1] * (stamps[2] - stamps[1]) = (st.pos1[v][1] - st.pos0[q][1]) * r[3]
            /\ r[2] * (stamps[2] - stamps[1]) = (st.pos1[v][2] - st.pos0[q][2]) * r[3]

\* set_velocity_matrix (dimensional): rows row[j], row[j]+1 (0-based) hold v_j; static mode: zeros
IRhs(nrows, used, row, vel, dynamic) ==
  LET RECURSIVE F(_, _)
      F(k, b) == IF k > Len(used) \/ ~dynamic THEN b
                 ELSE LET j == used[k] IN
                      F(k + 1, [b EXCEPT ![row[j] + 1] = <<vel[j][1], vel[j][3]>>,
                                         ![row[j] + 2] = <<vel[j][2], vel[j][3]>>])
  IN  F(1, [k \in 1..nrows |-> <<0, 1>>])
DRhsOK(b, used, row, vel, dynamic) ==
  IF ~dynamic THEN \A k \in DOMAIN b : b[k][1] = 0
  ELSE \A j \in Range(used) :
         /\ b[row[j] + 1][1] * vel[j][3] = vel[j][1] * b[row[j] + 1][2]
         /\ b[row[j] + 2][1] * vel[j][3] = vel[j][2] * b[row[j] + 2][2]

\* ---- fixed point (Q = 10^6) -------------------------------------------------------------
\* Euclidean norm with extra internal digits for small vectors
RECURSIVE NormHi(_)
NormHi(v) == LET m == Max(Abs(v[1]), Abs(v[2])) IN
             IF m = 0 THEN 0
             ELSE IF m < 300000 THEN NormHi(<<10 * v[1], 10 * v[2]>>) \div 10
             ELSE Norm(v)
\* mean of a non-empty sequence of non-negative fixed-point numbers without overflow
MeanSeq(xs) == LET n == Len(xs) IN
               SumSeq([k \in 1..n |-> xs[k] \div n]) + SumSeq([k \in 1..n |-> xs[k] % n]) \div n
\* tolerance of  v * dt = dp  in ulps of Q: quantisation of v (0.5 ulp) times |dt|, of the two time stamps
\* (1 ulp) times |v|, of the two positions (1 ulp), of Mul (2 ulp); doubled, plus 10
FdTol(dt, v) == 10 + 2 * (Abs(dt) \div Q + 1) + 2 * (Abs(v) \div Q + 1)

(* ======================================================================= *)
(* Known-finding matchers (instance level)                                 *)
(* ======================================================================= *)
\* findings/c12_guess_missing_frame.py: the user-supplied guess has entries for some steps only and the
\* construction of the correspondence raised KeyError (TimeSeries.__post_init__ indexes initial_guess[key])
KF_GuessMissingFrame(en, ns) == en.guess_missing /\ ns.raised = "KeyError"
=============================================================================

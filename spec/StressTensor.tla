---------------------------- MODULE StressTensor ----------------------------
(***************************************************************************)
(* C18 - coarse-grained stress tensor (forsys/stress_tensor.py,            *)
(* Frame.calculate_stress_tensor).                                         *)
(*                                                                         *)
(* Declarative content, per grid position (row, column), 0-based, row = x  *)
(* bin, column = y bin:                                                    *)
(*   centre   = mid points of the logged histogram edges                   *)
(*   selected = cells whose centroid lies within radius*sqrt(mean area/pi) *)
(*              of the centre, decided on squared distances with           *)
(*              333/106 < pi < 355/113 and an explicit quantisation margin *)
(*              (undecidable position = rejected input for that position)  *)
(*   tensor   = Batchelor sum over the selected cells and the interfaces   *)
(*              that have a selected cell among their own cells            *)
(* and the clauses symmetric / zero_iff_empty / linear / pure_pressure /   *)
(* batchelor / principal_is_eigen / principal_key.                         *)
(* All reals are fixed point at Q = 10^6; every tolerance is explicit and  *)
(* contains the quantisation bound of the logged data (<= 0.5 ulp each).   *)
(***************************************************************************)
EXTENDS FixedPoint, TLC

\* The projection clips at +-1999.9. Reported tensor entries are judged when |x| < 1000 (so that
\* every difference formed below fits 32 bits); larger ones are out of range for this specification.
LIM == 1000 * Q
InR(x) == Abs(x) < LIM
LinR(v) == \A k \in 1..4 : Abs(v[k]) <= 250 * Q      \* |a|, |b| <= 4: a v1 + b v2 fits

(* ------------------------------------------------------------------------ *)
(* Keys: the dictionary of tensors is keyed by str(row) ++ str(column).     *)
(* ------------------------------------------------------------------------ *)
RECURSIVE Digits(_)
Digits(k) == IF k < 10 THEN <<k>> ELSE Digits(k \div 10) \o <<k % 10>>
KeyDigits(r, c) == Digits(r) \o Digits(c)             \* model on integer pairs
KeyStr(r, c)    == ToString(r) \o ToString(c)         \* the same, as the string the code uses
\* C18 does not state the key format: an unambiguous key (a pair, or a string with a separator) is
\* projected by the driver to "row,column" and denotes that position
KeySep(r, c)    == ToString(r) \o "," \o ToString(c)
Positions(G)    == (0..(G - 1)) \X (0..(G - 1))
Colliders(G, r, c) ==
  LET k == KeyDigits(r, c) IN {q \in Positions(G) : q # <<r, c>> /\ KeyDigits(q[1], q[2]) = k}
\* known-finding matcher: the key of this grid position is shared with another position
KF_KeyCollision(G, r, c) == Colliders(G, r, c) # {}
KeysInjectiveAt(G) == \A q \in Positions(G) : Colliders(G, q[1], q[2]) = {}
DistinctKeys(G)    == {KeyDigits(q[1], q[2]) : q \in Positions(G)}
\* implementation-shaped: the dict is filled row-major, the later write wins
RowMajor(G, q)  == q[1] * G + q[2]
Winner(G, r, c) == LET S == Colliders(G, r, c) \cup {<<r, c>>}
                   IN  CHOOSE q \in S : \A p \in S : RowMajor(G, p) <= RowMajor(G, q)

(* ------------------------------------------------------------------------ *)
(* small helpers                                                            *)
(* ------------------------------------------------------------------------ *)
\* floor(a * p / q) for a >= 0 without overflow as long as the result (times ~1) fits
MulRat(a, p, q) == (a \div q) * p + ((a % q) * p) \div q

RECURSIVE SumSel(_, _, _, _)        \* sum of f[i] over i in S, i = lo..n (f a sequence)
SumSel(f, S, i, n) == IF i > n THEN 0 ELSE (IF i \in S THEN f[i] ELSE 0) + SumSel(f, S, i + 1, n)
RECURSIVE SumAll(_, _, _)
SumAll(f, i, n) == IF i > n THEN 0 ELSE f[i] + SumAll(f, i + 1, n)
RECURSIVE SatSum(_, _, _, _, _)     \* saturating sum of non-negative terms (never overflows)
SatSum(f, i, n, acc, cap) == IF i > n \/ acc >= cap THEN acc ELSE SatSum(f, i + 1, n, acc + f[i], cap)
RECURSIVE MinSeq(_, _, _)
MinSeq(f, i, n) == IF i = n THEN f[i] ELSE Min(f[i], MinSeq(f, i + 1, n))
RECURSIVE MaxSeq(_, _, _)
MaxSeq(f, i, n) == IF i = n THEN f[i] ELSE Max(f[i], MaxSeq(f, i + 1, n))
Max3(a, b, c) == Max(a, Max(b, c))

PosRow(G, q) == (q - 1) \div G      \* q in 1..G*G  ->  0-based (row, column)
PosCol(G, q) == (q - 1) % G

(* ------------------------------------------------------------------------ *)
(* Env event: premises                                                      *)
(*  e = [G, radius, n, cx, cy, A, m, oc, vx, vy, big, xe, ye]               *)
(* ------------------------------------------------------------------------ *)
COORD == 60 * Q
EnvOK(e) ==
  /\ e.G >= 1 /\ e.G <= 12 /\ e.n >= 1 /\ e.n <= 120 /\ e.m >= 0 /\ e.m <= 600
  /\ Len(e.cx) = e.n /\ Len(e.cy) = e.n /\ Len(e.A) = e.n
  /\ Len(e.oc) = e.m /\ Len(e.vx) = e.m /\ Len(e.vy) = e.m /\ Len(e.big) = e.m
  /\ Len(e.xe) = e.G + 1 /\ Len(e.ye) = e.G + 1
  /\ e.radius >= Q \div 10 /\ e.radius <= 10 * Q
  /\ \A i \in 1..e.n : Abs(e.cx[i]) <= COORD /\ Abs(e.cy[i]) <= COORD /\ e.A[i] >= 10000 /\ e.A[i] <= 20 * Q
  /\ SatSum(e.A, 1, e.n, 0, 191 * Q) <= 190 * Q /\ SumAll(e.A, 1, e.n) \div e.n <= 5 * Q
  \* (range of every logged coordinate first: clipped out-of-range values must not reach the differences below)
  /\ \A i \in 1..(e.G + 1) : Abs(e.xe[i]) <= COORD /\ Abs(e.ye[i]) <= COORD
  \* all centre-to-centroid distances are < 30, so that squared distances fit 32 bits
  /\ e.xe[e.G + 1] - e.xe[1] <= 28 * Q /\ e.ye[e.G + 1] - e.ye[1] <= 28 * Q
  /\ \A i \in 1..e.n : /\ e.cx[i] >= e.xe[1] - Q /\ e.cx[i] <= e.xe[e.G + 1] + Q
                       /\ e.cy[i] >= e.ye[1] - Q /\ e.cy[i] <= e.ye[e.G + 1] + Q
  /\ \A i \in 1..e.G : e.xe[i + 1] - e.xe[i] >= 100 /\ e.ye[i + 1] - e.ye[i] >= 100
  /\ \A j \in 1..e.m : \A k \in DOMAIN e.oc[j] : e.oc[j][k] \in 0..e.n

\* incidental (not stated by C18): the grid is the uniform histogram grid over the centroid range
GridDrift(e) ==
  LET one(ed, cs) ==
        LET lo == MinSeq(cs, 1, e.n)  hi == MaxSeq(cs, 1, e.n)
            w  == (ed[e.G + 1] - ed[1]) \div e.G
        IN  /\ (hi - lo > 10) => (Abs(ed[1] - lo) <= 2 /\ Abs(ed[e.G + 1] - hi) <= 2)
            /\ \A i \in 1..e.G : Abs(ed[i + 1] - ed[i] - w) <= 4
  IN  (IF one(e.xe, e.cx) THEN {} ELSE {"C18.grid_x_not_uniform_over_centroid_range"})
      \cup (IF one(e.ye, e.cy) THEN {} ELSE {"C18.grid_y_not_uniform_over_centroid_range"})

(* ------------------------------------------------------------------------ *)
(* Stage 1 tables (depend on the Env event only)                            *)
(* ------------------------------------------------------------------------ *)
\* per interface: K = v v^T / |v| with its error bound (ulps):
\*   N = Mul(vx,vx): |dN| <= |v| + 2; nv = FSqrt(Norm2): |dnv| <= 3 + 2/|v|; K = N / nv:
\*   |dK| <= dN/|v| + K dnv/|v| + 1 <= 5 + 4/|v|   (|v| as a real number)  -> ek = 6 + 5Q/nv
KOf(vx, vy, big) ==
  IF big \/ Abs(vx) > 30 * Q \/ Abs(vy) > 30 * Q THEN [ok |-> FALSE, xx |-> 0, yy |-> 0, xy |-> 0, ek |-> 0, mx |-> 0]
  ELSE LET nv == FSqrt(Mul(vx, vx) + Mul(vy, vy))
       IN  IF nv < 20000 THEN [ok |-> FALSE, xx |-> 0, yy |-> 0, xy |-> 0, ek |-> 0, mx |-> 0]
           ELSE LET xx == FDiv(Mul(vx, vx), nv)
                    yy == FDiv(Mul(vy, vy), nv)
                    xy == FDiv(Mul(vx, vy), nv)
                IN  [ok |-> TRUE, xx |-> xx, yy |-> yy, xy |-> xy, ek |-> 6 + (5 * Q) \div nv,
                     mx |-> Max3(xx, yy, Abs(xy))]

Geo1(e) ==
  LET G == e.G  n == e.n
      sumA  == SumAll(e.A, 1, n)
      amean == sumA \div n                       \* error <= 1.5 ulp (0.5 mean quantisation + floor)
      r2    == Mul(e.radius, e.radius)
  IN  [X    |-> [r \in 1..G |-> (e.xe[r] + e.xe[r + 1]) \div 2],     \* error <= 1 ulp
       Y    |-> [c \in 1..G |-> (e.ye[c] + e.ye[c + 1]) \div 2],
       thr  |-> Mul(r2, amean),                  \* radius^2 * mean area   (to compare with pi d^2)
       ethr |-> 2 * (r2 \div Q + 1) + 8,
       \* d = centre - centroid: |dd| <= 1.5 ulp; d^2: 2|d| 1.5 ulp + Mul 2 ulp  ->  3|d|/Q + 4
       DX2  |-> [r \in 1..G |-> [i \in 1..n |-> LET d == (e.xe[r] + e.xe[r + 1]) \div 2 - e.cx[i] IN Mul(d, d)]],
       EX   |-> [r \in 1..G |-> [i \in 1..n |-> LET d == (e.xe[r] + e.xe[r + 1]) \div 2 - e.cx[i] IN (3 * Abs(d)) \div Q + 4]],
       DY2  |-> [c \in 1..G |-> [i \in 1..n |-> LET d == (e.ye[c] + e.ye[c + 1]) \div 2 - e.cy[i] IN Mul(d, d)]],
       EY   |-> [c \in 1..G |-> [i \in 1..n |-> LET d == (e.ye[c] + e.ye[c + 1]) \div 2 - e.cy[i] IN (3 * Abs(d)) \div Q + 4]],
       K    |-> [j \in 1..e.m |-> KOf(e.vx[j], e.vy[j], e.big[j])],
       ce   |-> [i \in 1..n |-> {j \in 1..e.m : \E k \in DOMAIN e.oc[j] : e.oc[j][k] = i}]]

(* ------------------------------------------------------------------------ *)
(* Stage 2: selection per grid position                                     *)
(*   inside  <=>  pi * d2 <= radius^2 * mean area                           *)
(*   1 = certainly inside, 0 = certainly outside, 2 = undecidable           *)
(* ------------------------------------------------------------------------ *)
Decide(d2, e2, thr, ethr) ==
  IF d2 - e2 > thr + ethr THEN 0                                  \* pi > 1
  ELSE IF MulRat(d2 + e2, 355, 113) + 2 <= thr - ethr THEN 1
  ELSE IF MulRat(Max(d2 - e2, 0), 333, 106) > thr + ethr THEN 0
  ELSE 2

SelTable(e, g) ==
  LET G == e.G  n == e.n IN
  [q \in 1..(G * G) |->
     LET r == PosRow(G, q) + 1
         c == PosCol(G, q) + 1
         dec(i) == Decide(g.DX2[r][i] + g.DY2[c][i], g.EX[r][i] + g.EY[c][i], g.thr, g.ethr)
         in == {i \in 1..n : dec(i) = 1}
         un == {i \in 1..n : dec(i) = 2}
     IN  [s |-> in, ok |-> un = {}]]

(* ------------------------------------------------------------------------ *)
(* Per run (pressures p, tensions T): product tables and range guards       *)
(* ------------------------------------------------------------------------ *)
RunOK(e, p, T) == Len(p) = e.n /\ Len(T) = e.m
                  /\ (\A i \in 1..e.n : Abs(p[i]) <= 50 * Q) /\ (\A j \in 1..e.m : Abs(T[j]) <= 50 * Q)

RunTab(e, g, p, T) ==
  LET n == e.n  m == e.m
      gp == [i \in 1..n |-> (Abs(p[i]) \div 10000 + 1) * (e.A[i] \div 10000 + 1)]
      gt == [j \in 1..m |-> (Abs(T[j]) \div 10000 + 1) * (g.K[j].mx \div 10000 + 1)]
      GCAP == 9000000        \* sum |p| A < 900 and sum |T| K < 900: every partial sum of the numerators < 1800
  IN  [ok  |-> SatSum(gp, 1, n, 0, GCAP) < GCAP /\ SatSum(gt, 1, m, 0, GCAP) < GCAP,
       pa  |-> [i \in 1..n |-> Mul(p[i], e.A[i])],
       epa |-> [i \in 1..n |-> (Abs(p[i]) + e.A[i]) \div Q + 3],
       txx |-> [j \in 1..m |-> Mul(T[j], g.K[j].xx)],
       tyy |-> [j \in 1..m |-> Mul(T[j], g.K[j].yy)],
       txy |-> [j \in 1..m |-> Mul(T[j], g.K[j].xy)],
       \* |d(T K)| <= |T| ek + |K| 0.5 + 2
       etk |-> [j \in 1..m |-> ((Abs(T[j]) \div 1000 + 1) * g.K[j].ek) \div 1000 + g.K[j].mx \div Q + 4],
       bad |-> {j \in 1..m : ~g.K[j].ok /\ T[j] # 0}]

\* the tensor the specification expects for a selection S, with its tolerance
NoExp == [ok |-> FALSE, xx |-> 0, yy |-> 0, xy |-> 0, tol |-> 0]
ExpOf(e, g, tab, S) ==
  IF S = {} THEN [ok |-> TRUE, xx |-> 0, yy |-> 0, xy |-> 0, tol |-> 0]
  ELSE IF ~tab.ok THEN NoExp
  ELSE
  LET n == e.n  m == e.m
      ES  == UNION {g.ce[i] : i \in S}
      sa  == SumSel(e.A, S, 1, n)
      np  == -SumSel(tab.pa, S, 1, n)
      nxx == np + SumSel(tab.txx, ES, 1, m)
      nyy == np + SumSel(tab.tyy, ES, 1, m)
      nxy == SumSel(tab.txy, ES, 1, m)
      en  == SumSel(tab.epa, S, 1, n) + SumSel(tab.etk, ES, 1, m)
  IN  IF ES \cap tab.bad # {} \/ Max3(Abs(nxx), Abs(nyy), Abs(nxy)) \div sa >= 999 THEN NoExp
      ELSE LET xx == FDiv(nxx, sa)  yy == FDiv(nyy, sa)  xy == FDiv(nxy, sa)
               smax == Max3(Abs(xx), Abs(yy), Abs(xy))
               \* numerator error / area + |sigma| * (area error: 1 ulp per cell) / area + division
               bound == FDiv(en, sa) + (smax \div Q + 1) * (FDiv(Cardinality(S), sa) + 1) + 2
           IN  [ok |-> TRUE, xx |-> xx, yy |-> yy, xy |-> xy, tol |-> 20 + 4 * bound]

ExpFn(e, g, sel, tab) ==
  LET D == {sel[q].s : q \in {qq \in 1..(e.G * e.G) : sel[qq].ok}}
  IN  [S \in D |-> ExpOf(e, g, tab, S)]

(* ------------------------------------------------------------------------ *)
(* What the code reports for a grid position: the dictionary entry under    *)
(* the position's key (<<>> when there is none).                            *)
(* ------------------------------------------------------------------------ *)
ValsOf(G, ent) ==
  [q \in 1..(G * G) |->
     LET k  == KeyStr(PosRow(G, q), PosCol(G, q))
         k2 == KeySep(PosRow(G, q), PosCol(G, q))
         J  == {j \in 1..Len(ent) : ent[j].k = k \/ ent[j].k = k2}
     IN  IF J = {} THEN <<>> ELSE ent[CHOOSE j \in J : TRUE].s]

ZERO4 == <<0, 0, 0, 0>>
ValInR(v) == v # <<>> /\ \A k \in 1..4 : InR(v[k])

Pure(p, T) == (\A j \in DOMAIN T : T[j] = 0) /\ (\A i \in DOMAIN p : p[i] = p[1])

\* premise of the linearity clause: run 3 is the combination a * run 1 + b * run 2 (as logged)
Combo(x3, x1, x2, a, b) ==
  /\ Len(x3) = Len(x1) /\ Len(x3) = Len(x2)
  /\ \A i \in DOMAIN x3 : Abs(x3[i] - (Mul(a, x1[i]) + Mul(b, x2[i]))) <= 8 + (Abs(a) + Abs(b)) \div Q

\* Failing clauses of a Tensor event at grid position q.
\*   val : reported 4-tuple <<xx, xy, yx, yy>> or <<>>;  sq : [s, ok];  ex : expected (only if sq.ok)
\*   pure: premise of pure_pressure holds, p0 its pressure;
\*   lin : [on, a, b, v1, v2] (v1, v2 reported 4-tuples of the two combined runs at q)
TensorFailsAt(val, sq, ex, pure, p0, lin) ==
  IF val = <<>> THEN {"C18.tensor_missing"}
  ELSE IF ~ValInR(val) THEN {}
  ELSE
     (IF val[2] # val[3] THEN {"C18.symmetric"} ELSE {})
     \cup (IF sq.ok /\ sq.s = {} /\ val # ZERO4 THEN {"C18.zero_iff_empty"} ELSE {})
     \cup (IF sq.ok /\ sq.s # {} /\ ex.ok /\ val = ZERO4
              /\ Max3(Abs(ex.xx), Abs(ex.yy), Abs(ex.xy)) > 2 * ex.tol + 100 THEN {"C18.zero_iff_empty"} ELSE {})
     \cup (IF sq.ok /\ ex.ok /\ ~(/\ Close(val[1], ex.xx, ex.tol) /\ Close(val[4], ex.yy, ex.tol)
                                  /\ Close(val[2], ex.xy, ex.tol) /\ Close(val[3], ex.xy, ex.tol))
           THEN {"C18.batchelor"} ELSE {})
     \cup (IF pure /\ sq.ok /\ ~(IF sq.s = {} THEN val = ZERO4
                                 ELSE /\ Close(val[1], -p0, 5) /\ Close(val[4], -p0, 5)
                                      /\ Abs(val[2]) <= 5 /\ Abs(val[3]) <= 5)
           THEN {"C18.pure_pressure"} ELSE {})
     \cup (IF lin.on /\ ValInR(lin.v1) /\ ValInR(lin.v2) /\ LinR(lin.v1) /\ LinR(lin.v2)
              /\ \E k \in 1..4 : ~Close(val[k], Mul(lin.a, lin.v1[k]) + Mul(lin.b, lin.v2[k]),
                                        20 + 2 * ((Abs(lin.a) + Abs(lin.b)) \div Q))
           THEN {"C18.linear"} ELSE {})

(* ------------------------------------------------------------------------ *)
(* Eigen certificate.  s = [xx, yy, xy] with entry error <= tolS;           *)
(* w = <<l1, l2>>, v = <<v11, v12, v21, v22>> (columns are the vectors).    *)
(* Returns the set of failed sub-clauses.                                   *)
(*   trace   : l1 + l2 = tr                                                 *)
(*   charpoly: l^2 - tr l + det = 0         (when magnitudes allow 32 bit)  *)
(*   vector  : (sigma - l I) u = 0, u non-zero                              *)
(* ------------------------------------------------------------------------ *)
EigPair(s, tolS, lam, ux, uy) ==
  LET mm   == Max(Abs(ux), Abs(uy))
      small == Max3(Abs(s.xx), Abs(s.yy), Abs(lam)) <= 15 * Q /\ Abs(s.xy) <= 15 * Q
      cp   == Mul(lam, lam) - Mul(s.xx + s.yy, lam) + Mul(s.xx, s.yy) - Mul(s.xy, s.xy)
      tolC == ((2 * Abs(lam) + Abs(s.xx) + Abs(s.yy) + 2 * Abs(s.xy)) \div Q + 2) * (tolS + 2) + 20
      rx   == Mul(s.xx - lam, ux) + Mul(s.xy, uy)
      ry   == Mul(s.xy, ux) + Mul(s.yy - lam, uy)
      tolR == (Abs(s.xx - lam) \div Q + Abs(s.yy - lam) \div Q + 2 * (Abs(s.xy) \div Q) + 4 + 2 * (tolS + 1)) * (mm \div Q + 1) + 10
  IN  (IF small /\ Abs(cp) > tolC THEN {"charpoly"} ELSE {})
      \cup (IF mm = 0 THEN {"zero_vector"}
            ELSE IF mm < 10000 \/ mm > 2 * Q THEN {}              \* cannot be judged at this resolution
            ELSE IF Abs(rx) > tolR \/ Abs(ry) > tolR THEN {"vector"} ELSE {})

EigenFails(s, tolS, w, v) ==
  IF Max3(Abs(s.xx), Abs(s.yy), Abs(s.xy)) > 200 * Q THEN {}             \* cannot be judged in 32 bits
  ELSE IF Abs(w[1]) > 410 * Q \/ Abs(w[2]) > 410 * Q THEN {"magnitude"}  \* |lambda| <= |xx| + |xy| <= 400
  ELSE (IF ~Close(w[1] + w[2], s.xx + s.yy, 2 * tolS + 4) THEN {"trace"} ELSE {})
       \cup EigPair(s, tolS, w[1], v[1], v[3])
       \cup EigPair(s, tolS, w[2], v[2], v[4])

\* items reported under (approximately) the centre of position q
ItemsAt(e, g, items) ==
  [q \in 1..(e.G * e.G) |->
     LET x == g.X[PosRow(e.G, q) + 1]
         y == g.Y[PosCol(e.G, q) + 1]
     IN  {j \in 1..Len(items) : Abs(items[j].kx - x) <= 3 /\ Abs(items[j].ky - y) <= 3}]

\* Failing clauses of a Principal event at grid position q
PrincipalFailsAt(J, items, sq, ex) ==
  IF Cardinality(J) # 1 THEN {"C18.principal_key"}
  ELSE LET it == items[CHOOSE j \in J : TRUE] IN
       IF ~(sq.ok /\ ex.ok) THEN {}
       ELSE IF it.cplx THEN {"C18.principal_is_eigen"}
       ELSE IF EigenFails(ex, ex.tol, it.w, it.v) # {} THEN {"C18.principal_is_eigen"} ELSE {}
=============================================================================

---------------------------- MODULE Trace_SEDump ----------------------------
(***************************************************************************)
(* Trace validation of the Surface Evolver parser (C14). Per case:         *)
(*   Env   : {d: abstract dump that was serialised (or read by the         *)
(*            independent reader from a shipped file)}                     *)
(*           verdict: rejected iff the premise WellFormed(d) fails         *)
(*   Parse : {p: projection of SurfaceEvolver(path): raised, V, E, C}      *)
(*           judged against the Env by ParseVerdict (D)                    *)
(*   Frame : {f: raised, skipped, I = per interface [path, edges, g] from  *)
(*            Frame(.., gt=True).get_gt_tensions(with_border=True)}        *)
(*           judged against the Env and the last Parse by FrameVerdict     *)
(***************************************************************************)
EXTENDS SEDump, TraceKit

VARIABLES l, env, par
vars == <<l, env, par>>

NoEnv   == [none |-> TRUE]
NoParse == [none |-> TRUE]

Init == l = 1 /\ env = NoEnv /\ par = NoParse

DoEnv(e) ==
  /\ e.ev = "Env"
  /\ LET ok == WellFormed(e.d) IN
     /\ EmitV(e, {}, {}, IF ok THEN {"C14.premise"} ELSE {}, {}, ~ok)
     /\ env' = IF ok THEN e.d ELSE NoEnv
  /\ par' = NoParse

DoParse(e) ==
  /\ e.ev = "Parse"
  /\ IF env = NoEnv THEN EmitV(e, {}, {}, {}, {}, FALSE)
     ELSE EmitV(e, ParseVerdict(env, e.p), ParseKF(env, e.p), ParseHits(env, e.p), ParseDrift(env, e.p), FALSE)
  /\ par' = IF env # NoEnv /\ e.p.raised = "" THEN e.p ELSE NoParse
  /\ UNCHANGED env

DoFrame(e) ==
  /\ e.ev = "Frame"
  /\ IF env = NoEnv \/ par = NoParse \/ e.f.skipped THEN EmitV(e, {}, {}, {}, {}, FALSE)
     ELSE EmitV(e, FrameVerdict(env, par, e.f), {}, FrameHits(env, par, e.f), FrameDrift(env, par, e.f), FALSE)
  /\ UNCHANGED <<env, par>>

Next == /\ l <= Len(TR)
        /\ LET e == TR[l] IN DoEnv(e) \/ DoParse(e) \/ DoFrame(e)
        /\ l' = l + 1

Spec == Init /\ [][Next]_vars
Done == TLCGet("stats").diameter - 1 = Len(TR)
=============================================================================

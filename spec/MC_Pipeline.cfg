SPECIFICATION Spec
CONSTANT Frames = {0, 1}
INVARIANT TypeOK
INVARIANT ResultsNeedPrerequisites
INVARIANT FramesNeverStale
PROPERTY RefusalChangesNothing
VIEW View
CHECK_DEADLOCK FALSE

------------------------- MODULE Trace_SeriesQueries -------------------------
(***************************************************************************)
(* Trace validation of the query surface of a time series (extension check *)
(* `tsqueries`) against the declarative layer of SeriesQueries.tla.        *)
(* The `Series` event carries everything the driver can see of a freshly   *)
(* constructed ForSys / TimeSeries; from it this module builds the         *)
(* ABSTRACT SERIES (the record of SeriesQueries.tla, positions in fixed    *)
(* point) and every later event - one recorded answer of a public query -  *)
(* is judged against the declarative answer computed from that record.     *)
(* One JSON object per line, vertices are DENSE indices per frame          *)
(* (tracked vertices = interface end points first: 1..k[F], then the       *)
(* other vertices of the mesh up to n[F]); frames 1-based in arrays,       *)
(* 0-based in t / t0 / t1 as in the code.                                  *)
(*                                                                         *)
(*  Series   second, cm, exact, far, raised, nf, k[F], n[F], times[F],     *)
(*           fpos0[F][i] (before construction), fpos[F][i] (after),        *)
(*           unchanged[F], gpos[F][p] (exact: model integers), ord[F],     *)
(*           guess[f] (pairs), guess_ok, want[f] = [none, map] (exact),    *)
(*           maps[f] = [none, pairs], ifc[F] (pairs of ends),              *)
(*           cache[F] (distinct offsets cached - live of the interfaces'   *)
(*           coordinates), ttu, ttu_raised, round3 (cm is a 3-decimal nr), *)
(*           origin (positions are logged relative to it)                  *)
(*  PBM      t0, t1, res[p]   (> 0 vertex, 0 None, -1 id of no tracked     *)
(*           vertex of t1, -3 KeyError, -4 AttributeError, -5 other)       *)
(*  VPos     t0, tmax, rows[v] = <<code, xs, ys>>  (code 1 = lists)        *)
(*  Vel      t, vel[p] = <<code, vx, vy>>  (1 value, -2 DifferentTissue)   *)
(*  WVel / WAcc  t, keys[], vals[] = <<has, value>>, raised                *)
(*  VEdge    t0, t1, rows[e] = <<code, <<has, value>>..>>                  *)
(*  TTU      arg (-1 default, -2 True, n), res[], raised                   *)
(*  Export   parse_ok, steps[], maps[f], raised                            *)
(*  CM       t, before, res <<x, y>>, round3, raised                       *)
(*  Load     file[] = <<k, pairs>>, mn, mx, missing, res[], ints, raised   *)
(*  Reload   maps[f], raised, stage                                        *)
(*  After    maps[f], fpos[F][i]                                           *)
(*  FilterNone  t, moved, shift <<dx, dy>>, raised                         *)
(*  Single   mesh_empty, has_ttu, stores_ok, static_ok, raised             *)
(*                                                                         *)
(* Clauses TSQ.<name>; verdicts are total (every index is guarded).        *)
(***************************************************************************)
EXTENDS SeriesQueries, TraceKit

VARIABLES l, ses, base, vels, bvels, pb, askedV, askedA
tvars == <<l, ses, base, vels, bvels, pb, askedV, askedA>>

NoSes == [nf |-> 0, okk |-> FALSE]
TInit == l = 1 /\ ses = NoSes /\ base = NoSes /\ vels = <<>> /\ bvels = <<>> /\ pb = <<>> /\ askedV = 0 /\ askedA = 0

IsSeq(x, n) == DOMAIN x = 1..n
Pair(x) == DOMAIN x = 1..2
InS(i, s) == i \in DOMAIN s

(* ---- the abstract series of a Series event ------------------------------------------------- *)
\* shape of the event (guards everything indexed below)
ShapeOK(e) ==
  /\ e.nf >= 1 /\ IsSeq(e.k, e.nf) /\ IsSeq(e.n, e.nf) /\ IsSeq(e.times, e.nf)
  /\ IsSeq(e.fpos0, e.nf) /\ IsSeq(e.fpos, e.nf) /\ IsSeq(e.ifc, e.nf) /\ IsSeq(e.cache, e.nf) /\ IsSeq(e.ord, e.nf)
  /\ IsSeq(e.unchanged, e.nf) /\ Pair(e.origin)
  /\ \A F \in 1..e.nf : /\ e.k[F] >= 0 /\ e.k[F] <= e.n[F]
                        /\ IsSeq(e.fpos0[F], e.n[F]) /\ IsSeq(e.fpos[F], e.n[F])
                        /\ \A i \in 1..e.n[F] : Pair(e.fpos0[F][i]) /\ Pair(e.fpos[F][i])
                        /\ \A i \in DOMAIN e.ifc[F] : Pair(e.ifc[F][i])
                        /\ \A i \in DOMAIN e.cache[F] : Pair(e.cache[F][i])
  /\ IsSeq(e.maps, e.nf - 1) /\ IsSeq(e.guess, e.nf - 1)
  /\ \A f \in 1..(e.nf - 1) : (\A i \in DOMAIN e.maps[f].pairs : Pair(e.maps[f].pairs[i])) /\
                               (\A i \in DOMAIN e.guess[f] : Pair(e.guess[f][i]))
\* every step is a partial injective map between the tracked vertices: one entry per tracked vertex
CleanStep(e, f) ==
  e.maps[f].none \/
  LET PS == Range(e.maps[f].pairs) IN
  /\ {pr[1] : pr \in PS} = 1..e.k[f] /\ Cardinality(PS) = e.k[f]
  /\ \A pr \in PS : pr[2] \in 0..e.k[f + 1]
  /\ \A a, b \in PS : (a # b /\ a[2] # 0) => a[2] # b[2]
Clean(e) == \A f \in 1..(e.nf - 1) : CleanStep(e, f)
IfcClean(e) == \A F \in 1..e.nf : \A i \in DOMAIN e.ifc[F] : e.ifc[F][i][1] \in 1..e.k[F] /\ e.ifc[F][i][2] \in 1..e.k[F]
MapOf(e, f) == [p \in 1..e.k[f] |-> (CHOOSE pr \in Range(e.maps[f].pairs) : pr[1] = p)[2]]
\* the record of SeriesQueries.tla (pos = positions AFTER construction, fixed point; stamps fixed point)
AbstractSeries(e) ==
  [nf |-> e.nf, okk |-> TRUE, stamp |-> e.times, k |-> e.k,
   pos |-> [F \in 1..e.nf |-> [i \in 1..e.k[F] |-> e.fpos[F][i]]],
   ord |-> e.ord, guess |-> e.guess,
   ims |-> [f \in 1..(e.nf - 1) |-> IF e.maps[f].none THEN [none |-> TRUE, map |-> <<>>]
                                     ELSE [none |-> FALSE, map |-> MapOf(e, f)]],
   ifc |-> e.ifc,
   cm |-> e.cm, second |-> e.second, exact |-> e.exact, n |-> e.n, fpos |-> e.fpos, fpos0 |-> e.fpos0, maps |-> e.maps]

Usable == ses.okk
TimesOK(s) == \A F \in 1..(s.nf - 1) : s.stamp[F] < s.stamp[F + 1] /\ s.stamp[F + 1] - s.stamp[F] < 190 * Q

(* ---- fixed-point helpers ------------------------------------------------------------------------ *)
\* velocity components of a D velocity <<"vel", dx, dy, dt>> (fixed-point numerators, fixed-point dt)
VComp(v) == <<FDiv(v[2], v[4]), FDiv(v[3], v[4])>>
VInR(v) == /\ Abs(v[4]) >= 1000 /\ Abs(v[2]) \div Abs(v[4]) < 30 /\ Abs(v[3]) \div Abs(v[4]) < 30
SpeedOf(v) == NormHi(VComp(v))
\* quantisation: positions +-0.5 ulp each, stamps +-0.5 ulp each => |dv| <= (1 + |v|) / dt  ulp (dt in units)
VTol(v) == 10 + (4 * Q) \div Abs(v[4]) + (4 * (Abs(v[2]) + Abs(v[3]))) \div Abs(v[4])
SumTol(s, v0, v1) == 200 + s \div 10000 + VTol(v0) + VTol(v1)
AInR(a) == Abs(a[2]) <= 30 * Q /\ Abs(a[3]) <= 30 * Q
ANorm(a) == NormHi(<<a[2], a[3]>>)
Mean1(xs) == MeanSeq(xs)
AllNonNeg(ps) == \A i \in DOMAIN ps : ps[i][1] >= 0 /\ ps[i][2] >= 0
MeanOf(ps) == <<Mean1([i \in DOMAIN ps |-> ps[i][1]]), Mean1([i \in DOMAIN ps |-> ps[i][2]])>>

(* ======================================================================= *)
(* Series: construction                                                    *)
(* ======================================================================= *)
ShiftOf(e, F, i) == <<e.fpos0[F][i][1] - e.fpos[F][i][1], e.fpos0[F][i][2] - e.fpos[F][i][2]>>
SameVec(a, b, tol) == Close(a[1], b[1], tol) /\ Close(a[2], b[2], tol)
GuessSetOf(e, f) == Range(e.guess[f])
GuessInj(e, f) == \A g, h \in GuessSetOf(e, f) : (g[1] = h[1]) = (g[2] = h[2] /\ g[2] # 0) \/ (g = h)
\* exact FAR instances: nothing lies inside the search radius, the correspondence is the guess completed by None;
\* the premise is evaluated here, on the logged model integers, with the transcription of the tracker.
\* (instances whose frames drift by a few units are linked by proximity: there a difference between the object's
\* correspondence and the transcription is reported as drift TSQ.I_mapping - the tracker itself is C12's business -
\* and every query is judged against the object's OWN correspondence in any case)
ExactStep(e, f) == [pos0 |-> e.gpos[f], pos1 |-> e.gpos[f + 1], ord0 |-> e.ord[f], ord1 |-> e.ord[f + 1], guess |-> e.guess[f]]
ExactOK(e) == /\ e.exact /\ IsSeq(e.gpos, e.nf) /\ IsSeq(e.want, e.nf - 1)
              /\ \A F \in 1..e.nf : IsSeq(e.gpos[F], e.k[F]) /\ IsSeq(e.ord[F], e.k[F]) /\ Range(e.ord[F]) = 1..e.k[F]
              /\ \A f \in 1..(e.nf - 1) : \A g \in GuessSetOf(e, f) : g[1] \in 1..e.k[f] /\ g[2] \in 0..e.k[f + 1]
TrackerSays(e, f) == IMapping(ExactStep(e, f))
SameAsModel(e, f, im) == /\ im.none = e.maps[f].none
                         /\ (~im.none => \A p \in 1..e.k[f] : im.map[p] = MapOf(e, f)[p])

DoSeries(e) ==
  /\ e.ev = "Series"
  /\ LET shaped == e.raised = "" /\ ShapeOK(e)
         clean == shaped /\ Clean(e) /\ IfcClean(e)
         s == IF clean THEN AbstractSeries(e) ELSE NoSes
         Fr == IF shaped THEN 1..e.nf ELSE {}
         St == IF shaped THEN 1..(e.nf - 1) ELSE {}
         gok == shaped /\ e.guess_ok /\ \A f \in St : GuessInj(e, f)
         \* ---- positions after construction
         shiftsSame(F) == \A i \in 1..e.n[F] : SameVec(ShiftOf(e, F, i), ShiftOf(e, F, 1), 3)
         meanOK(F) == AllNonNeg(e.fpos0[F]) /\ e.n[F] > 0
         cmBad(F) == IF ~e.cm THEN ~e.unchanged[F]
                     ELSE meanOK(F) /\ ~SameVec(ShiftOf(e, F, 1), <<MeanOf(e.fpos0[F])[1] + e.origin[1], MeanOf(e.fpos0[F])[2] + e.origin[2]>>, 500 + 6)
         cacheBad(F) == \E i \in DOMAIN e.cache[F] : ~SameVec(e.cache[F][i], ShiftOf(e, F, 1), 3)
         exact == clean /\ ExactOK(e) /\ ~e.cm
         wantBad(f) == LET w == e.want[f] IN
                       \/ w.none # e.maps[f].none
                       \/ (~w.none /\ (DOMAIN w.map # 1..e.k[f] \/ \E p \in 1..e.k[f] : w.map[p] # MapOf(e, f)[p]))
         \* premise (in TLA+): the instance's correspondence is what the tracker model says for the logged positions
         premise(f) == exact /\ LET im == TrackerSays(e, f)  w == e.want[f] IN
                                im.none = w.none /\ (~im.none => DOMAIN w.map = 1..e.k[f] /\ \A p \in 1..e.k[f] : im.map[p] = w.map[p])
         fails ==
           (IF e.raised # "" THEN {"TSQ.construct_raised"} ELSE {}) \cup
           (IF e.raised = "" /\ ~shaped THEN {"TSQ.series_shape"} ELSE {}) \cup
           (IF shaped /\ gok /\ ~clean THEN {"TSQ.series_wellformed"} ELSE {}) \cup
           (IF shaped /\ gok /\ (\E f \in St : ~e.maps[f].none /\ ~(GuessSetOf(e, f) \subseteq Range(e.maps[f].pairs)))
               THEN {"TSQ.guess_honoured"} ELSE {}) \cup
           (IF exact /\ e.far /\ (\E f \in St : premise(f) /\ wantBad(f)) THEN {"TSQ.construct_map"} ELSE {}) \cup
           (IF shaped /\ (\E F \in Fr : e.n[F] > 0 /\ cmBad(F)) THEN {"TSQ.cm_positions"} ELSE {}) \cup
           (IF shaped /\ e.cm /\ (\E F \in Fr : e.n[F] > 0 /\ ~shiftsSame(F)) THEN {"TSQ.cm_moves_all"} ELSE {}) \cup
           (IF shaped /\ e.cm /\ ~e.round3 THEN {"TSQ.cm_positions"} ELSE {}) \cup
           (IF shaped /\ (\E F \in Fr : e.n[F] > 0 /\ shiftsSame(F) /\ cacheBad(F)) THEN {"TSQ.cm_cache_rigid"} ELSE {}) \cup
           (IF clean /\ e.nf >= 2 /\ (e.ttu_raised # "" \/ e.ttu # TimesToUse(s, e.nf)) THEN {"TSQ.forsys_times_to_use"} ELSE {})
         hits == (IF clean THEN {"TSQ.series_wellformed", "TSQ.forsys_times_to_use"} ELSE {}) \cup
                 (IF shaped /\ gok /\ (\E f \in St : ~e.maps[f].none /\ e.guess[f] # <<>>) THEN {"TSQ.guess_honoured"} ELSE {}) \cup
                 (IF exact /\ e.far /\ (\E f \in St : premise(f)) THEN {"TSQ.construct_map"} ELSE {}) \cup
                 (IF exact /\ ~e.far /\ (\E f \in St : premise(f)) THEN {"TSQ.tracked_by_proximity"} ELSE {}) \cup
                 (IF shaped /\ e.cm /\ (\E F \in Fr : meanOK(F)) THEN {"TSQ.cm_positions", "TSQ.cm_moves_all"} ELSE {}) \cup
                 (IF shaped /\ ~e.cm THEN {"TSQ.positions_untouched"} ELSE {}) \cup
                 (IF shaped /\ (\E F \in Fr : e.cache[F] # <<>>) THEN {"TSQ.cm_cache_rigid"} ELSE {}) \cup
                 (IF clean /\ (\E f \in St : e.maps[f].none) THEN {"TSQ.skipped_step_present"} ELSE {}) \cup
                 (IF clean /\ (\E f \in St : ~e.maps[f].none /\ \E pr \in Range(e.maps[f].pairs) : pr[2] = 0) THEN {"TSQ.lost_vertex_present"} ELSE {})
         drift == (IF exact /\ (\E f \in St : ~SameAsModel(e, f, TrackerSays(e, f))) THEN {"TSQ.I_mapping"} ELSE {}) \cup
                  \* observation: the interfaces keep the coordinates they were constructed with
                  (IF shaped /\ e.cm /\ (\E F \in Fr : \E i \in DOMAIN e.cache[F] : ~SameVec(e.cache[F][i], <<0, 0>>, 3))
                      THEN {"TSQ.cm_cache_stale"} ELSE {})
     IN  /\ EmitV(e, fails, {}, hits, drift, ~clean /\ fails = {})
         /\ ses' = s
         /\ base' = IF shaped /\ e.second THEN ses ELSE NoSes
         /\ bvels' = IF shaped /\ e.second THEN vels ELSE <<>>
         /\ vels' = IF clean THEN [F \in 1..e.nf |-> <<>>] ELSE <<>>
         /\ pb' = <<>> /\ askedV' = 0 /\ askedA' = 0

(* ======================================================================= *)
(* PointByMap                                                              *)
(* ======================================================================= *)
ROutcome(r) == IF r > 0 \/ r = -1 THEN "value" ELSE IF r = 0 THEN "none" ELSE IF r = -3 THEN "key" ELSE IF r = -4 THEN "attr" ELSE "other"
DoPBM(e) ==
  /\ e.ev = "PBM"
  /\ LET F0 == e.t0 + 1  F1 == e.t1 + 1
         ok == Usable /\ F0 \in 1..ses.nf /\ F1 \in 1..ses.nf /\ IsSeq(e.res, ses.k[F0])
         Vs == IF ok THEN 1..ses.k[F0] ELSE {}
         X(p) == PointByMap(ses, p, F0, F1)
         sk == ok /\ SpanNone(ses, F0, F1)
         good(p) == IF X(p) > 0 THEN e.res[p] = X(p) ELSE e.res[p] \in {0, -3}
         known(p) == ~good(p) /\ X(p) = Undef /\ KF_QuerySkippedStep(sk, ROutcome(e.res[p]))
         \* the recorded answers of the opposite direction (if asked before): round trip on the RECORDED data
         opp == IF ok /\ <<F1, F0>> \in DOMAIN pb THEN pb[<<F1, F0>>] ELSE <<>>
         rtBad == opp # <<>> /\ \E p \in Vs : e.res[p] > 0 /\ e.res[p] \in DOMAIN opp /\ opp[e.res[p]] > 0 /\ opp[e.res[p]] # p
         fails == (IF \E p \in Vs : ~good(p) /\ ~known(p) THEN {"TSQ.point_by_map"} ELSE {}) \cup
                  (IF rtBad THEN {"TSQ.roundtrip"} ELSE {})
         kf == IF \E p \in Vs : known(p) THEN {"KF_QuerySkippedStep:TSQ.point_by_map"} ELSE {}
         hits == (IF Vs # {} THEN {"TSQ.point_by_map"} ELSE {}) \cup
                 (IF \E p \in Vs : X(p) > 0 /\ Abs(F1 - F0) >= 2 THEN {"TSQ.point_by_map_multi"} ELSE {}) \cup
                 (IF \E p \in Vs : X(p) > 0 /\ F1 < F0 THEN {"TSQ.point_by_map_backward"} ELSE {}) \cup
                 (IF \E p \in Vs : X(p) = Undef /\ ~sk THEN {"TSQ.point_by_map_undefined"} ELSE {}) \cup
                 (IF opp # <<>> THEN {"TSQ.roundtrip"} ELSE {})
     IN  /\ EmitV(e, fails, kf, hits, {}, Vs = {})
         /\ pb' = IF ok THEN [x \in DOMAIN pb \cup {<<F0, F1>>} |-> IF x = <<F0, F1>> THEN e.res ELSE pb[x]] ELSE pb
  /\ UNCHANGED <<ses, base, vels, bvels, askedV, askedA>>

(* ======================================================================= *)
(* get_vertex_position                                                     *)
(* ======================================================================= *)
DoVPos(e) ==
  /\ e.ev = "VPos"
  /\ LET F0 == e.t0 + 1
         ok == Usable /\ F0 \in 1..ses.nf /\ (e.tmax = -1 \/ (e.tmax > e.t0 /\ e.tmax <= ses.nf)) /\ IsSeq(e.rows, ses.k[F0])
         Vs == IF ok THEN 1..ses.k[F0] ELSE {}
         FS == SpanFrames(ses, e.t0, e.tmax)
         sk == ok /\ \E G \in FS : SpanNone(ses, F0, G)
         D(v) == VertexPosition(ses, v, e.t0, e.tmax)
         rowOK(v) == /\ e.rows[v][1] = 1 /\ IsSeq(e.rows[v][2], Cardinality(FS)) /\ IsSeq(e.rows[v][3], Cardinality(FS))
                     /\ \A i \in 1..Cardinality(FS) : Close(e.rows[v][2][i], D(v)[2][i][1], 1) /\ Close(e.rows[v][3][i], D(v)[2][i][2], 1)
         Def == {v \in Vs : D(v)[1] = "list"}
         Und == Vs \ Def
         madeUp(v) == e.rows[v][1] = 1
         fails == (IF \E v \in Def : e.rows[v][1] = 1 /\ ~rowOK(v) THEN {"TSQ.vertex_position"} ELSE {}) \cup
                  (IF \E v \in Def : e.rows[v][1] # 1 THEN {"TSQ.vertex_position_raised"} ELSE {}) \cup
                  (IF \E v \in Und : madeUp(v) /\ ~sk THEN {"TSQ.vertex_position_made_up"} ELSE {}) \cup
                  (IF \E v \in Und : e.rows[v][1] \notin {1, -3} /\ ~KF_QuerySkippedStep(sk, ROutcome(e.rows[v][1]))
                      THEN {"TSQ.vertex_position_raised"} ELSE {})
         kf == IF \E v \in Und : \/ (madeUp(v) /\ KF_QuerySkippedStep(sk, "value"))
                                 \/ (e.rows[v][1] = -4 /\ KF_QuerySkippedStep(sk, "attr"))
               THEN {"KF_QuerySkippedStep:TSQ.vertex_position"} ELSE {}
         hits == (IF Def # {} THEN {"TSQ.vertex_position"} ELSE {}) \cup
                 (IF Def # {} /\ Cardinality(FS) >= 3 THEN {"TSQ.vertex_position_long"} ELSE {}) \cup
                 (IF Def # {} /\ e.tmax = -1 /\ F0 > 1 THEN {"TSQ.vertex_position_backward"} ELSE {}) \cup
                 (IF \E v \in Und : ~sk THEN {"TSQ.vertex_position_undefined"} ELSE {})
     IN  EmitV(e, fails, kf, hits, {}, Vs = {})
  /\ UNCHANGED <<ses, base, vels, bvels, pb, askedV, askedA>>

(* ======================================================================= *)
(* calculate_velocity of every tracked vertex of a frame                   *)
(* ======================================================================= *)
VelOK(d, r) == /\ r[1] = 1
               /\ Close(Mul(r[2], d[4]), d[2], FdTol(d[4], r[2])) /\ Close(Mul(r[3], d[4]), d[3], FdTol(d[4], r[3]))
DoVel(e) ==
  /\ e.ev = "Vel"
  /\ LET F == e.t + 1
         ok == Usable /\ ses.nf >= 2 /\ F \in 1..ses.nf /\ IsSeq(e.vel, ses.k[F]) /\ TimesOK(ses)
         Vs == IF ok THEN {p \in 1..ses.k[F] : e.vel[p][1] # -6} ELSE {}
         D(p) == Velocity(ses, p, F)
         dte == ok /\ SNone(ses, VStep(ses, F))
         G == VOther(ses, F)
         \* second session of the case (cm=True on fresh frames): same links => velocities differ by the drift of the centres
         cmp == ok /\ ses.second /\ base.okk /\ base.nf = ses.nf /\ base.k = ses.k /\ base.ims = ses.ims /\ IsSeq(bvels, ses.nf) /\ IsSeq(bvels[F], ses.k[F])
         cF == IF cmp THEN <<ses.fpos0[F][1][1] - ses.fpos[F][1][1], ses.fpos0[F][1][2] - ses.fpos[F][1][2]>> ELSE <<0, 0>>
         cG == IF cmp THEN <<ses.fpos0[G][1][1] - ses.fpos[G][1][1], ses.fpos0[G][1][2] - ses.fpos[G][1][2]>> ELSE <<0, 0>>
         dtt == IF ok THEN ses.stamp[G] - ses.stamp[F] ELSE Q
         With == {p \in Vs : ~dte /\ PointByMap(ses, p, F, G) # Undef /\ e.vel[p][1] = 1 /\ bvels[F][p][1] = 1}
         driftBad(p) == \E c \in 1..2 :
                          ~Close(Mul(e.vel[p][c + 1] - bvels[F][p][c + 1], dtt), -(cG[c] - cF[c]),
                                 2 * FdTol(dtt, e.vel[p][c + 1]) + 4)
         fails == (IF dte /\ (\E p \in Vs : e.vel[p][1] # -2) THEN {"TSQ.velocity_skipped_step"} ELSE {}) \cup
                  (IF ~dte /\ (\E p \in Vs : e.vel[p][1] # 1) THEN {"TSQ.velocity_raised"} ELSE {}) \cup
                  (IF ~dte /\ (\E p \in Vs : e.vel[p][1] = 1 /\ ~VelOK(D(p), e.vel[p])) THEN {"TSQ.velocity"} ELSE {}) \cup
                  (IF cmp /\ (\E p \in With : driftBad(p)) THEN {"TSQ.cm_velocity_drift"} ELSE {})
         hits == (IF ~dte /\ Vs # {} THEN {"TSQ.velocity"} ELSE {}) \cup
                 (IF ~dte /\ (\E p \in Vs : PointByMap(ses, p, F, G) = Undef) THEN {"TSQ.velocity_no_partner_zero"} ELSE {}) \cup
                 (IF dte /\ Vs # {} THEN {"TSQ.velocity_skipped_step"} ELSE {}) \cup
                 (IF cmp /\ With # {} THEN {"TSQ.cm_velocity_drift"} ELSE {})
     IN  /\ EmitV(e, fails, {}, hits, {}, Vs = {})
         /\ vels' = IF ok THEN [vels EXCEPT ![F] = e.vel] ELSE vels
  /\ UNCHANGED <<ses, base, bvels, pb, askedV, askedA>>

(* ======================================================================= *)
(* whole_tissue_velocity / whole_tissue_acceleration                       *)
(* ======================================================================= *)
\* <<"sum", value, tol>> | <<"nan">> | <<"open">> | <<"skipped">>
ExpVelEntry(x) ==
  IF x[1][1] # "vel" \/ x[2][1] # "vel" THEN <<"open">>
  ELSE IF ~(VInR(x[1]) /\ VInR(x[2])) THEN <<"open">>
  ELSE LET s == SpeedOf(x[1]) + SpeedOf(x[2]) IN <<"sum", s, SumTol(s, x[1], x[2])>>
ExpAccEntry(x) ==
  IF x[1][1] = "skipped" \/ x[2][1] = "skipped" THEN <<"skipped">>
  ELSE IF x[1][1] = "nan" \/ x[2][1] = "nan" THEN <<"nan">>
  ELSE IF ~(AInR(x[1]) /\ AInR(x[2])) THEN <<"open">>
  ELSE LET s == ANorm(x[1]) + ANorm(x[2]) IN <<"sum", s, 200 + s \div 10000>>
\* "ok" | "bad" | "kf" | "open"
EntryVerdict(x, r) ==
  CASE x[1] = "sum"     -> IF r[1] = 1 THEN (IF Close(r[2], x[2], x[3]) THEN "ok" ELSE "bad") ELSE IF r[1] = 0 THEN "bad" ELSE "open"
    [] x[1] = "nan"     -> IF r[1] = 0 THEN "ok" ELSE IF r[1] = 1 THEN "bad" ELSE "open"
    [] x[1] = "skipped" -> IF r[1] = 1 THEN "kf" ELSE "open"
    [] OTHER            -> "open"

DoWhole(e) ==
  /\ e.ev \in {"WVel", "WAcc"}
  /\ LET F == e.t + 1
         isV == e.ev = "WVel"
         ok == Usable /\ F \in 1..ses.nf /\ ses.nf >= (IF isV THEN 2 ELSE 3) /\ TimesOK(ses) /\ IsSeq(e.vals, Len(e.keys))
               /\ \A i \in DOMAIN e.vals : Pair(e.vals[i])
         nI == IF ok THEN Len(ses.ifc[F]) ELSE 0
         dte == ok /\ isV /\ SNone(ses, VStep(ses, F))
         accSk == ok /\ ~isV /\ SpanNone(ses, DAccLo(ses.nf, F), DAccLo(ses.nf, F) + 2)
         D == IF ~ok \/ dte THEN <<>> ELSE IF isV THEN WholeTissueVelocity(ses, F)[2] ELSE WholeTissueAcceleration(ses, F)[2]
         Exp(i) == IF isV THEN ExpVelEntry(D[i]) ELSE ExpAccEntry(D[i])
         KeyPos(i) == {j \in DOMAIN e.keys : e.keys[j] = i - 1}
         Have == {i \in 1..nI : KeyPos(i) # {}}
         Ver(i) == EntryVerdict(Exp(i), e.vals[CHOOSE j \in KeyPos(i) : TRUE])
         extra == IF ok /\ e.raised = "" THEN {e.keys[j] + 1 : j \in DOMAIN e.keys} \ 1..nI ELSE {}
         before == IF isV THEN askedV ELSE askedA
         stale == extra # {} /\ KF_WholeStaleKeys(extra, before, nI)
         fails ==
           IF ~ok THEN {}
           ELSE IF dte THEN (IF e.raised = "DifferentTissueException" THEN {} ELSE {"TSQ.whole_skipped_step"})
           ELSE IF e.raised # "" THEN (IF accSk /\ e.raised \in {"AttributeError", "KeyError", "DifferentTissueException"} THEN {} ELSE {"TSQ.whole_raised"})
           ELSE (IF Have # 1..nI THEN {"TSQ.whole_keys"} ELSE {}) \cup
                (IF extra # {} /\ ~stale THEN {"TSQ.whole_keys"} ELSE {}) \cup
                (IF \E i \in Have : Ver(i) = "bad" THEN {IF isV THEN "TSQ.whole_velocity" ELSE "TSQ.whole_acceleration"} ELSE {})
         kf == (IF ok /\ ~dte /\ e.raised = "" /\ stale THEN {"KF_WholeStaleKeys:TSQ.whole_keys"} ELSE {}) \cup
               (IF ok /\ accSk /\ (e.raised \in {"AttributeError", "KeyError"} \/ (e.raised = "" /\ \E i \in Have : Ver(i) = "kf"))
                   THEN {"KF_QuerySkippedStep:TSQ.whole_acceleration"} ELSE {})
         judged == IF ok /\ ~dte /\ e.raised = "" THEN {i \in Have : Ver(i) \in {"ok", "bad"}} ELSE {}
         hits == (IF judged # {} THEN {IF isV THEN "TSQ.whole_velocity" ELSE "TSQ.whole_acceleration", "TSQ.whole_keys"} ELSE {}) \cup
                 (IF \E i \in judged : Exp(i)[1] = "nan" THEN {"TSQ.whole_acceleration_nan"} ELSE {}) \cup
                 (IF dte THEN {"TSQ.whole_skipped_step"} ELSE {}) \cup
                 (IF ok /\ ~dte /\ e.raised = "" /\ before > nI THEN {"TSQ.whole_after_larger_frame"} ELSE {})
         answered == ok /\ ~dte /\ e.raised = ""
     IN  /\ EmitV(e, fails, kf, hits, {}, judged = {} /\ fails = {} /\ kf = {} /\ ~dte)
         /\ askedV' = IF answered /\ isV THEN Max(askedV, Max(nI, IF extra = {} THEN 0 ELSE SMax(extra))) ELSE askedV
         /\ askedA' = IF answered /\ ~isV THEN Max(askedA, Max(nI, IF extra = {} THEN 0 ELSE SMax(extra))) ELSE askedA
  /\ UNCHANGED <<ses, base, vels, bvels, pb>>

(* ======================================================================= *)
(* velocity_per_edge                                                       *)
(* ======================================================================= *)
DoVEdge(e) ==
  /\ e.ev = "VEdge"
  /\ LET F0 == e.t0 + 1
         ok == Usable /\ ses.nf >= 2 /\ F0 \in 1..ses.nf /\ e.t1 > e.t0 /\ e.t1 <= ses.nf /\ TimesOK(ses) /\ IsSeq(e.rows, Len(ses.ifc[F0]))
         Es == IF ok THEN 1..Len(ses.ifc[F0]) ELSE {}
         n == e.t1 - e.t0
         sk == ok /\ SpanNone(ses, F0, e.t1)
         D(k) == VelocityPerEdge(ses, k, e.t0, e.t1)
         Exp(k, i) == IF D(k)[i][1] = "nan" THEN (IF SpanNone(ses, F0, F0 + i - 1) THEN <<"skipped">> ELSE <<"nan">>)
                      ELSE ExpVelEntry(<<D(k)[i][2], D(k)[i][3]>>)
         rowShape(k) == e.rows[k][1] = 1 /\ IsSeq(e.rows[k][2], n) /\ \A i \in 1..n : Pair(e.rows[k][2][i])
         \* after a skipped step the declarative answer is nan; a number there is the recorded finding
         Ver(k, i) == LET x == Exp(k, i)  r == e.rows[k][2][i] IN
                      IF x[1] = "skipped" THEN (IF r[1] = 0 THEN "ok" ELSE IF r[1] = 1 THEN "kf" ELSE "open") ELSE EntryVerdict(x, r)
         Rows == {k \in Es : rowShape(k)}
         Raised == {k \in Es : e.rows[k][1] # 1}
         fails == (IF \E k \in Es : e.rows[k][1] = 1 /\ ~rowShape(k) THEN {"TSQ.velocity_per_edge_length"} ELSE {}) \cup
                  (IF \E k \in Rows : \E i \in 1..n : Ver(k, i) = "bad" THEN {"TSQ.velocity_per_edge"} ELSE {}) \cup
                  (IF \E k \in Raised : ~(sk /\ e.rows[k][1] \in {-3, -4}) THEN {"TSQ.velocity_per_edge_raised"} ELSE {})
         kf == IF \/ \E k \in Raised : sk /\ e.rows[k][1] \in {-3, -4}
                  \/ \E k \in Rows : \E i \in 1..n : Ver(k, i) = "kf"
               THEN {"KF_QuerySkippedStep:TSQ.velocity_per_edge"} ELSE {}
         J == {<<k, i>> \in Rows \X (1..n) : Ver(k, i) \in {"ok", "bad"}}
         hits == (IF \E x \in J : Exp(x[1], x[2])[1] = "sum" THEN {"TSQ.velocity_per_edge"} ELSE {}) \cup
                 (IF \E x \in J : Exp(x[1], x[2])[1] = "sum" /\ x[2] >= 2 THEN {"TSQ.velocity_per_edge_followed"} ELSE {}) \cup
                 (IF \E x \in J : Exp(x[1], x[2])[1] = "nan" THEN {"TSQ.velocity_per_edge_nan"} ELSE {})
     IN  EmitV(e, fails, kf, hits, {}, J = {} /\ fails = {} /\ kf = {})
  /\ UNCHANGED <<ses, base, vels, bvels, pb, askedV, askedA>>

(* ======================================================================= *)
(* times_to_use                                                            *)
(* ======================================================================= *)
DoTTU(e) ==
  /\ e.ev = "TTU"
  /\ LET ok == Usable /\ ses.nf >= 2
         L == IF e.arg = -1 THEN ses.nf ELSE e.arg
         doc == ok /\ (e.arg = -1 \/ TtuArgOK(ses, e.arg))
         odd == ok /\ e.arg \in {-2, 1}             \* the documented bool / the smallest count
         known == odd /\ KF_TimesToUseTrue(e.arg, e.raised)
         fails == (IF doc /\ e.raised # "" THEN {"TSQ.times_to_use_raised"} ELSE {}) \cup
                  (IF doc /\ e.raised = "" /\ e.res # TimesToUse(ses, L) THEN {"TSQ.times_to_use"} ELSE {}) \cup
                  (IF odd /\ e.raised # "" /\ ~known THEN {"TSQ.times_to_use_raised"} ELSE {}) \cup
                  (IF odd /\ e.raised = "" /\ ~(Len(e.res) >= 2 /\ e.res[1] = -1) THEN {"TSQ.times_to_use"} ELSE {})
         hits == (IF doc THEN {"TSQ.times_to_use"} ELSE {}) \cup
                 (IF doc /\ L < ses.nf THEN {"TSQ.times_to_use_window"} ELSE {}) \cup
                 (IF doc /\ Len(TimesToUse(ses, L)) > 2 THEN {"TSQ.times_to_use_skipped"} ELSE {})
     IN  EmitV(e, fails, IF known THEN {"KF_TimesToUseTrue:TSQ.times_to_use_raised"} ELSE {}, hits, {}, ~doc /\ ~odd)
  /\ UNCHANGED <<ses, base, vels, bvels, pb, askedV, askedA>>

(* ======================================================================= *)
(* export_mapping / load_initial_guess / re-import                         *)
(* ======================================================================= *)
MapsShape(m, nf) == IsSeq(m, nf - 1) /\ \A f \in 1..(nf - 1) : \A i \in DOMAIN m[f].pairs : Pair(m[f].pairs[i])
SameMaps(m, s) == \A f \in 1..(s.nf - 1) :
                    /\ m[f].none = SNone(s, f)
                    /\ (~m[f].none => Range(m[f].pairs) = ExportMapping(s)[f].pairs /\ Len(m[f].pairs) = s.k[f])
DoExport(e) ==
  /\ e.ev = "Export"
  /\ LET ok == Usable /\ ses.nf >= 2
         good == e.raised = "" /\ e.parse_ok /\ MapsShape(e.maps, ses.nf)
         fails == IF ~ok THEN {}
                  ELSE IF e.raised # "" THEN {"TSQ.export_raised"}
                  ELSE IF ~e.parse_ok THEN {"TSQ.export_json"}
                  ELSE (IF Range(e.steps) # 0..(ses.nf - 2) \/ Len(e.steps) # ses.nf - 1 THEN {"TSQ.export_steps"} ELSE {}) \cup
                       (IF ~MapsShape(e.maps, ses.nf) \/ ~SameMaps(e.maps, ses) THEN {"TSQ.export_mapping"} ELSE {})
     IN  EmitV(e, fails, {}, IF ok THEN {"TSQ.export_mapping", "TSQ.export_steps"} ELSE {}, {}, ~ok)
  /\ UNCHANGED <<ses, base, vels, bvels, pb, askedV, askedA>>

\* file / res: sequences of <<k, pairs>>
EntriesOK(x) == \A i \in DOMAIN x : Pair(x[i]) /\ \A j \in DOMAIN x[i][2] : Pair(x[i][2][j])
KeysOf(x) == {x[i][1] : i \in DOMAIN x}
EntryOf(x, k) == IF \E i \in DOMAIN x : x[i][1] = k THEN Range(x[CHOOSE i \in DOMAIN x : x[i][1] = k][2]) ELSE {}
DoLoad(e) ==
  /\ e.ev = "Load"
  /\ LET ok == EntriesOK(e.file) /\ e.mx >= e.mn
         src == IF e.missing THEN <<>> ELSE e.file
         good == ok /\ e.raised = "" /\ EntriesOK(e.res)
         fails == IF ~ok THEN {}
                  ELSE IF e.raised # "" THEN {"TSQ.load_guess_raised"}
                  ELSE IF ~EntriesOK(e.res) THEN {"TSQ.load_guess_content"}
                  ELSE (IF KeysOf(e.res) # LoadGuessKeys(KeysOf(src), e.mn, e.mx) \/ Len(e.res) # Cardinality(KeysOf(e.res))
                           THEN {"TSQ.load_guess_keys"} ELSE {}) \cup
                       (IF \E k \in KeysOf(e.res) : EntryOf(e.res, k) # EntryOf(src, k) THEN {"TSQ.load_guess_content"} ELSE {}) \cup
                       (IF ~e.ints THEN {"TSQ.load_guess_types"} ELSE {})
         hits == IF ~ok THEN {} ELSE {"TSQ.load_guess_keys", "TSQ.load_guess_content", "TSQ.load_guess_types"} \cup
                 (IF e.missing THEN {"TSQ.load_guess_missing_file"} ELSE {}) \cup
                 (IF \E k \in KeysOf(src) : k >= e.mx - e.mn THEN {"TSQ.load_guess_outside_window"} ELSE {}) \cup
                 (IF \E k \in 0..(e.mx - e.mn - 1) : k \notin KeysOf(src) THEN {"TSQ.load_guess_padded"} ELSE {})
     IN  EmitV(e, fails, {}, hits, {}, ~ok)
  /\ UNCHANGED <<ses, base, vels, bvels, pb, askedV, askedA>>

\* a second object built on fresh frames from the exported mapping read back by load_initial_guess
DoReload(e) ==
  /\ e.ev = "Reload"
  /\ LET ok == Usable /\ ses.nf >= 2 /\ ~ses.cm
         anyNone == ok /\ \E f \in 1..(ses.nf - 1) : SNone(ses, f)
         fails == IF ~ok \/ anyNone THEN {}
                  ELSE IF e.raised # "" THEN {"TSQ.export_reimport_raised"}
                  ELSE IF ~MapsShape(e.maps, ses.nf) \/ ~SameMaps(e.maps, ses) THEN {"TSQ.export_reimport"} ELSE {}
         \* observation: a skipped step is exported as null, which load_initial_guess cannot read
         drift == IF anyNone /\ e.raised # "" THEN {"TSQ.reimport_skipped_step_unreadable"} ELSE {}
     IN  EmitV(e, fails, {}, IF ok /\ ~anyNone THEN {"TSQ.export_reimport"} ELSE {}, drift, ~ok \/ anyNone)
  /\ UNCHANGED <<ses, base, vels, bvels, pb, askedV, askedA>>

(* ======================================================================= *)
(* get_cm_coords, purity, filter_edges("none"), single frame               *)
(* ======================================================================= *)
DoCM(e) ==
  /\ e.ev = "CM"
  /\ LET F == e.t + 1
         ok == Usable /\ F \in 1..ses.nf /\ ses.n[F] > 0 /\ Pair(e.res)
         ps == IF e.before THEN ses.fpos0[F] ELSE ses.fpos[F]
         can == ok /\ AllNonNeg(ps)
         fails == IF ~can THEN {}
                  ELSE IF e.raised # "" THEN {"TSQ.cm_coords_raised"}
                  ELSE (IF ~SameVec(e.res, MeanOf(ps), 500 + 6) THEN {"TSQ.cm_coords"} ELSE {}) \cup
                       (IF ~e.round3 THEN {"TSQ.cm_coords_rounding"} ELSE {})
     IN  EmitV(e, fails, {}, IF can THEN {"TSQ.cm_coords", "TSQ.cm_coords_rounding"} ELSE {}, {}, ~can)
  /\ UNCHANGED <<ses, base, vels, bvels, pb, askedV, askedA>>

\* queries never change the series: the correspondence and every position are what they were after construction
DoAfter(e) ==
  /\ e.ev = "After"
  /\ LET ok == Usable
         fails == IF ~ok THEN {}
                  ELSE (IF e.maps # ses.maps THEN {"TSQ.queries_pure_mapping"} ELSE {}) \cup
                       (IF e.fpos # ses.fpos THEN {"TSQ.queries_pure_positions"} ELSE {})
     IN  EmitV(e, fails, {}, IF ok THEN {"TSQ.queries_pure_mapping", "TSQ.queries_pure_positions"} ELSE {}, {}, ~ok)
  /\ UNCHANGED <<ses, base, vels, bvels, pb, askedV, askedA>>

\* Frame.filter_edges("none") is documented as "no filtering": no vertex moves
DoFilterNone(e) ==
  /\ e.ev = "FilterNone"
  /\ LET F == e.t + 1
         ok == Usable /\ F \in 1..ses.nf /\ ses.n[F] > 0 /\ Pair(e.shift)
         frameShift == IF ok THEN <<ses.fpos0[F][1][1] - ses.fpos[F][1][1], ses.fpos0[F][1][2] - ses.fpos[F][1][2]>> ELSE <<0, 0>>
         moved == e.moved > 0
         known == ok /\ e.raised = "" /\ moved /\ SameVec(e.shift, frameShift, 3) /\ KF_CmStaleCache(ses.cm, frameShift, moved)
         fails == IF ~ok THEN {}
                  ELSE IF e.raised # "" THEN {"TSQ.filter_none_raised"}
                  ELSE IF moved /\ ~known THEN {"TSQ.filter_none_noop"} ELSE {}
     IN  EmitV(e, fails, IF known THEN {"KF_CmStaleCache:TSQ.filter_none_noop"} ELSE {},
               IF ok THEN {"TSQ.filter_none_noop"} ELSE {}, {}, ~ok)
  /\ UNCHANGED <<ses, base, vels, bvels, pb, askedV, askedA>>

\* a session with a single frame has no time series: mesh is the empty dict, the stores are keyed by the frame, a
\* static inference works (the degenerate case the constructor documents)
DoSingle(e) ==
  /\ e.ev = "Single"
  /\ LET fails == IF e.raised # "" THEN {"TSQ.single_frame_raised"}
                  ELSE (IF ~e.mesh_empty \/ ~e.stores_ok THEN {"TSQ.single_frame"} ELSE {}) \cup
                       (IF ~e.static_ok THEN {"TSQ.single_frame_static"} ELSE {})
         \* observation: ForSys.times_to_use does not exist for a single frame
         drift == IF e.raised = "" /\ ~e.has_ttu THEN {"TSQ.single_frame_no_times_to_use"} ELSE {}
     IN  EmitV(e, fails, {}, {"TSQ.single_frame", "TSQ.single_frame_static"}, drift, FALSE)
  /\ UNCHANGED <<ses, base, vels, bvels, pb, askedV, askedA>>

TNext == /\ l <= Len(TR)
         /\ LET e == TR[l] IN
            \/ DoSeries(e) \/ DoPBM(e) \/ DoVPos(e) \/ DoVel(e) \/ DoWhole(e) \/ DoVEdge(e) \/ DoTTU(e) \/ DoExport(e)
            \/ DoLoad(e) \/ DoReload(e) \/ DoCM(e) \/ DoAfter(e) \/ DoFilterNone(e) \/ DoSingle(e)
         /\ l' = l + 1
         /\ UNCHANGED <<ser, store, out>>

Done == TLCGet("stats").diameter - 1 = Len(TR)
TSpec == TInit /\ ser = NoSeries /\ store = EmptyStore /\ out = NoOut /\ [][TNext]_<<tvars, ser, store, out>>
=============================================================================

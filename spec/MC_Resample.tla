---------------------------- MODULE MC_Resample ----------------------------
(***************************************************************************)
(* Bounded-exhaustive model check of mesh resampling (C11, and C09 for the *)
(* result): every sub-tissue of a catalogue tissue x interior points KS x  *)
(* ne in NES x replace_short_edges.  The implementation-shaped             *)
(* transcription I of generate_mesh (MeshEdits.tla GenerateMesh) is run in *)
(* the model, twice, and must satisfy the declarative verdict D            *)
(* (Resample.tla C11Eval, Unchanged) and leave a Consistent mesh.          *)
(* Every leaf is emitted (`EJ {json}`) and replayed on the real            *)
(* generate_mesh by harness/props/c11.py.                                  *)
(* Model geometry: catalogue coordinates scaled by 2(k+1), so that the     *)
(* interior points and all midpoints are integers (eps = 0).               *)
(***************************************************************************)
EXTENDS Resample, SubTissue

CONSTANTS KS, NES, MaxCells      \* MaxCells bounds the size of the cell subsets (deep k only)
VARIABLES i, sub, k, m, ne, rse, res, ver, res2, ver2
vars == <<i, sub, k, m, ne, rse, res, ver, res2, ver2>>

LOCAL Rn(q) == {q[j] : j \in DOMAIN q}
None == [none |-> TRUE]

\* the model mesh of (sub, k) with ids, exact positions and position ids
ModelMesh(sb, kk) ==
  LET m0    == SubMesh(sb, kk)
      cyc0  == SubCycles(sb)
      orig  == SeqOfSetSorted(UNION {Rn(cyc0[c]) : c \in DOMAIN cyc0})   \* rank -> base vertex
      nv0   == Len(orig)
      pairs == Dedup(AllPairs(Renumber(cyc0), 1), <<>>)
      P(v)  == Base.pos[orig[v]]
      lo(e) == CHOOSE x \in pairs[e] : \A y \in pairs[e] : x <= y
      hi(e) == CHOOSE x \in pairs[e] : \A y \in pairs[e] : x >= y
      pos(v) == IF v <= nv0 THEN <<2 * (kk + 1) * P(v)[1], 2 * (kk + 1) * P(v)[2]>>
                ELSE LET w == v - nv0 - 1  e == (w \div kk) + 1  j == (w % kk) + 1
                         a == P(lo(e))  c == P(hi(e))
                     IN  <<2 * ((kk + 1) * a[1] + j * (c[1] - a[1])), 2 * ((kk + 1) * a[2] + j * (c[2] - a[2]))>>
  IN  m0 @@ [vid |-> [v \in 1..m0.nv |-> v], eid |-> [e \in 1..m0.ne |-> e - 1], cid |-> [c \in 1..m0.nc |-> c],
             pid |-> [v \in 1..m0.nv |-> v], pos |-> [v \in 1..m0.nv |-> pos(v)]]

Init == i = 1 /\ sub = {} /\ k = -1 /\ m = None /\ ne = 0 /\ rse = FALSE /\ res = None /\ ver = None
        /\ res2 = None /\ ver2 = None

Pick == /\ i <= Base.nc
        /\ \/ sub' = sub \cup {i}
           \/ sub' = sub
        /\ i' = i + 1 /\ UNCHANGED <<k, m, ne, rse, res, ver, res2, ver2>>
ChooseK == /\ i = Base.nc + 1 /\ k = -1 /\ sub # {} /\ Cardinality(sub) <= MaxCells
           /\ k' \in KS /\ UNCHANGED <<i, sub, m, ne, rse, res, ver, res2, ver2>>
Build == /\ k >= 0 /\ m = None
         /\ m' = ModelMesh(sub, k)
         /\ UNCHANGED <<i, sub, k, ne, rse, res, ver, res2, ver2>>
\* generate_mesh depends on ne only through the tests len(e) > ne: every ne >= the longest interface
\* takes the same path with the same result, so only the smallest such ne of NES is explored
MaxLen(mm) == LET ps == Paths(mm) IN IF ps = {} THEN 0 ELSE CHOOSE n \in {Len(p) : p \in ps} : \A p \in ps : Len(p) <= n
NesFor(mm) == LET ml == MaxLen(mm)  big == {n \in NES : n >= ml} IN
              {n \in NES : n < ml} \cup (IF big = {} THEN {} ELSE {CHOOSE n \in big : \A x \in big : n <= x})
ChooseOpts == /\ m # None /\ ne = 0
              /\ ne' \in NesFor(m) /\ rse' \in BOOLEAN
              /\ UNCHANGED <<i, sub, k, m, res, ver, res2, ver2>>

RunOn(b) == LET r == ImplResample(b, ne, rse) IN
            IF r.s.err # "" THEN [raised |-> r.s.err]
            ELSE LET al == ImplAfter(b, r.s) IN [raised |-> "", a |-> al.a, lk |-> al.lk, arr |-> r.arr]
JudgeOn(b, r) == IF r.raised # "" THEN C11Raised(b, ne, rse) ELSE C11Eval(b, r.a, r.lk, ne, rse, 0)

Run   == /\ ne > 0 /\ res = None
         /\ res' = RunOn(m)
         /\ UNCHANGED <<i, sub, k, m, ne, rse, ver, res2, ver2>>
Judge == /\ res # None /\ ver = None
         /\ ver' = JudgeOn(m, res) @@ [consistent |-> IF res.raised = "" THEN Consistent(res.a) ELSE {}]
         /\ UNCHANGED <<i, sub, k, m, ne, rse, res, res2, ver2>>
Again == /\ ver # None /\ res.raised = "" /\ res2 = None
         /\ res2' = RunOn(res.a)
         /\ UNCHANGED <<i, sub, k, m, ne, rse, res, ver, ver2>>
Judge2 == /\ res2 # None /\ ver2 = None
          /\ ver2' = JudgeOn(res.a, res2) @@
                      [consistent |-> IF res2.raised = "" THEN Consistent(res2.a) ELSE {},
                       same |-> res2.raised = "" /\ Unchanged(res.a, res2.a, res2.lk)]
          /\ UNCHANGED <<i, sub, k, m, ne, rse, res, ver, res2>>

Next == Pick \/ ChooseK \/ Build \/ ChooseOpts \/ Run \/ Judge \/ Again \/ Judge2
Spec == Init /\ [][Next]_vars

Leaf == (ver # None /\ res.raised # "") \/ ver2 # None

\* ---- design-level properties: I => D ----
BeforeConsistent  == (m # None /\ ne = 0) => Consistent(m) = {}
ImplSatisfiesD    == ver # None => ver.fails = {}
ResultConsistent  == ver # None => ver.consistent = {}                      \* C09 on the result of I
SecondSatisfiesD  == ver2 # None => ver2.fails = {} /\ ver2.consistent = {}
\* a first result that is not a rejected input for the second call (it is Consistent) is a fixed point
\* (R6: not demanded of inputs with a chain of contractible interfaces)
Idempotent        == ver2 # None => (ver.chain \/ ver2.rejected \/ ver2.same \/ res2.raised # "")
NoSecondRaise     == ver2 # None => (res2.raised = "" \/ ver2.rejected \/ ver2.kf # {})

Emit == Leaf => PrintT("EJ " \o ToJson([base |-> Base.name, sub |-> sub, k |-> k, ne |-> ne, rse |-> rse,
                                        cells |-> SubCycles(sub),
                                        mraised |-> res.raised, mkf |-> ver.kf, mrej |-> ver.rejected,
                                        mhits |-> ver.hits, mchain |-> ver.chain]))
\* vacuity guards, expected to be VIOLATED when checked on their own
KnownFindingReachable == ver # None => ver.kf = {}
=============================================================================

SPECIFICATION Spec
CONSTANTS NF = 2
          MaxGen = 2
          MaxVer = 2
          MaxDepth = 7
CONSTRAINT Bound
VIEW View
INVARIANT GuardKFFilterCache
CHECK_DEADLOCK FALSE

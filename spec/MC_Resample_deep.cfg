SPECIFICATION Spec
CONSTANT KS = {40}
CONSTANT NES = {1, 3, 7, 12}
CONSTANT MaxCells = 3
INVARIANT BeforeConsistent
INVARIANT ImplSatisfiesD
INVARIANT ResultConsistent
INVARIANT SecondSatisfiesD
INVARIANT Idempotent
INVARIANT NoSecondRaise
INVARIANT Emit
CHECK_DEADLOCK FALSE

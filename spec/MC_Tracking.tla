---------------------------- MODULE MC_Tracking ----------------------------
(***************************************************************************)
(* Bounded-exhaustive exploration of the tracking algorithm (C12) and of   *)
(* the velocity computation (C13) on integer grids (coordinates 0..120):   *)
(*   all placements of N junctions on the site lattice SITES               *)
(*   x all displacement fields from STENCIL (inside and outside the bounds)*)
(*   x ALL numberings (dict iteration orders) of both frames               *)
(*   x partial / wrong user guesses  (x time stamps when WITHVEL)          *)
(* Invariants: the transcription I (Tracking!IMapping, IFwd/IBack,         *)
(* IVelocity, IRhs) satisfies the declarative clauses D.                   *)
(* A sample of leaf instances is printed (`EJ {json}`) for replay on the   *)
(* real code.                                                              *)
(***************************************************************************)
EXTENDS Tracking, Json

CONSTANTS N, SITES, STENCIL, GUESSMODES, STAMPS, WITHVEL, EMITMOD

\* ---- constant tables (no tuples in .cfg files) ------------------------------------------
Sites6  == <<<<10, 10>>, <<20, 10>>, <<10, 22>>, <<110, 14>>, <<60, 100>>, <<108, 96>>>>
Sites5  == <<<<10, 10>>, <<20, 10>>, <<110, 14>>, <<60, 100>>, <<14, 24>>>>
Sites9  == <<<<10, 10>>, <<20, 10>>, <<10, 22>>, <<110, 14>>, <<60, 100>>, <<108, 96>>,
             <<60, 50>>, <<72, 50>>, <<30, 90>>>>
Sites7  == <<<<10, 10>>, <<20, 10>>, <<10, 22>>, <<110, 14>>, <<60, 100>>, <<108, 96>>, <<66, 52>>>>
Sites12 == Sites9 \o <<<<40, 30>>, <<90, 60>>, <<16, 70>>>>
Stencil5  == {<<0, 0>>, <<-2, 1>>, <<4, 3>>, <<-5, 5>>, <<0, 9>>}
Stencil9  == {<<0, 0>>, <<2, 0>>, <<-2, 1>>, <<0, -4>>, <<4, 3>>, <<-4, -3>>, <<6, 0>>, <<-5, 5>>, <<0, 9>>}
Stencil13 == Stencil9 \cup {<<8, 0>>, <<-7, -4>>, <<3, -3>>, <<10, 0>>}
Stencil7  == {<<0, 0>>, <<-2, 1>>, <<0, -4>>, <<4, 3>>, <<6, 0>>, <<-5, 5>>, <<0, 9>>}
Stamps1 == {<<0, 1>>}
Stamps3 == {<<0, 1>>, <<2, 7>>, <<5, 8>>}
GuessAll == {"none", "one", "wrong", "two"}
GuessFew == {"none", "one1", "wrong"}
GuessNW  == {"none", "wrong"}

VARIABLES chosen, disp, ord0, ord1, guess, gp, im, stamps
vars == <<chosen, disp, ord0, ord1, guess, gp, im, stamps>>

Nil == [none |-> TRUE, map |-> <<-9>>]

Perms == {p \in [1..N -> 1..N] : \A a, b \in 1..N : a # b => p[a] # p[b]}
GuessOptions ==
  (IF "none"  \in GUESSMODES THEN {<<>>} ELSE {}) \cup
  (IF "one"   \in GUESSMODES THEN {<<<<i, i>>>> : i \in 1..N} ELSE {}) \cup
  (IF "one1"  \in GUESSMODES THEN {<<<<2, 2>>>>} ELSE {}) \cup
  (IF "wrong" \in GUESSMODES THEN {<<<<1, 2>>>>} ELSE {}) \cup
  (IF "two"   \in GUESSMODES THEN {<<<<1, 1>>, <<3, 3>>>>, <<<<2, 1>>, <<1, 2>>>>} ELSE {})

Pos0 == [k \in 1..N |-> SITES[chosen[k]]]
Pos1 == [k \in 1..N |-> <<SITES[chosen[k]][1] + disp[k][1], SITES[chosen[k]][2] + disp[k][2]>>]
S(g) == [pos0 |-> Pos0, pos1 |-> Pos1, ord0 |-> ord0, ord1 |-> ord1, guess |-> g]
AllTrue == [k \in 1..N |-> TRUE]
St == [n0 |-> N, n1 |-> N, pos0 |-> Pos0, pos1 |-> Pos1, pool0 |-> AllTrue, pool1 |-> AllTrue,
       junc0 |-> AllTrue, junc1 |-> AllTrue, succ |-> [k \in 1..N |-> k], guess |-> guess]

Init == chosen = <<>> /\ disp = <<>> /\ ord0 = <<>> /\ ord1 = <<>> /\ guess = <<>> /\ gp = FALSE /\ im = Nil /\ stamps = <<>>

PickSite == /\ Len(chosen) < N
            /\ \E k \in 1..Len(SITES) : (IF Len(chosen) = 0 THEN TRUE ELSE k > chosen[Len(chosen)]) /\ chosen' = Append(chosen, k)
            /\ UNCHANGED <<disp, ord0, ord1, guess, gp, im, stamps>>
PickDisp == /\ Len(chosen) = N /\ Len(disp) < N
            /\ \E d \in STENCIL : disp' = Append(disp, d)
            /\ UNCHANGED <<chosen, ord0, ord1, guess, gp, im, stamps>>
PickOrd0 == /\ Len(disp) = N /\ ord0 = <<>>
            /\ ord0' \in Perms
            /\ UNCHANGED <<chosen, disp, ord1, guess, gp, im, stamps>>
PickOrd1 == /\ ord0 # <<>> /\ ord1 = <<>>
            /\ ord1' \in Perms
            /\ UNCHANGED <<chosen, disp, ord0, guess, gp, im, stamps>>
PickGuess == /\ ord1 # <<>> /\ ~gp
             /\ guess' \in GuessOptions /\ gp' = TRUE
             /\ UNCHANGED <<chosen, disp, ord0, ord1, im, stamps>>
\* the mapping is computed from the current state in its own action and stored in a variable:
\* TLC caches LET values there, but not inside invariants or under a quantifier (measured: 4x)
Run == /\ gp /\ im = Nil
       /\ im' = IMapping(S(guess))
       /\ UNCHANGED <<chosen, disp, ord0, ord1, guess, gp, stamps>>
PickStamps == /\ WITHVEL /\ im # Nil /\ stamps = <<>>
              /\ stamps' \in STAMPS
              /\ UNCHANGED <<chosen, disp, ord0, ord1, guess, gp, im>>
Next == PickSite \/ PickDisp \/ PickOrd0 \/ PickOrd1 \/ PickGuess \/ Run \/ PickStamps
Spec == Init /\ [][Next]_vars

Leaf  == im # Nil /\ (WITHVEL => stamps # <<>>)

\* ---- I => D ----
CRange(mm)     == ~mm.none => RangeOK(St, AsPairs(mm))
CInjective(mm) == (~mm.none /\ GuessInjective(St)) => Injective(St, AsPairs(mm)) /\ Functional(AsPairs(mm))
CGuess(mm)     == ~mm.none => GuessHonoured(St, AsPairs(mm))
CCorrect(mm, prem)   == prem => Correct(St, AsPairs(mm))
CRoundTrip(mm, prem) == prem => \A i \in 1..N : LET f == IFwd(mm, i) IN f \in 1..N /\ IBack(mm, ord0, f) = i
\* without the premise: whatever is mapped to a vertex comes back (consequence of injectivity)
CRoundTripWeak(mm) == (~mm.none /\ GuessInjective(St)) =>
                   \A i \in 1..N : LET f == IFwd(mm, i) IN f \in 1..N => IBack(mm, ord0, f) = i
Vel(mm, frame, v) == IVelocity(S(guess), mm, stamps, frame, v)
CVelocity(mm) == (WITHVEL /\ ~mm.none) => \A frame \in 1..2 : \A v \in 1..N :
                   DVelocityOK(St, AsPairs(mm), stamps, frame, v, Vel(mm, frame, v))
\* rows in the order of the numbering of the frame (row(j) = 2 * (position - 1))
RowOf(ord) == [j \in 1..N |-> 2 * (PosIn(ord, j) - 1)]
CRhs(mm) == (WITHVEL /\ ~mm.none) => \A dyn \in BOOLEAN :
                   /\ DRhsOK(IRhs(2 * N, ord0, RowOf(ord0), [v \in 1..N |-> Vel(mm, 1, v)], dyn),
                             ord0, RowOf(ord0), [v \in 1..N |-> Vel(mm, 1, v)], dyn)
                   /\ DRhsOK(IRhs(2 * N, ord1, RowOf(ord1), [v \in 1..N |-> Vel(mm, 2, v)], dyn),
                             ord1, RowOf(ord1), [v \in 1..N |-> Vel(mm, 2, v)], dyn)

\* ---- emission of a sample of leaves -------------------------------------------------------
Nearest(i) == {j \in 1..N : \A q \in 1..N : D2(Pos0[i], Pos1[j]) <= D2(Pos0[i], Pos1[q])}
\* some vertex whose nearest neighbour in the next frame does not carry the same number
NonTrivial == \E i \in 1..N : \E j \in Nearest(i) : PosIn(ord1, j) # PosIn(ord0, i)
Stolen(mm) == ~mm.none /\ \E i \in 1..N : mm.map[i] # i
Hash == LET RECURSIVE F(_)
            F(k) == IF k > N THEN 0 ELSE
                    k * (31 * chosen[k] + 7 * disp[k][1] + 13 * disp[k][2] + 101 * ord0[k] + 211 * ord1[k]) + F(k + 1)
        IN  F(1) + 53 * Len(guess) + (IF Len(guess) > 0 THEN 3 * guess[1][1] + 5 * guess[1][2] ELSE 0)
               + (IF WITHVEL /\ stamps # <<>> THEN 17 * stamps[1] + 29 * stamps[2] ELSE 0)
Sampled(mm, h, prem) == \/ (h % EMITMOD = 0 /\ NonTrivial)
                  \/ (h % (EMITMOD \div 8 + 1) = 3 /\ prem /\ NonTrivial)
                  \/ (h % (EMITMOD \div 4 + 1) = 0 /\ Stolen(mm))
                  \/ (h % (EMITMOD \div 4 + 1) = 1 /\ mm.none)
                  \/ h % (4 * EMITMOD + 1) = 2
CEmit(mm, prem) == Sampled(mm, Hash, prem) =>
          PrintT("EJ " \o ToJson([n |-> N, pos0 |-> Pos0, pos1 |-> Pos1, ord0 |-> ord0, ord1 |-> ord1,
                                  guess |-> guess, stamps |-> IF WITHVEL THEN stamps ELSE <<0, 1>>,
                                  none |-> mm.none, map |-> IF mm.none THEN <<>> ELSE mm.map,
                                  premise |-> prem, nontrivial |-> NonTrivial]))

InvRange     == Leaf => CRange(im)
InvInjective == Leaf => CInjective(im)
InvGuess     == Leaf => CGuess(im)
InvCorrect   == Leaf => CCorrect(im, PremiseExact(St))
InvRoundTrip == Leaf => CRoundTrip(im, PremiseExact(St))
InvRoundTripWeak == Leaf => CRoundTripWeak(im)
InvVelocity  == Leaf => CVelocity(im)
InvRhs       == Leaf => CRhs(im)
Emit         == Leaf => CEmit(im, PremiseExact(St))

\* vacuity guards (expected to be VIOLATED; used by hand, not in the registered cfgs)
PremiseNeverHolds == Leaf => ~PremiseExact(St)
NeverStolen       == Leaf => ~Stolen(im)
=============================================================================

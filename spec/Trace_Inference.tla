--------------------------- MODULE Trace_Inference ---------------------------
(***************************************************************************)
(* Trace validation of the inference pipeline of one frame:                *)
(*   Mesh -> Frame -> Env -> BuildForce -> SolveStress                     *)
(*        [-> BuildPressure -> SolvePressure]                              *)
(* Each event is judged against the specification state accumulated so far *)
(* (C01, C02, C05, C16, C04). Verdicts are total (TraceKit).               *)
(***************************************************************************)
EXTENDS Equations, Certificates, TraceKit

VARIABLES l, m, fr, env, fm, bo
vars == <<l, m, fr, env, fm, bo>>

None == [none |-> TRUE]
Init == l = 1 /\ m = None /\ fr = None /\ env = None /\ fm = None /\ bo = None

Want(p) == env # None /\ \E j \in DOMAIN env.want : env.want[j] = p

SetIf(cond, name) == IF cond THEN {name} ELSE {}

(******************************* BuildForce *******************************)
Used(e) == \* internal interfaces not excluded by the implementation's own delete set
  {i \in InternalIdx(m, fr) : ~(First(fr.ifaces[i]) \in {e.fm.deletes[j] : j \in DOMAIN e.fm.deletes}
                                /\ Last(fr.ifaces[i]) \in {e.fm.deletes[j] : j \in DOMAIN e.fm.deletes})}

C02Build(e) ==
  LET f == e.fm
      used == Used(e)
      bad == CoefBad(m, fr, env, f)
      kfOf == {<<ki, CoefKF(m, fr, env, f, ki, e.opts.fit)>> : ki \in bad}
      missing == JunctionsMissing(m, fr, f, e.opts.ignore_four)
      missKF == {<<v, IF KF_TwoPointAt(env, m, fr, v) THEN "KF_TwoPointInterface"
                      ELSE IF KF_AxisAlignedDropped(env, m, fr, v) THEN "KF_AxisAlignedDropped" ELSE "">> : v \in missing}
  IN [fails |-> SetIf(~ColumnsOK(m, fr, f, used), "C02.columns")
                \cup SetIf(\E p \in kfOf : p[2] = "", "C02.coefficients")
                \cup SetIf(~ZerosOK(m, fr, f), "C02.zeros")
                \cup SetIf(\E p \in missKF : p[2] = "", "C02.junction_missing")
                \cup SetIf(JunctionsExtra(m, fr, f, e.opts.ignore_four) # {}, "C02.junction_extra")
                \cup SetIf(~RowsDistinctOK(f), "C02.rows"),
      kf |-> {p[2] \o ":C02.coefficients" : p \in {q \in kfOf : q[2] # ""}}
             \cup {p[2] \o ":C02.junction_missing" : p \in {q \in missKF : q[2] # ""}},
      hits |-> {"C02.columns"} \cup SetIf(Len(f.rows) > 0, "C02.coefficients")
               \cup SetIf(\E q \in DOMAIN env.E : ~env.E[q].straight, "C02.arcs")
               \cup SetIf(e.opts.ignore_four, "C02.ignore_four"),
      rejected |-> ~EnvTangentsOK(env)]

\* C16 at build time: the delete set and the column list
C16Build(e) ==
  LET f == e.fm
      cosL == e.opts.cos
      margin == IF e.opts.limit = "pi" THEN 5 ELSE CosMargin
      sure  == {e.vs[k].v : k \in {k \in DOMAIN e.vs : \E i, j \in DOMAIN e.vs[k].d : i < j /\ Dot(e.vs[k].d[i], e.vs[k].d[j]) <= cosL - margin}}
      clear == {e.vs[k].v : k \in {k \in DOMAIN e.vs : \A i, j \in DOMAIN e.vs[k].d : i < j => Dot(e.vs[k].d[i], e.vs[k].d[j]) >= cosL + margin}}
      dels  == {f.deletes[j] : j \in DOMAIN f.deletes}
      unclear == {e.vs[k].v : k \in DOMAIN e.vs} \ (sure \cup clear)
      noLimit == e.opts.limit \in {"pi", "inf"}
      usedSeq == SelectSeq(fr.internal, LAMBDA i : i \in Used(e))
  IN [fails |-> SetIf(~(sure \subseteq dels), "C16.delete_missing")
                \cup SetIf(dels \cap clear # {}, "C16.delete_extra")
                \cup SetIf(f.cols # usedSeq, "C16.columns_order")
                \cup SetIf(noLimit /\ unclear = {} /\ (dels # {} \/ Len(f.cols) # Cardinality(InternalIdx(m, fr))), "C16.default_excludes"),
      kf |-> {},
      hits |-> {"C16.build"} \cup SetIf(dels # {} /\ Len(f.cols) > 0 /\ Len(f.cols) < Cardinality(InternalIdx(m, fr)), "C16.some_excluded")
               \cup SetIf(noLimit, "C16.default"),
      rejected |-> unclear # {}]

DoBuildForce(e) ==
  /\ e.ev = "BuildForce"
  /\ LET raised == e.raised # ""
         c02 == IF ~raised /\ Want("C02") THEN C02Build(e) ELSE [fails |-> {}, kf |-> {}, hits |-> {}, rejected |-> FALSE]
         c16 == IF ~raised /\ Want("C16") THEN C16Build(e) ELSE [fails |-> {}, kf |-> {}, hits |-> {}, rejected |-> FALSE]
     IN EmitV(e, c02.fails \cup c16.fails \cup SetIf(raised, "BUILD.raised"), c02.kf \cup c16.kf,
              c02.hits \cup c16.hits, {}, c02.rejected \/ c16.rejected)
  /\ fm' = IF e.raised # "" THEN None ELSE e.fm
  /\ bo' = e.opts
  /\ UNCHANGED <<m, fr, env>>

(******************************* SolveStress ******************************)
\* positions (into x) reported as -1 / expected to be excluded
ExclPos(e) == {k \in DOMAIN e.x : e.x[k] = -Q}
ExpExclPos  == LET dels == {fm.deletes[j] : j \in DOMAIN fm.deletes} IN
               {k \in DOMAIN fr.internal : First(fr.ifaces[fr.internal[k]]) \in dels /\ Last(fr.ifaces[fr.internal[k]]) \in dels}
Restricted(e) == SelectSeq([k \in DOMAIN e.x |-> <<k, e.x[k]>>], LAMBDA p : p[1] \notin ExpExclPos)
XR(e) == LET r == Restricted(e) IN [j \in DOMAIN r |-> r[j][2]]

C05Solve(e) ==
  LET x == XR(e)
      n == Len(x)
      rows == fm.rows
      lam == BestLambda(rows, e.b, x)
      square == 2 * Len(rows) = n
      exact == ResidualSmall(rows, e.b, x, lam, n, 200)
      consistent == ResidualSmall(rows, e.b, x, lam, n, 2000)
      invPath == square /\ e.opts.allow_neg /\ e.opts.method \in {"default"}
      gradBad == KKTGradBad(rows, e.b, x, lam, n)
      compBad == KKTCompBad(rows, e.b, x, lam, n)
      needKKT == ~(invPath /\ exact)
  IN [fails |-> SetIf(~e.finite, "C05.finite")
                \cup SetIf(e.finite /\ Len(e.x) # Len(fr.internal), "C05.length")
                \cup SetIf(e.finite /\ ~e.opts.allow_neg /\ \E c \in DOMAIN x : x[c] < -TolZ, "C05.negative")
                \cup SetIf(e.finite /\ needKKT /\ ~KKTPrimalOK(x, lam), "C05.kkt_primal")
                \cup SetIf(e.finite /\ needKKT /\ gradBad # {}, "C05.kkt_gradient")
                \cup SetIf(e.finite /\ needKKT /\ compBad # {}, "C05.kkt_complementarity")
                \cup SetIf(e.finite /\ needKKT /\ ~KKTLamOK(rows, e.b, x, lam), "C05.kkt_multiplier")
                \cup SetIf(e.finite /\ consistent /\ Abs(ResSum(x, n)) > 100 + 2 * n, "C05.mean_one"),
      kf |-> {},
      hits |-> {"C05.solve"} \cup SetIf(invPath /\ exact, "C05.path_inversion") \cup SetIf(needKKT, "C05.path_nnls")
               \cup SetIf(consistent, "C05.consistent") \cup SetIf(~consistent, "C05.inconsistent")
               \cup SetIf(\E c \in DOMAIN x : x[c] <= TolZ, "C05.active_bound")
               \cup SetIf(\E k \in DOMAIN e.b : e.b[k][1] # 0 \/ e.b[k][2] # 0, "C05.velocity_rhs"),
      rejected |-> FALSE]

\* C01: tension of every inferred interface = true tension / mean true tension of the inferred ones
TolTension(env_) == env_.tolT
C01Solve(e) ==
  LET idx == DOMAIN e.x
      phys == [k \in idx |-> PhysOf(env, fr.ifaces[fr.internal[k]])]
      ok == \A k \in idx : phys[k] # 0
      sumT == SumFrom(LAMBDA k : env.E[phys[k]].T, 1, Len(e.x))
      n == Len(e.x)
      bad == IF ~ok THEN idx ELSE {k \in idx : ~Close(Mul(e.x[k], sumT \div n), env.E[phys[k]].T, TolTension(env))}
      \* known finding (case level: the solution couples all interfaces): some used end is sign-forced / two-point
      contaminated == \/ KF_FarFromOrigin(env, bo.fit)
                      \/ \E k \in DOMAIN fm.rows : \E i \in InternalEndingAt(m, fr, fm.rows[k].v) :
                         LET q == PhysOf(env, fr.ifaces[i]) IN q # 0 /\
                            (\/ KF_TwoPointIfc(env, q) \/ KF_SignForcedEnd(env, q, fm.rows[k].v)
                             \/ KF_LineFitPerpEnd(env, q, fm.rows[k].v, Entry(fm.rows[k], ColOf(fm, i))))
      twoPoint == \E i \in InternalIdx(m, fr) : LET q == PhysOf(env, fr.ifaces[i]) IN q # 0 /\ KF_TwoPointIfc(env, q)
  IN [fails |-> SetIf(bad # {} /\ ~contaminated /\ ~twoPoint, "C01.tension"),
      kf |-> SetIf(bad # {} /\ twoPoint, "KF_TwoPointInterface:C01.tension")
             \cup SetIf(bad # {} /\ ~twoPoint /\ contaminated, "KF_TangentDefects:C01.tension"),
      hits |-> {"C01.tension"} \cup SetIf(~contaminated /\ ~twoPoint, "C01.clean_case"),
      rejected |-> ~env.equilibrium \/ ~EnvTangentsOK(env)]

C16Solve(e) ==
  [fails |-> SetIf(ExclPos(e) # ExpExclPos, "C16.minus_one_positions"),
   kf |-> {},
   hits |-> {"C16.solve"} \cup SetIf(ExpExclPos # {} /\ Cardinality(ExpExclPos) < Len(e.x), "C16.some_excluded_solved"),
   rejected |-> FALSE]

DoSolveStress(e) ==
  /\ e.ev = "SolveStress"
  /\ LET raised == e.raised # ""
         empty == [fails |-> {}, kf |-> {}, hits |-> {}, rejected |-> FALSE]
         usable == ~raised /\ fm # None
         c05 == IF usable /\ (Want("C05") \/ Want("C16")) THEN C05Solve(e) ELSE empty
         c01 == IF usable /\ Want("C01") /\ e.finite THEN C01Solve(e) ELSE empty
         c16 == IF usable /\ Want("C16") /\ e.finite THEN C16Solve(e) ELSE empty
         pre(set, p) == {p \o s : s \in set}
         c05f == IF Want("C05") THEN c05.fails ELSE {}
         c16r == IF Want("C16") THEN {"C16.restricted_" \o "solution" : s \in {t \in c05.fails : t # "C05.length"}} ELSE {}
     IN EmitV(e, c05f \cup c16r \cup c01.fails \cup c16.fails \cup SetIf(raised, "SOLVE.raised"),
              c01.kf, c05.hits \cup c01.hits \cup c16.hits, {}, c01.rejected)
  /\ UNCHANGED <<m, fr, env, fm, bo>>

(******************************* plumbing *********************************)
DoMesh(e)  == e.ev = "Mesh"  /\ EmitV(e, {}, {}, {}, {}, FALSE) /\ m' = e.mesh /\ UNCHANGED <<fr, env, fm, bo>>
DoFrame(e) == e.ev = "Frame" /\ EmitV(e, {}, {}, {}, {}, FALSE) /\ fr' = e.f /\ UNCHANGED <<m, env, fm, bo>>
DoEnv(e)   == e.ev = "Env"   /\ EmitV(e, {}, {}, {}, {}, FALSE) /\ env' = e /\ fm' = None /\ bo' = None /\ UNCHANGED <<m, fr>>

DoSkip(e)  == e.ev = "Skip"  /\ EmitV(e, {}, {}, {}, {}, TRUE) /\ UNCHANGED <<m, fr, env, fm, bo>>

Next == /\ l <= Len(TR)
        /\ LET e == TR[l] IN DoMesh(e) \/ DoFrame(e) \/ DoEnv(e) \/ DoBuildForce(e) \/ DoSolveStress(e) \/ DoSkip(e)
        /\ l' = l + 1
Spec == Init /\ [][Next]_vars
Done == TLCGet("stats").diameter - 1 = Len(TR)
=============================================================================

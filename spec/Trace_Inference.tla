--------------------------- MODULE Trace_Inference ---------------------------
(***************************************************************************)
(* Trace validation of the inference pipeline of one frame:                *)
(*   Mesh -> Frame -> Env -> BuildForce -> SolveStress                     *)
(*        [-> BuildPressure -> SolvePressure]                              *)
(* Each event is judged against the specification state accumulated so far *)
(* (C01, C02, C05, C16, C04). Verdicts are total (TraceKit).               *)
(***************************************************************************)
EXTENDS Equations, Certificates, TraceKit

VARIABLES l, m, fr, env, fm, bo, pm, sol, prev
vars == <<l, m, fr, env, fm, bo, pm, sol, prev>>

None == [none |-> TRUE]
Init == l = 1 /\ m = None /\ fr = None /\ env = None /\ fm = None /\ bo = None /\ pm = None /\ sol = None /\ prev = None

Want(p) == env # None /\ \E j \in DOMAIN env.want : env.want[j] = p

SetIf(cond, name) == IF cond THEN {name} ELSE {}

(******************************* BuildForce *******************************)
Used(e) == \* internal interfaces not excluded by the implementation's own delete set
  {i \in InternalIdx(m, fr) : ~(First(fr.ifaces[i]) \in {e.fm.deletes[j] : j \in DOMAIN e.fm.deletes}
                                /\ Last(fr.ifaces[i]) \in {e.fm.deletes[j] : j \in DOMAIN e.fm.deletes})}

C02Build(e) ==
  LET f == e.fm
      used == Used(e)
      bad == CoefBad(m, fr, env, f)
      kfOf == {<<ki, CoefKF(m, fr, env, f, ki, e.opts.fit)>> : ki \in bad}
      missing == JunctionsMissing(m, fr, f, e.opts.ignore_four)
      missKF == {<<v, IF KF_TwoPointAt(env, m, fr, v) THEN "KF_TwoPointInterface"
                      ELSE IF KF_AxisAlignedDropped(env, m, fr, v) THEN "KF_AxisAlignedDropped" ELSE "">> : v \in missing}
  IN [fails |-> SetIf(~ColumnsOK(m, fr, f, used), "C02.columns")
                \cup SetIf(\E p \in kfOf : p[2] = "", "C02.coefficients")
                \cup SetIf(~ZerosOK(m, fr, f), "C02.zeros")
                \cup SetIf(\E p \in missKF : p[2] = "", "C02.junction_missing")
                \cup SetIf(JunctionsExtra(m, fr, f, e.opts.ignore_four) # {}, "C02.junction_extra")
                \cup SetIf(~RowsDistinctOK(f), "C02.rows"),
      kf |-> {p[2] \o ":C02.coefficients" : p \in {q \in kfOf : q[2] # ""}}
             \cup {p[2] \o ":C02.junction_missing" : p \in {q \in missKF : q[2] # ""}},
      hits |-> {"C02.columns"} \cup SetIf(Len(f.rows) > 0, "C02.coefficients")
               \cup SetIf(\E q \in DOMAIN env.E : ~env.E[q].straight, "C02.arcs")
               \cup SetIf(e.opts.ignore_four, "C02.ignore_four"),
      rejected |-> ~EnvTangentsOK(env)]

\* C16 at build time: the delete set and the column list
C16Build(e) ==
  LET f == e.fm
      cosL == e.opts.cos
      margin == IF e.opts.limit = "pi" THEN 5 ELSE CosMargin
      sure  == {e.vs[k].v : k \in {k \in DOMAIN e.vs : \E i, j \in DOMAIN e.vs[k].d : i < j /\ Dot(e.vs[k].d[i], e.vs[k].d[j]) <= cosL - margin}}
      clear == {e.vs[k].v : k \in {k \in DOMAIN e.vs : \A i, j \in DOMAIN e.vs[k].d : i < j => Dot(e.vs[k].d[i], e.vs[k].d[j]) >= cosL + margin}}
      dels  == {f.deletes[j] : j \in DOMAIN f.deletes}
      unclear == {e.vs[k].v : k \in DOMAIN e.vs} \ (sure \cup clear)
      noLimit == e.opts.limit \in {"pi", "inf"}
      usedSeq == SelectSeq(fr.internal, LAMBDA i : i \in Used(e))
      \* the directions that enter the rule are the interfaces' unit tangents at the junction - those of BORDER interfaces too,
      \* which no coefficient of the force system shows (C02 judges the internal ones). Ends hit by a known tangent defect
      \* (reported by C02) and interfaces that match no single arc / segment of the truth are not judged.
      dirBad == {ki \in UNION {{<<k, i>> : i \in DOMAIN e.vs[k].d} : k \in DOMAIN e.vs} :
                   LET v == e.vs[ki[1]].v  d == e.vs[ki[1]].d[ki[2]]  en == e.vs[ki[1]].ends[ki[2]]
                       q == IF en[1] = 0 \/ en[2] = 0 \/ en[1] = en[2] THEN 0 ELSE PhysOf(env, <<en[1], en[2]>>)
                   IN /\ q # 0 /\ en[3] = env.E[q].npts
                      /\ ~(KF_TwoPointIfc(env, q) \/ KF_SignForcedEnd(env, q, v) \/ KF_FarFromOrigin(env, e.opts.fit)
                            \/ KF_LineFitPerpEnd(env, q, v, d))
                      /\ ~(Close(d[1], TrueTan(env, q, v)[1], TolTangent) /\ Close(d[2], TrueTan(env, q, v)[2], TolTangent))}
  IN [fails |-> SetIf(~(sure \subseteq dels), "C16.delete_missing")
                \cup SetIf(EnvTangentsOK(env) /\ dirBad # {}, "C16.directions")
                \cup SetIf(dels \cap clear # {}, "C16.delete_extra")
                \cup SetIf(f.cols # usedSeq, "C16.columns_order")
                \cup SetIf(noLimit /\ unclear = {} /\ (dels # {} \/ Len(f.cols) # Cardinality(InternalIdx(m, fr))), "C16.default_excludes"),
      kf |-> {},
      hits |-> {"C16.build"} \cup SetIf(dels # {} /\ Len(f.cols) > 0 /\ Len(f.cols) < Cardinality(InternalIdx(m, fr)), "C16.some_excluded")
               \cup SetIf(noLimit, "C16.default"),
      rejected |-> unclear # {}]

DoBuildForce(e) ==
  /\ e.ev = "BuildForce"
  /\ LET raised == e.raised # ""
         c02 == IF ~raised /\ Want("C02") THEN C02Build(e) ELSE [fails |-> {}, kf |-> {}, hits |-> {}, rejected |-> FALSE]
         c16 == IF ~raised /\ Want("C16") THEN C16Build(e) ELSE [fails |-> {}, kf |-> {}, hits |-> {}, rejected |-> FALSE]
         \* known finding: a LOOP interface (a cell attached through one junction only: its outline runs from the junction
         \* back to itself) at a junction that ends an internal interface makes the direction look-up assert
         kfLoop == raised /\ m # None /\ fr # None /\
                   \E i \in DOMAIN fr.ifaces : LET p == fr.ifaces[i] IN
                        Len(p) > 1 /\ First(p) = Last(p) /\ \E j \in InternalIdx(m, fr) : First(p) \in EndsOfPath(fr.ifaces[j])
     IN EmitV(e, c02.fails \cup c16.fails \cup SetIf(raised /\ ~kfLoop, "BUILD.raised"),
              c02.kf \cup c16.kf \cup SetIf(kfLoop, "KF_LoopInterface:BUILD.raised"),
              c02.hits \cup c16.hits, {}, c02.rejected \/ c16.rejected)
  /\ fm' = IF e.raised # "" THEN None ELSE e.fm
  /\ bo' = e.opts
  /\ UNCHANGED <<m, fr, env, pm, sol, prev>>

(******************************* SolveStress ******************************)
\* positions (into x) reported as -1 / expected to be excluded
ExclPos(e) == {k \in DOMAIN e.x : e.x[k] = -Q}
ExpExclPos  == LET dels == {fm.deletes[j] : j \in DOMAIN fm.deletes} IN
               {k \in DOMAIN fr.internal : First(fr.ifaces[fr.internal[k]]) \in dels /\ Last(fr.ifaces[fr.internal[k]]) \in dels}
Restricted(e) == SelectSeq([k \in DOMAIN e.x |-> <<k, e.x[k]>>], LAMBDA p : p[1] \notin ExpExclPos)
XR(e) == LET r == Restricted(e) IN [j \in DOMAIN r |-> r[j][2]]

C05Solve(e) == IF fm.ncols # Len(XR(e)) \/ \E k \in DOMAIN fm.rows : \E j \in DOMAIN fm.rows[k].e : fm.rows[k].e[j][1] \notin 1..Len(XR(e))
  THEN \* the number of unknowns of the assembled system differs from the number of reported, non-excluded tensions:
       \* the certificate cannot even be formed (verdicts stay total)
       [fails |-> {"C05.dimension"}, kf |-> {}, hits |-> {"C05.solve"}, rejected |-> FALSE]
  ELSE
  LET x == XR(e)
      n == Len(x)
      rows == fm.rows
      lam == BestLambda(rows, e.b, x)
      lamFree == IF Len(rows) = 0 THEN 0 ELSE TDiv(SumRes(rows, e.b, x, 1), 2 * Len(rows))
      square == 2 * Len(rows) = n
      consistent == ResidualSmall(rows, e.b, x, lam, n, 2000)
      \* known finding: on a square system the default back-end returns the exact solution of the augmented
      \* system without constraining the signs (the multiplier is never checked; tensions only when
      \* allow_negatives is off), so the result need not be the NON-NEGATIVE optimum
      invUnconstrained == /\ square /\ e.opts.method = "default"
                          /\ ResidualSmall(rows, e.b, x, lamFree, n, 200)
                          /\ (lamFree < -TolZ \/ (e.opts.allow_neg /\ \E c \in DOMAIN x : x[c] < -TolZ))
      kktFails == SetIf(~KKTPrimalOK(x, lam), "C05.kkt_primal")
                  \cup SetIf(KKTGradBad(rows, e.b, x, lam, n) # {}, "C05.kkt_gradient")
                  \cup SetIf(KKTCompBad(rows, e.b, x, lam, n) # {}, "C05.kkt_complementarity")
                  \cup SetIf(~KKTLamOK(rows, e.b, x, lam), "C05.kkt_multiplier")
      kkt == IF e.finite THEN kktFails ELSE {}
  IN [fails |-> SetIf(~e.finite, "C05.finite")
                \cup SetIf(e.finite /\ Len(e.x) # Len(fr.internal), "C05.length")
                \cup SetIf(e.finite /\ ~e.opts.allow_neg /\ \E c \in DOMAIN x : x[c] < -TolZ, "C05.negative")
                \cup (IF invUnconstrained THEN {} ELSE kkt)
                \cup SetIf(e.finite /\ consistent /\ Abs(ResSum(x, n)) > 100 + 2 * n, "C05.mean_one"),
      kf |-> IF invUnconstrained THEN {"KF_InversionUnconstrained:" \o c : c \in kkt} ELSE {},
      hits |-> {"C05.solve"} \cup SetIf(square /\ e.opts.method = "default" /\ ResidualSmall(rows, e.b, x, lamFree, n, 200), "C05.path_inversion")
               \cup SetIf(~square \/ ~ResidualSmall(rows, e.b, x, lamFree, n, 200), "C05.path_fallback_or_selected")
               \cup SetIf(e.opts.method # "default", "C05.backend_" \o e.opts.method)
               \cup SetIf(consistent, "C05.consistent") \cup SetIf(~consistent, "C05.inconsistent")
               \cup SetIf(\E c \in DOMAIN x : x[c] <= TolZ, "C05.active_bound")
               \cup SetIf(~e.opts.allow_neg, "C05.negatives_disallowed")
               \cup SetIf(\E k \in DOMAIN e.b : e.b[k][1] # 0 \/ e.b[k][2] # 0, "C05.velocity_rhs"),
      rejected |-> FALSE]

\* C01: tension of every inferred interface = true tension / mean true tension of the inferred ones
TolTension(env_) == env_.tolT
C01Solve(e) ==
  LET idx == DOMAIN e.x
      phys == [k \in idx |-> PhysOf(env, fr.ifaces[fr.internal[k]])]
      ok == \A k \in idx : phys[k] # 0
      sumT == SumFrom(LAMBDA k : env.E[phys[k]].T, 1, Len(e.x))
      n == Len(e.x)
      bad == IF ~ok THEN idx ELSE {k \in idx : ~Close(Mul(e.x[k], sumT \div n), env.E[phys[k]].T, TolTension(env))}
      \* known finding (case level: the solution couples all interfaces): some used end is sign-forced / two-point
      contaminated == \/ KF_FarFromOrigin(env, bo.fit)
                      \/ \E k \in DOMAIN fm.rows : \E i \in InternalEndingAt(m, fr, fm.rows[k].v) :
                         LET q == PhysOf(env, fr.ifaces[i]) IN q # 0 /\
                            (\/ KF_TwoPointIfc(env, q) \/ KF_SignForcedEnd(env, q, fm.rows[k].v)
                             \/ KF_LineFitPerpEnd(env, q, fm.rows[k].v, Entry(fm.rows[k], ColOf(fm, i))))
      twoPoint == \E i \in InternalIdx(m, fr) : LET q == PhysOf(env, fr.ifaces[i]) IN q # 0 /\ KF_TwoPointIfc(env, q)
      premise == env.equilibrium /\ EnvTangentsOK(env)
  IN [fails |-> SetIf(premise /\ bad # {} /\ ~contaminated /\ ~twoPoint, "C01.tension"),
      kf |-> SetIf(premise /\ bad # {} /\ twoPoint, "KF_TwoPointInterface:C01.tension")
             \cup SetIf(premise /\ bad # {} /\ ~twoPoint /\ contaminated, "KF_TangentDefects:C01.tension"),
      hits |-> SetIf(premise, "C01.tension") \cup SetIf(premise /\ ~contaminated /\ ~twoPoint, "C01.clean_case"),
      rejected |-> ~premise]

\* C03: velocity-based inference returns the true tensions (mean one) within the tolerance implied by the
\* three-decimal rounding of the velocity term (conditioning-derived, supplied with the case from the TRUE system)
C03Solve(e) ==
  LET idx == DOMAIN e.x
      phys == [k \in idx |-> PhysOf(env, fr.ifaces[fr.internal[k]])]
      ok == \A k \in idx : phys[k] # 0
      bad == IF ~ok THEN idx ELSE {k \in idx : ~Close(e.x[k], env.E[phys[k]].T, env.tolD)}
      contaminated == \/ KF_FarFromOrigin(env, bo.fit)
                      \/ \E k \in DOMAIN fm.rows : \E i \in InternalEndingAt(m, fr, fm.rows[k].v) :
                         LET q == PhysOf(env, fr.ifaces[i]) IN q # 0 /\
                            (\/ KF_TwoPointIfc(env, q) \/ KF_SignForcedEnd(env, q, fm.rows[k].v)
                             \/ KF_LineFitPerpEnd(env, q, fm.rows[k].v, Entry(fm.rows[k], ColOf(fm, i))))
      twoPoint == \E i \in InternalIdx(m, fr) : LET q == PhysOf(env, fr.ifaces[i]) IN q # 0 /\ KF_TwoPointIfc(env, q)
      premise == env.dynamic /\ EnvTangentsOK(env) /\ e.opts.bmode = "velocity"
  IN [fails |-> SetIf(premise /\ bad # {} /\ ~contaminated /\ ~twoPoint, "C03.tension"),
      kf |-> SetIf(premise /\ bad # {} /\ twoPoint, "KF_TwoPointInterface:C03.tension")
             \cup SetIf(premise /\ bad # {} /\ ~twoPoint /\ contaminated, "KF_TangentDefects:C03.tension"),
      hits |-> SetIf(premise, "C03.tension") \cup SetIf(premise /\ ~contaminated /\ ~twoPoint, "C03.clean_case")
               \cup SetIf(premise /\ env.when = env.nframes - 1, "C03.last_frame_backward")
               \cup SetIf(premise /\ env.when > 0 /\ env.when < env.nframes - 1, "C03.middle_frame"),
      rejected |-> ~premise]

C16Solve(e) ==
  [fails |-> SetIf(ExclPos(e) # ExpExclPos, "C16.minus_one_positions"),
   kf |-> {},
   hits |-> {"C16.solve"} \cup SetIf(ExpExclPos # {} /\ Cardinality(ExpExclPos) < Len(e.x), "C16.some_excluded_solved"),
   rejected |-> FALSE]

DoSolveStress(e) ==
  /\ e.ev = "SolveStress"
  /\ LET raised == e.raised # ""
         empty == [fails |-> {}, kf |-> {}, hits |-> {}, rejected |-> FALSE]
         \* values outside the fixed-point range of the oracle (|v| >= 1900) cannot be judged: rejected input;
         \* lsq_linear is specified for consistent systems only (truth of the generator)
         outOfScope == ~raised /\ ((e.finite /\ ~e.in_range) \/ (e.opts.method = "lsq_linear" /\ ~env.consistent_truth))
         usable == ~raised /\ fm # None /\ ~outOfScope
         c05 == IF usable /\ (Want("C05") \/ Want("C16")) THEN C05Solve(e) ELSE empty
         c01 == IF usable /\ Want("C01") /\ e.finite THEN C01Solve(e) ELSE empty
         c16 == IF usable /\ Want("C16") /\ e.finite THEN C16Solve(e) ELSE empty
         c03 == IF usable /\ Want("C03") /\ e.finite THEN C03Solve(e) ELSE empty
         pre(set, p) == {p \o s : s \in set}
         c05f == IF Want("C05") THEN c05.fails ELSE {}
         c16r == IF Want("C16") THEN {"C16.restricted_" \o "solution" : s \in {t \in c05.fails : t # "C05.length"}} ELSE {}
         fixStress == raised /\ e.opts.method = "fix_stress"
     IN EmitV(e, c05f \cup c16r \cup c01.fails \cup c16.fails \cup c03.fails \cup SetIf(raised /\ ~fixStress, "SOLVE.raised"),
              c01.kf \cup c03.kf \cup (IF Want("C05") THEN c05.kf ELSE {}) \cup SetIf(fixStress, "KF_FixStress:SOLVE.raised"),
              c05.hits \cup c01.hits \cup c16.hits \cup c03.hits, {}, c01.rejected \/ c03.rejected \/ outOfScope)
  /\ sol' = IF e.raised # "" \/ fm = None \/ ~e.finite \/ ~e.in_range \/ fm.ncols # Len(XR(e)) THEN None
            ELSE LET x == XR(e)
                     lamFree == IF Len(fm.rows) = 0 THEN 0 ELSE TDiv(SumRes(fm.rows, e.b, x, 1), 2 * Len(fm.rows))
                     inversion == 2 * Len(fm.rows) = Len(x) /\ e.opts.method = "default"
                                  /\ ResidualSmall(fm.rows, e.b, x, lamFree, Len(x), 200)
                 IN [lam |-> IF inversion THEN Abs(lamFree) ELSE BestLambda(fm.rows, e.b, x)]
  /\ UNCHANGED <<m, fr, env, fm, bo, pm, prev>>

(******************************* pressure (C04) ***************************)
Rng2(q) == {q[j] : j \in DOMAIN q}
RowOfIfc(P, i) == IF \E q \in DOMAIN P.rows : P.rows[q].i = i THEN CHOOSE q \in DOMAIN P.rows : P.rows[q].i = i ELSE 0
\* the cell on the side of the centre of curvature of physical interface ph (0 if straight / unknown)
CentreCell(ph) == IF env.E[ph].theta > 0 THEN env.E[ph].left ELSE IF env.E[ph].theta < 0 THEN env.E[ph].right ELSE 0
TolTurn == 30
C04Build(e) ==
  LET P == e.pm
      internal == InternalIdx(m, fr)
      rowIfcs == {P.rows[q].i : q \in DOMAIN P.rows}
      structBad == {q \in DOMAIN P.rows : LET r == P.rows[q] IN
                      ~(/\ Len(r.c) = 2
                        /\ {r.c[1][2], r.c[2][2]} = {1, -1}
                        /\ r.i \in internal
                        /\ {r.c[1][1], r.c[2][1]} = SepCells(m, fr.ifaces[r.i]))}
      rhsBad == {q \in DOMAIN P.rows : LET r == P.rows[q] IN P.in_range /\ ~Close(r.rhs, Mul(r.T, r.turn), 5 + Abs(r.rhs) \div 100000)}
      signBad == {q \in DOMAIN P.rows \ structBad : LET r == P.rows[q]  ph == PhysOf(env, fr.ifaces[r.i]) IN
                      /\ P.in_range /\ ph # 0 /\ r.T > 1000 /\ Abs(env.E[ph].theta) > 20000 /\ Abs(r.rhs) > 100 /\ CentreCell(ph) # 0
                      /\ LET plus == IF r.c[1][2] = 1 THEN r.c[1][1] ELSE r.c[2][1]
                              minus == IF r.c[1][2] = 1 THEN r.c[2][1] ELSE r.c[1][1]
                          IN  ~((r.rhs > 0 /\ plus = CentreCell(ph)) \/ (r.rhs < 0 /\ minus = CentreCell(ph)))}
      straightBad == {q \in DOMAIN P.rows : LET r == P.rows[q]  ph == PhysOf(env, fr.ifaces[r.i]) IN
                      ph # 0 /\ env.E[ph].straight /\ Abs(r.turn) > TolTurn}
      \* |turn| * (n-1) within 3% of |theta| * (n-2): uniformly sampled arcs only (not resampled), |theta| <= 1.5
      arcRows == {q \in DOMAIN P.rows : LET r == P.rows[q]  ph == PhysOf(env, fr.ifaces[r.i]) IN
                      ph # 0 /\ ~e.resampled /\ ~env.E[ph].straight /\ env.E[ph].npts >= 3 /\ env.E[ph].npts = Len(fr.ifaces[r.i])
                      /\ Abs(env.E[ph].theta) <= 1500000 /\ Abs(env.E[ph].theta) >= 20000}
      arcBad == {q \in arcRows : LET r == P.rows[q]  ph == PhysOf(env, fr.ifaces[r.i])  n == env.E[ph].npts
                                     want == Abs(env.E[ph].theta) * (n - 2)  got == Abs(r.turn) * (n - 1)
                                 IN Abs(got - want) > (want \div 100) * 3 + 4 * n}
  IN [fails |-> SetIf(rowIfcs # internal \/ Len(P.rows) # Cardinality(internal), "C04.rows_cover")
                \cup SetIf(structBad # {}, "C04.row_structure")
                \cup SetIf(rhsBad # {}, "C04.rhs_value")
                \cup SetIf(signBad # {}, "C04.sign_rule")
                \cup SetIf(straightBad # {}, "C04.turning_straight")
                \cup SetIf(arcBad # {}, "C04.turning_arc"),
      kf |-> {},
      hits |-> {"C04.build"} \cup SetIf(arcRows # {}, "C04.turning_arc") \cup SetIf(Len(P.rows) > 0, "C04.rows")
               \cup SetIf(\E q \in DOMAIN P.rows : LET ph == PhysOf(env, fr.ifaces[P.rows[q].i]) IN ph # 0 /\ Abs(env.E[ph].theta) > 20000, "C04.sign_rule")
               \cup SetIf(P.removed # <<>>, "C04.cells_without_interface"),
      rejected |-> FALSE]

DoBuildPressure(e) ==
  /\ e.ev = "BuildPressure"
  /\ LET raised == e.raised # ""
         c04 == IF ~raised /\ Want("C04") THEN C04Build(e) ELSE [fails |-> {}, kf |-> {}, hits |-> {}, rejected |-> FALSE]
         \* known finding of C08: a two-point border interface classified internal has a single cell; the pressure step raises
         kfNotch == raised /\ \E i \in InternalIdx(m, fr) : Len(fr.ifaces[i]) = 2 /\ Cardinality(SepCells(m, fr.ifaces[i])) = 1
     IN EmitV(e, c04.fails \cup SetIf(raised /\ ~kfNotch, "C04.build_raised"), SetIf(kfNotch, "KF_BorderTwoPoint:C04.build_raised"), c04.hits, {}, FALSE)
  /\ pm' = IF e.raised # "" THEN None ELSE e.pm
  /\ UNCHANGED <<m, fr, env, fm, bo, sol, prev>>

PRows == [q \in DOMAIN pm.rows |-> LET r == pm.rows[q] IN
            [hi |-> IF r.c[1][2] = 1 THEN r.c[1][1] ELSE r.c[2][1], lo |-> IF r.c[1][2] = 1 THEN r.c[2][1] ELSE r.c[1][1], rhs |-> r.rhs]]
\* connectedness of the graph (cells having an internal interface, internal interfaces) by reachability
RECURSIVE Reach(_, _)
Reach(S, edges) == LET T == S \cup {p[2] : p \in {q \in edges : q[1] \in S}} \cup {p[1] : p \in {q \in edges : q[2] \in S}}
                   IN IF T = S THEN S ELSE Reach(T, edges)
C04Solve(e) ==
  LET rows == PRows
      ok == \A q \in DOMAIN pm.rows : Len(pm.rows[q].c) = 2
      edges == {<<rows[q].hi, rows[q].lo>> : q \in DOMAIN rows}
      cellsIn == {p[1] : p \in edges} \cup {p[2] : p \in edges}
      connected == cellsIn # {} /\ Reach({CHOOSE c \in cellsIn : TRUE}, edges) = cellsIn
      deg(c) == Cardinality({q \in DOMAIN rows : rows[q].hi = c \/ rows[q].lo = c})
      tolN(c) == 60 + 12 * deg(c)
      neBad == {c \in cellsIn : Abs(NormalEq(rows, e.p, c)) > tolN(c)}
      sumP == SumSeq(e.p)
      isoBad == {c \in DOMAIN e.p : c \notin cellsIn /\ e.p[c] # 0}
      \* Pearson correlation with the analytic pressures >= 0.9 (cells with known analytic pressure)
      KS == {c \in DOMAIN e.p : e.pa_known[c] /\ c \in cellsIn}
      nK == Cardinality(KS)
      meanP == SumFrom(LAMBDA c : IF c \in KS THEN e.p[c] ELSE 0, 1, Len(e.p)) \div Max(nK, 1)
      meanA == SumFrom(LAMBDA c : IF c \in KS THEN e.pa[c] ELSE 0, 1, Len(e.p)) \div Max(nK, 1)
      \* both series are normalised to a largest deviation of 0.5 before the products (the correlation does not depend on the
      \* scale of either; un-normalised sums of squares of pressures near 50 do not fit 32 bits), sums divided by ~n/8
      devP(c) == IF c \in KS THEN e.p[c] - meanP ELSE 0
      devA(c) == IF c \in KS THEN e.pa[c] - meanA ELSE 0
      mxP == MaxFrom(LAMBDA c : Abs(devP(c)), 1, Len(e.p))
      mxA == MaxFrom(LAMBDA c : Abs(devA(c)), 1, Len(e.p))
      nP(c) == IF mxP = 0 THEN 0 ELSE FDiv(devP(c), mxP) \div 2
      nA(c) == IF mxA = 0 THEN 0 ELSE FDiv(devA(c), mxA) \div 2
      KK == (nK \div 8) + 1
      cov == SumFrom(LAMBDA c : Mul(nP(c), nA(c)), 1, Len(e.p)) \div KK
      vP  == SumFrom(LAMBDA c : Mul(nP(c), nP(c)), 1, Len(e.p)) \div KK
      vA  == SumFrom(LAMBDA c : Mul(nA(c), nA(c)), 1, Len(e.p)) \div KK
      \* the analytic pressures must vary: sum of squared deviations > 1e-3 (trivially so when some deviation exceeds 0.5)
      variesA == mxA > 500000 \/ SumFrom(LAMBDA c : Mul(devA(c), devA(c)), 1, Len(e.p)) > 1000
      contaminated == fm = None \/ KF_FarFromOrigin(env, bo.fit) \/ \E k \in DOMAIN fm.rows : \E i \in InternalEndingAt(m, fr, fm.rows[k].v) :
                         LET q == PhysOf(env, fr.ifaces[i]) IN q # 0 /\
                            (\/ KF_TwoPointIfc(env, q) \/ KF_SignForcedEnd(env, q, fm.rows[k].v)
                             \/ KF_LineFitPerpEnd(env, q, fm.rows[k].v, Entry(fm.rows[k], ColOf(fm, i))))
      corrPremise == /\ env.equilibrium /\ e.pa_consistent /\ env.k >= 3 /\ nK >= 5 /\ ~contaminated /\ connected
                     /\ variesA /\ \E q \in DOMAIN env.E : ~env.E[q].straight
      corrOK == cov > 0 /\ Mul(cov, cov) >= Mul(810000, Mul(vP, vA))
  IN [fails |-> SetIf(~e.finite, "C04.finite")
                \cup SetIf(e.finite /\ ok /\ connected /\ neBad # {}, "C04.normal_equations")
                \cup SetIf(e.finite /\ ok /\ connected /\ Abs(sumP) > 30 + 2 * Len(e.p), "C04.zero_sum")
                \cup SetIf(e.finite /\ isoBad # {}, "C04.isolated_zero")
                \cup SetIf(e.finite /\ ok /\ corrPremise /\ ~corrOK, "C04.correlation"),
      kf |-> {},
      hits |-> {"C04.solve"} \cup SetIf(connected, "C04.connected") \cup SetIf(corrPremise, "C04.correlation")
               \cup SetIf(\E c \in DOMAIN e.p : c \notin cellsIn, "C04.isolated_zero"),
      rejected |-> ~connected]

DoSolvePressure(e) ==
  /\ e.ev = "SolvePressure"
  /\ LET raised == e.raised # ""
         oor == ~raised /\ e.finite /\ ~e.in_range       \* outside the fixed-point range of the oracle: not judged
         c04 == IF ~raised /\ ~oor /\ pm # None /\ Want("C04") THEN C04Solve(e) ELSE [fails |-> {}, kf |-> {}, hits |-> {}, rejected |-> FALSE]
     IN EmitV(e, c04.fails \cup SetIf(raised, "C04.solve_raised"), {}, c04.hits, {}, c04.rejected \/ oor)
  /\ UNCHANGED <<m, fr, env, fm, bo, pm, sol, prev>>

\* the statement's premise for the solve clauses: the internal interfaces link all cells that have one into one group
PMConnected == pm # None /\ (\A q \in DOMAIN pm.rows : Len(pm.rows[q].c) = 2) /\
  LET rows == PRows
      edges == {<<rows[q].hi, rows[q].lo>> : q \in DOMAIN rows}
      cellsIn == {p[1] : p \in edges} \cup {p[2] : p \in edges}
  IN  cellsIn # {} /\ Reach({CHOOSE c \in cellsIn : TRUE}, edges) = cellsIn

DoPressureLin(e) ==
  /\ e.ev = "PressureLin"
  /\ LET raised == e.raised # ""
         conn == PMConnected
         bad == IF raised \/ ~e.in_range \/ ~conn THEN {} ELSE {c \in DOMAIN e.p3 : ~Close(e.p3[c], Mul(e.a, e.p1[c]) + Mul(e.b, e.p2[c]), 30 + Abs(e.p3[c]) \div 20000)}
     IN EmitV(e, SetIf(bad # {}, "C04.linearity") \cup SetIf(raised /\ conn, "C04.linearity_raised"), {},
              SetIf(conn, "C04.linearity"), {}, ~conn \/ (~raised /\ ~e.in_range))
  /\ UNCHANGED <<m, fr, env, fm, bo, pm, sol, prev>>

(******************************* two-run equivariance (C06, C07) **********)
\* Phys: results keyed by physical identity. Run 1 is remembered, run 2 is compared with it.
Lookup2(pairs, key) == IF \E j \in DOMAIN pairs : pairs[j][1] = key THEN pairs[CHOOSE j \in DOMAIN pairs : pairs[j][1] = key][2] ELSE -999999999
CoefOf(coefs, q, v) == IF \E j \in DOMAIN coefs : coefs[j][1] = q /\ coefs[j][2] = v
                       THEN LET j == CHOOSE j \in DOMAIN coefs : coefs[j][1] = q /\ coefs[j][2] = v IN <<coefs[j][3], coefs[j][4]>>
                       ELSE <<0, 0>>
RotT(R, c) == <<Mul(R[1][1], c[1]) + Mul(R[2][1], c[2]), Mul(R[1][2], c[1]) + Mul(R[2][2], c[2])>>   \* R^T c
ComparePhys(A, B) ==
  LET kind == B.e.g.kind
      P == IF kind = "relabel" THEN "C07" ELSE IF kind = "units" THEN "C06.units" ELSE "C06"
      both == A.sol # None /\ B.sol # None
      cond == A.conditioned /\ B.conditioned
      \* largest difference between corresponding coefficient pairs of the two runs (after undoing the embeddings)
      dcs == {LET q == A.e.coefs[j][1] v == A.e.coefs[j][2]
                  ca == RotT(A.e.g.rot, <<A.e.coefs[j][3], A.e.coefs[j][4]>>)
                  cb == RotT(B.e.g.rot, CoefOf(B.e.coefs, q, v))
              IN Max(Abs(ca[1] - cb[1]), Abs(ca[2] - cb[2])) : j \in DOMAIN A.e.coefs}
      dcMax == IF dcs = {} THEN 0 ELSE Min(20000, CHOOSE d \in dcs : \A d2 \in dcs : d >= d2)
      \* relabelling: the fits see the same points in another order (differences ~1e-4 for straight interfaces,
      \* ~1e-9 for arcs); first-order propagation through the true system: (tolC / 3e-3) * dc * 10
      \* the perturbation of a solution is proportional to its magnitude: the conditioning-derived tolerances assume
      \* tensions of order one (mean one); solutions of inconsistent square systems can be much larger
      xs == {Abs(A.e.tens[j][2]) : j \in DOMAIN A.e.tens} \cup {Abs(B.e.tens[j][2]) : j \in DOMAIN B.e.tens} \cup {Q}
      xScale == Min(20 * Q, CHOOSE v \in xs : \A w \in xs : v >= w)
      tolX == IF kind = "relabel" THEN 200 + Mul(Mul(A.tolC, dcMax) * 3333, xScale)
              ELSE IF kind = "units"   \* same geometry up to scale; one rounding flip (1e-3) of the velocity term: pn * 1e-3 = tolC / 3
                   THEN 200 + Mul(Mul(A.tolC, dcMax) * 3333 + A.tolC \div 3, xScale)
              ELSE Mul(A.tolC + B.tolC, xScale) + 200
      \* pressures are a linear image of the tensions (gain: turning angles x pseudo-inverse of the cell graph, a few tens at
      \* most for these tissues): what the two runs may differ by is bounded by what their TENSIONS actually differ by, not by
      \* the tolerance the tensions were allowed
      dTs == {Abs(A.e.tens[j][2] - Lookup2(B.e.tens, A.e.tens[j][1])) : j \in {i \in DOMAIN A.e.tens : A.e.tens[i][1] # 0}}
      dTmax == IF dTs = {} THEN 0 ELSE Min(10000000, CHOOSE d \in dTs : \A d2 \in dTs : d >= d2)
      tolP == IF kind = "relabel" THEN 2000 + 10 * tolX ELSE Min(10 * (A.tolC + B.tolC), 200 * dTmax) + 2000
      tolC2 == IF kind \in {"relabel", "units"} THEN 1500 ELSE 2 * TolTangent
      tensBad == {j \in DOMAIN A.e.tens : LET q == A.e.tens[j][1] IN q = 0 \/ ~Close(A.e.tens[j][2], Lookup2(B.e.tens, q), tolX)}
      presBad == {j \in DOMAIN A.e.pres : ~Close(A.e.pres[j][2], Lookup2(B.e.pres, A.e.pres[j][1]), tolP)}
      \* exactly straight interfaces: the ill-posed fit depends on the order of the points (usually 1e-4, occasionally up
      \* to the accuracy band of the fit); within twice that band nothing is demanded, beyond it the difference is the
      \* known line-fit defect (KF_LineFitPerp), for relabelled pairs as well
      coefDiff(j) == LET q == A.e.coefs[j][1] v == A.e.coefs[j][2]
                         ca == RotT(A.e.g.rot, <<A.e.coefs[j][3], A.e.coefs[j][4]>>)
                         cb == RotT(B.e.g.rot, CoefOf(B.e.coefs, q, v))
                     IN Max(Abs(ca[1] - cb[1]), Abs(ca[2] - cb[2]))
      isStraight(j) == A.e.coefs[j][1] \in B.straight
      coefBad == {j \in DOMAIN A.e.coefs : ~isStraight(j) /\ coefDiff(j) > tolC2}
                 \cup {j \in DOMAIN A.e.coefs : isStraight(j) /\ kind # "relabel" /\ coefDiff(j) > tolC2}
      coefLine == {j \in DOMAIN A.e.coefs : isStraight(j) /\ kind = "relabel" /\ coefDiff(j) > 2 * TolTangent}
      contaminated == A.contaminated \/ B.contaminated
      lamPos == both /\ (A.sol.lam > 100 \/ B.sol.lam > 100)
      \* relabelling leaves the geometry alone: defects hit both runs alike, so nothing is excused there
      \* a change of length unit rescales the coordinates, and the circle fit's known failure modes are not scale free
      \* (KF_LineFitPerp appears at some scales only): tangent defects excuse a units pair as they do a similarity pair;
      \* the multiplier is the same in both unit systems (same rotation), so it excuses nothing there
      \* (relabelling: sign forcing, two-point interfaces and the far-from-origin loss hit both runs alike; only the
      \* ill-posed fit of straight interfaces depends on the order in which the points are stored, so a defect present in
      \* exactly one of the two runs is that one)
      kfName == IF kind = "relabel" THEN (IF A.contaminated # B.contaminated \/ coefLine # {} THEN "KF_LineFitPerp" ELSE "")
                ELSE IF contaminated THEN "KF_TangentDefects"
                ELSE IF kind # "units" /\ lamPos THEN "KF_MultiplierNotRotationInvariant" ELSE ""
      \* under relabelling a case hit by a tangent defect is hit alike in both runs, but its assembled system is then not
      \* the true one, so the conditioning-derived tolerance does not apply: tensions / pressures are not compared
      \* (structure and coefficient pairs still are)
      numOK == both /\ cond /\ ~(kind = "relabel" /\ contaminated)
      numeric == SetIf(numOK /\ tensBad # {}, P \o ".tension")
                 \cup SetIf(numOK /\ Len(A.e.pres) > 0 /\ Len(A.e.pres) = Len(B.e.pres) /\ presBad # {}, P \o ".pressure")
      structural == SetIf(A.e.internal # B.e.internal, P \o ".internal_set")
                    \cup SetIf(A.e.junctions # B.e.junctions /\ (kind = "relabel" \/ ~contaminated), P \o ".equation_set")
                    \cup SetIf(Len(A.e.pres) # Len(B.e.pres), P \o ".pressure_missing")
      \* the analysis of exactly one of the two runs raised: the transformation did not leave the results unchanged
      \* (far beyond the accuracy range of the default fit the known loss of accuracy also makes the fit raise)
      oneRaised == (A.e.raised = "") # (B.e.raised = "")
      raisedSet == SetIf(oneRaised /\ ~(A.far \/ B.far), P \o ".raised_in_one_run")
      raisedKF  == SetIf(oneRaised /\ (A.far \/ B.far), "KF_FarFromOrigin:" \o P \o ".raised_in_one_run")
      \* the pressure step on tensions assigned by physical interface (equal in both runs by construction): wherever the
      \* cell graph is connected the pressures of the physical cells must agree, whatever the tension solve did
      p2Bad == {j \in DOMAIN A.e.pres2 : ~Close(A.e.pres2[j][2], Lookup2(B.e.pres2, A.e.pres2[j][1]), 3000 + Abs(A.e.pres2[j][2]) \div 1000)}
      p2Judged == A.pconn /\ B.pconn /\ Len(A.e.pres2) > 0 /\ Len(A.e.pres2) = Len(B.e.pres2) /\ ~oneRaised
      assigned == SetIf(p2Judged /\ p2Bad # {}, P \o ".pressure_assigned")
      juncEq == A.e.junctions = B.e.junctions
      hard == SetIf(juncEq /\ coefBad # {}, P \o ".coefficients")
      line == SetIf(juncEq /\ coefLine # {}, P \o ".coefficients")
  IN IF kind = "relabel"
     THEN [fails |-> raisedSet \cup assigned \cup (IF oneRaised THEN {} ELSE structural \cup hard \cup (IF kfName = "" THEN numeric ELSE {})),
           kf |-> raisedKF \cup (IF kfName = "" \/ oneRaised THEN {} ELSE {kfName \o ":" \o c : c \in numeric \cup line}),
           hits |-> {P \o ".compared"} \cup SetIf(numOK, P \o ".tension") \cup SetIf(Len(A.e.pres) > 0, P \o ".pressure")
                    \cup SetIf(Len(A.e.coefs) > 0, P \o ".coefficients") \cup SetIf(kfName = "" /\ both /\ cond, P \o ".clean_case")
                    \cup SetIf(p2Judged, P \o ".pressure_assigned"),
           rejected |-> (~both \/ ~cond) /\ ~p2Judged, extraFails |-> {}]
     ELSE [fails |-> raisedSet \cup assigned \cup (IF oneRaised THEN {} ELSE structural \cup (IF kfName = "" THEN numeric \cup hard ELSE {})),
           kf |-> raisedKF \cup (IF kfName = "" \/ oneRaised THEN {} ELSE {kfName \o ":" \o c : c \in numeric \cup (IF kfName = "KF_TangentDefects" THEN hard ELSE {})}),
           hits |-> {P \o ".compared"} \cup SetIf(numOK, P \o ".tension") \cup SetIf(Len(A.e.pres) > 0, P \o ".pressure")
                    \cup SetIf(Len(A.e.coefs) > 0, P \o ".coefficients") \cup SetIf(kfName = "" /\ both /\ cond, P \o ".clean_case")
                    \cup SetIf(p2Judged, P \o ".pressure_assigned"),
           rejected |-> (~both \/ ~cond) /\ ~p2Judged,
           extraFails |-> IF kfName \notin {"KF_TangentDefects", ""} /\ ~oneRaised THEN hard ELSE {}]

DoPhys(e) ==
  /\ e.ev = "Phys"
  /\ LET contam == fm # None /\ bo # None /\
                   (KF_FarFromOrigin(env, bo.fit) \/ \E k \in DOMAIN fm.rows : \E i \in InternalEndingAt(m, fr, fm.rows[k].v) :
                         LET q == PhysOf(env, fr.ifaces[i]) IN q # 0 /\
                            (\/ KF_TwoPointIfc(env, q) \/ KF_SignForcedEnd(env, q, fm.rows[k].v)
                             \/ KF_LineFitPerpEnd(env, q, fm.rows[k].v, Entry(fm.rows[k], ColOf(fm, i)))))
         cur == [case |-> e.case, e |-> e, sol |-> sol, tolC |-> env.tolC, conditioned |-> env.conditioned, contaminated |-> contam,
                 straight |-> {q \in DOMAIN env.E : env.E[q].straight},
                 far |-> env.offset_sizes > 4000 /\ (bo = None \/ bo.fit = "dlite"),
                 pconn |-> PMConnected]
     IN IF e.run = 1
        THEN EmitV(e, {}, {}, {}, {}, FALSE) /\ prev' = cur
        ELSE /\ (IF prev # None /\ prev.case = e.case
                 THEN LET r == ComparePhys(prev, cur) IN EmitV(e, r.fails \cup r.extraFails, r.kf, r.hits, {}, r.rejected)
                 ELSE EmitV(e, {}, {}, {}, {}, TRUE))
             /\ prev' = None
  /\ UNCHANGED <<m, fr, env, fm, bo, pm, sol>>

(******************************* plumbing *********************************)
DoMesh(e)  == e.ev = "Mesh"  /\ EmitV(e, {}, {}, {}, {}, FALSE) /\ m' = e.mesh /\ UNCHANGED <<fr, env, fm, bo, pm, sol, prev>>
DoFrame(e) == e.ev = "Frame" /\ EmitV(e, {}, {}, {}, {}, FALSE) /\ fr' = e.f /\ UNCHANGED <<m, env, fm, bo, pm, sol, prev>>
DoEnv(e)   == e.ev = "Env"   /\ EmitV(e, {}, {}, {}, {}, FALSE) /\ env' = e /\ fm' = None /\ bo' = None /\ pm' = None /\ sol' = None /\ UNCHANGED <<m, fr, prev>>

DoSkip(e)  == e.ev = "Skip"  /\ EmitV(e, {}, {}, {}, {}, TRUE) /\ UNCHANGED <<m, fr, env, fm, bo, pm, sol, prev>>

Next == /\ l <= Len(TR)
        /\ LET e == TR[l] IN DoMesh(e) \/ DoFrame(e) \/ DoEnv(e) \/ DoBuildForce(e) \/ DoSolveStress(e) \/ DoSkip(e)
                         \/ DoBuildPressure(e) \/ DoSolvePressure(e) \/ DoPressureLin(e) \/ DoPhys(e)
        /\ l' = l + 1
Spec == Init /\ [][Next]_vars
Done == TLCGet("stats").diameter - 1 = Len(TR)
=============================================================================

SPECIFICATION MCSpec
CONSTANT Limits = {"pi", "low", "inf"}
CONSTANT Fits = {"dlite", "taubinSVD"}
CONSTANT BModes = {"static", "velocity"}
CONSTANT PressuresKeyed = TRUE
CONSTANT ExcludedReset = TRUE
CONSTANT WalkLen = 12
VIEW View
CHECK_DEADLOCK FALSE
CONSTANT NF = 1
CONSTANT Methods = {"default", "lsq_linear", "fix_stress"}
CONSTANT MaxDepth = 6
INVARIANT AlignedX
INVARIANT KeyedStoresX
INVARIANT PureResultsX
CONSTRAINT DepthOK

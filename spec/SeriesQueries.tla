--------------------------- MODULE SeriesQueries ---------------------------
(***************************************************************************)
(* The query surface of a time series (extension check `tsqueries`, not    *)
(* one of the listed properties): TimeSeries.get_point_id_by_map over      *)
(* multi-step spans in both directions, get_vertex_position,               *)
(* calculate_velocity / whole_tissue_velocity / whole_tissue_acceleration  *)
(* / velocity_per_edge, times_to_use (and ForSys.times_to_use),            *)
(* export_mapping, get_cm_coords and the cm=True constructor path,         *)
(* auxiliar.load_initial_guess, the single-frame session.                  *)
(*                                                                         *)
(* AN EXPLICIT STATE MACHINE.  The state is the abstract series `ser`:     *)
(*   nf          number of frames (1-based here, 0-based `t` in the code)  *)
(*   stamp[F]    time stamp of frame F (integers, strictly increasing)     *)
(*   k[F]        the tracked vertices of frame F are 1..k[F] (dense ids:   *)
(*               every frame has its OWN numbering)                        *)
(*   pos[F][i]   exact position <<x, y>> of vertex i of frame F            *)
(*   ord[F]      dict iteration order of the tracked vertices of frame F   *)
(*   guess[f]    user-supplied pairs <<i, j>> of step f (frame f -> f+1)   *)
(*   ims[f]      the correspondence of step f in the shape of Tracking.tla *)
(*               [none, map]: none = the step was skipped ("different      *)
(*               tissue", mapping[f] is None), map[i] = successor of       *)
(*               vertex i in frame f+1 or NoneV: a PARTIAL INJECTIVE map   *)
(*   ifc[F]      the interfaces of frame F as pairs of end vertices        *)
(* plus what the object accumulates between calls (`store`, the dicts      *)
(* self.velocities / self.accelerations) and the last answer (`out`).      *)
(* The ACTIONS are the public queries (Ask): each sets `out` to its        *)
(* declarative result D in terms of `ser` and leaves `ser` unchanged.      *)
(*                                                                         *)
(* D = declarative result of each query;  I = transcription of the code    *)
(* (incidental behaviour: what is returned where D is undefined, the       *)
(* accumulating store).  MC_SeriesQueries checks I => D and the cross-call *)
(* algebra on ALL tiny series; Trace_SeriesQueries judges recorded answers *)
(* of real TimeSeries / ForSys objects against D.                          *)
(*                                                                         *)
(* Conventions the code documents (taken as they are, stated here):        *)
(*  - tmax / final_time are EXCLUSIVE (range(t0, tmax)), tmax = -1 in      *)
(*    get_vertex_position means "every frame of the series";               *)
(*  - "undefined" is represented by None, by KeyError (backward over a     *)
(*    vertex without pre-image) or by DifferentTissueException;            *)
(*  - a vertex without tracked partner has velocity zero ("fictious        *)
(*    vertex to give velocity zero") and acceleration NaN;                 *)
(*  - edge velocity / acceleration = |.| at the first end + |.| at the     *)
(*    last end ("sum of the pivot vertices");                              *)
(*  - accelerations are second DIFFERENCES (never divided by a time step,  *)
(*    see Acceleration.tla).                                               *)
(***************************************************************************)
EXTENDS Acceleration

Undef == NoneV          \* 0: no vertex

(* ======================================================================= *)
(* D - the queries as functions of the series                              *)
(* ======================================================================= *)
SNone(s, f) == s.ims[f].none

\* successor of vertex p of frame f in frame f+1 / the unique pre-image of vertex q of frame f+1
Succ(s, f, p) ==
  IF SNone(s, f) \/ p \notin 1..s.k[f] THEN Undef
  ELSE LET q == s.ims[f].map[p] IN IF q \in 1..s.k[f + 1] THEN q ELSE Undef
PredSet(s, f, q) == IF SNone(s, f) THEN {} ELSE {p \in 1..s.k[f] : s.ims[f].map[p] = q}
Pred(s, f, q) == LET B == PredSet(s, f, q) IN
                 IF q \in 1..s.k[f + 1] /\ Cardinality(B) = 1 THEN CHOOSE p \in B : TRUE ELSE Undef

\* PointByMap(p, F, G): composition of the successor maps (F < G) or of their inverses (G < F);
\* undefined as soon as one link is missing (or a step in between was skipped)
RECURSIVE PointByMap(_, _, _, _)
PointByMap(s, p, F, G) ==
  IF p = Undef THEN Undef
  ELSE IF F = G THEN p
  ELSE IF F < G THEN PointByMap(s, Succ(s, F, p), F + 1, G)
  ELSE PointByMap(s, Pred(s, F - 1, p), F - 1, G)

SpanNone(s, F, G) == \E f \in Min(F, G)..(Max(F, G) - 1) : SNone(s, f)

\* frames covered by the code's (t0, tmax): 1-based F0 = t0 + 1 .. tmax, all frames for tmax = -1
SpanFrames(s, t0, tmax) == IF tmax = -1 THEN 1..s.nf ELSE (t0 + 1)..tmax
SeqOf(S) == LET RECURSIVE F(_)
                F(T) == IF T = {} THEN <<>> ELSE LET x == SMin(T) IN <<x>> \o F(T \ {x})
            IN  F(S)

\* VertexPosition(v, t0, tmax): the positions of the tracked vertex over the span, in frame order;
\* <<"refused">> when the vertex has no tracked partner in one of the frames (the code documents nothing
\* for a missing frame; raising is accepted, a list with a made-up position is not)
VertexPosition(s, v, t0, tmax) ==
  LET FS == SpanFrames(s, t0, tmax)
      QQ(G) == PointByMap(s, v, t0 + 1, G)
  IN  IF \E G \in FS : QQ(G) = Undef THEN <<"refused">>
      ELSE <<"list", [i \in 1..Cardinality(FS) |-> LET G == SeqOf(FS)[i] IN s.pos[G][QQ(G)]]>>

\* Velocity(p, F): finite difference towards the tracked partner in the NEXT frame (previous frame at the last
\* frame) over the real elapsed time; zero without partner; refused when that step was skipped.
\* <<"vel", dx, dy, dt>> (exact rational dx/dt, dy/dt) | <<"dte">>
VOther(s, F) == IF F = s.nf THEN F - 1 ELSE F + 1
VStep(s, F)  == IF F = s.nf THEN F - 1 ELSE F
Velocity(s, p, F) ==
  LET G == VOther(s, F)  dt == s.stamp[G] - s.stamp[F] IN
  IF SNone(s, VStep(s, F)) THEN <<"dte">>
  ELSE LET q == PointByMap(s, p, F, G) IN
       IF q = Undef THEN <<"vel", 0, 0, dt>>
       ELSE <<"vel", s.pos[G][q][1] - s.pos[F][p][1], s.pos[G][q][2] - s.pos[F][p][2], dt>>

\* Accel(p, F), nf >= 3: second difference over the three consecutive frames lo..lo+2 (Acceleration!DAccLo)
\* <<"val", ax, ay>> | <<"nan">> (a partner is missing) | <<"skipped">> (a step inside the three frames was skipped)
Accel(s, p, F) ==
  LET lo == DAccLo(s.nf, F) IN
  IF SpanNone(s, lo, lo + 2) THEN <<"skipped">>
  ELSE LET q == [j \in 1..3 |-> PointByMap(s, p, F, lo + j - 1)] IN
       IF \E j \in 1..3 : q[j] = Undef THEN <<"nan">>
       ELSE LET a == SecondDiff(s.pos[lo + 2][q[3]], s.pos[lo + 1][q[2]], s.pos[lo][q[1]]) IN <<"val", a[1], a[2]>>

\* WholeTissueVelocity(F): one entry per interface of frame F, keyed 1..#interfaces: the velocities of its two ends
\* (the reported number is |v(first end)| + |v(last end)|); refused when the step used at F was skipped
WholeTissueVelocity(s, F) ==
  IF SNone(s, VStep(s, F)) THEN <<"dte">>
  ELSE <<"dict", [i \in 1..Len(s.ifc[F]) |-> <<Velocity(s, s.ifc[F][i][1], F), Velocity(s, s.ifc[F][i][2], F)>>]>>
WholeTissueAcceleration(s, F) ==
  <<"dict", [i \in 1..Len(s.ifc[F]) |-> <<Accel(s, s.ifc[F][i][1], F), Accel(s, s.ifc[F][i][2], F)>>]>>

\* VelocityPerEdge(e, t0, t1): one entry per frame G of the span; the two ends of interface e of frame t0 are followed
\* to frame G; nan when an end has no partner there or the step used at G was skipped
EdgeStepVel(s, a, b, F0, G) ==
  LET q0 == PointByMap(s, a, F0, G)  q1 == PointByMap(s, b, F0, G) IN
  IF q0 = Undef \/ q1 = Undef THEN <<"nan">>
  ELSE IF SNone(s, VStep(s, G)) THEN <<"nan">>
  ELSE <<"sum", Velocity(s, q0, G), Velocity(s, q1, G)>>
VelocityPerEdge(s, e, t0, t1) ==
  LET F0 == t0 + 1 IN
  [i \in 1..Max(t1 - t0, 0) |-> EdgeStepVel(s, s.ifc[F0][e][1], s.ifc[F0][e][2], F0, F0 + i - 1)]

\* TimesToUse(L): -1, the (0-based) numbers of the skipped steps below L - 1, then L - 1; the default is L = nf.
\* (documented: "list of times to use", `last_frame: bool`; the code uses last_frame as the NUMBER of frames)
TimesToUse(s, L) == <<-1>> \o SeqOf({f - 1 : f \in {g \in 1..(L - 1) : g < s.nf /\ SNone(s, g)}}) \o <<L - 1>>
TtuArgOK(s, L) == L \in 2..s.nf

\* ExportMapping: ONE JSON object; one member per step, keyed by the 0-based step number: null for a skipped step,
\* otherwise an object with one member per tracked vertex of that frame: its successor's id or null
ExportMapping(s) == [f \in 1..(s.nf - 1) |->
                       IF SNone(s, f) THEN [none |-> TRUE, pairs |-> {}]
                       ELSE [none |-> FALSE, pairs |-> {<<p, Succ(s, f, p)>> : p \in 1..s.k[f]}]]

\* CM construction: every vertex of frame F is translated by -c[F] (c[F] = the frame's centre of mass rounded to the
\* grid); nothing else changes
Translate(s, c) == [s EXCEPT !.pos = [F \in 1..s.nf |-> [i \in 1..s.k[F] |->
                                         <<s.pos[F][i][1] - c[F][1], s.pos[F][i][2] - c[F][2]>>]]]
RECURSIVE SumC(_, _, _)
SumC(ps, c, i) == IF i > Len(ps) THEN 0 ELSE ps[i][c] + SumC(ps, c, i + 1)
\* integer model of np.around(mean, 3): nearest grid point (ties do not matter here)
RoundDiv(a, n) == (2 * a + n) \div (2 * n)
CentreOfMass(ps) == <<RoundDiv(SumC(ps, 1, 1), Len(ps)), RoundDiv(SumC(ps, 2, 1), Len(ps))>>

\* load_initial_guess(file, min_time, max_time): file = set of <<k, pairs>>; result keys = the window 0..max-min-1
\* (empty guess where the file has none) plus EVERY key of the file (kept as it is, not shifted by min_time)
LoadGuessKeys(fileKeys, mn, mx) == fileKeys \cup {k \in 0..(mx - mn - 1) : TRUE}

(* ======================================================================= *)
(* I - transcription of the code where it is more specific than D          *)
(* ======================================================================= *)
\* get_point_id_by_map: <<"ok", id | NoneV>> | <<"key">> (KeyError) | <<"attr">> (AttributeError)
\* forward: `if point == None or tempMapping == None: break` - the point is returned AS IT IS (after a skipped
\* step: the id of an earlier frame); backward: the dict of step ii-1 is inverted first (AttributeError on a
\* skipped step, even for point None), KeyError without pre-image
RECURSIVE IPointFwd(_, _, _, _)
IPointFwd(s, point, ii, G) ==
  IF ii = G THEN <<"ok", point>>
  ELSE IF point = NoneV \/ s.ims[ii].none THEN <<"ok", point>>
  ELSE LET q == IFwd(s.ims[ii], point) IN IF q = Raise THEN <<"key", 0>> ELSE IPointFwd(s, q, ii + 1, G)
RECURSIVE IPointBack(_, _, _, _)
IPointBack(s, point, ii, G) ==
  IF ii = G THEN <<"ok", point>>
  ELSE IF s.ims[ii - 1].none THEN <<"attr", 0>>
  ELSE IF point = NoneV THEN <<"ok", NoneV>>
  ELSE LET q == IBack(s.ims[ii - 1], s.ord[ii - 1], point) IN
       IF q = Raise THEN <<"key", 0>> ELSE IPointBack(s, q, ii - 1, G)
IPoint(s, p, F, G) == IF F <= G THEN IPointFwd(s, p, F, G) ELSE IPointBack(s, p, F, G)

\* time_series[t].vertices[id]: <<"pos", x, y>> | <<"key">>
ILookup(s, G, r) == IF r[1] # "ok" THEN <<r[1]>>
                    ELSE IF r[2] \in 1..s.k[G] THEN <<"pos", s.pos[G][r[2]][1], s.pos[G][r[2]][2]>> ELSE <<"key">>

\* get_vertex_position: the first frame that cannot be looked up raises
IVertexPosition(s, v, t0, tmax) ==
  LET FS == SpanFrames(s, t0, tmax)
      L(G) == ILookup(s, G, IPoint(s, v, t0 + 1, G))
      Bad == {G \in FS : L(G)[1] # "pos"}
  IN  IF Bad # {} THEN <<"raised", L(SeqOf(FS)[SMin({i \in 1..Cardinality(FS) : SeqOf(FS)[i] \in Bad})])[1]>>
      ELSE <<"list", [i \in 1..Cardinality(FS) |-> LET G == SeqOf(FS)[i] IN <<L(G)[2], L(G)[3]>>]>>

\* calculate_velocity: the step is tested for None first, KeyError -> fictitious vertex (zero)
IQVelocity(s, p, F) ==
  LET G == VOther(s, F)  dt == s.stamp[G] - s.stamp[F] IN
  IF s.ims[VStep(s, F)].none THEN <<"dte">>
  ELSE LET l == ILookup(s, G, IPoint(s, p, F, G)) IN
       IF l[1] = "pos" THEN <<"vel", l[2] - s.pos[F][p][1], l[3] - s.pos[F][p][2], dt>> ELSE <<"vel", 0, 0, dt>>

\* whole_tissue_velocity: fills the accumulating dict self.velocities (key = interface index) and returns it.
\* store: function index -> <<F, value>> (the frame the entry was computed for)
IWholeVelStore(s, store, F) ==
  IF s.ims[VStep(s, F)].none THEN store
  ELSE [i \in DOMAIN store \cup 1..Len(s.ifc[F]) |->
          IF i \in 1..Len(s.ifc[F]) THEN <<F, <<IQVelocity(s, s.ifc[F][i][1], F), IQVelocity(s, s.ifc[F][i][2], F)>>>>
          ELSE store[i]]
IWholeVel(s, store, F) == IF s.ims[VStep(s, F)].none THEN <<"dte">> ELSE <<"dict", IWholeVelStore(s, store, F)>>

\* velocity_per_edge, one step: ids by get_point_id_by_map(initial -> ii); None -> nan; DifferentTissueException -> nan;
\* anything else propagates: <<"nan">> | <<"sum", v0, v1>> | <<"key">> | <<"attr">>
IEdgeStepVel(s, a, b, F0, G) ==
  LET r0 == IPointFwd(s, a, F0, G)  r1 == IPointFwd(s, b, F0, G) IN
  IF r0[1] # "ok" THEN <<r0[1]>> ELSE IF r1[1] # "ok" THEN <<r1[1]>>
  ELSE IF r0[2] = NoneV \/ r1[2] = NoneV THEN <<"nan">>
  ELSE IF r0[2] \notin 1..s.k[G] \/ r1[2] \notin 1..s.k[G] THEN <<"key">>        \* vertices[stale id]
  ELSE IF s.ims[VStep(s, G)].none THEN <<"nan">>
  ELSE <<"sum", IQVelocity(s, r0[2], G), IQVelocity(s, r1[2], G)>>

\* times_to_use: arg = -1 (default, last_frame=False) | -2 (last_frame=True) | a positive integer. `t` is the loop variable: UnboundLocalError for an empty range
ITimesToUse(s, arg) ==
  LET hi == IF arg = -1 THEN s.nf - 1 ELSE IF arg = -2 THEN 0 ELSE arg - 1 IN     \* range(0, hi)
  IF hi <= 0 THEN <<"unbound">>
  ELSE IF hi > s.nf - 1 THEN <<"key">>
  ELSE <<"list", <<-1>> \o SeqOf({f - 1 : f \in {g \in 1..hi : s.ims[g].none}}) \o <<hi>>>>

(* ======================================================================= *)
(* Known-finding matchers (instance level)                                 *)
(* ======================================================================= *)
\* findings/tsq_pbm_skipped_step.py: a step of the span was skipped as "different tissue" (mapping[f] is None).
\* get_point_id_by_map leaves its loop there and returns the id it holds - the id of an EARLIER frame - (forward) or
\* raises AttributeError (backward) instead of None / KeyError; every query built on it (get_vertex_position,
\* velocity_per_edge, whole_tissue_acceleration) then looks that id up in a later frame: KeyError, AttributeError or
\* the position / velocity of an unrelated vertex.   outcome: "value" | "attr" | "key" | "none"
KF_QuerySkippedStep(skipped, outcome) == skipped /\ outcome \in {"value", "attr", "key"}
\* findings/tsq_whole_stale_keys.py: whole_tissue_velocity / whole_tissue_acceleration return the accumulating
\* attribute; after a query on a frame with MORE interfaces the answer carries that frame's surplus entries
KF_WholeStaleKeys(extraKeys, maxAskedBefore, nHere) == extraKeys # {} /\ \A i \in extraKeys : i > nHere /\ i <= maxAskedBefore
\* findings/tsq_times_to_use_true.py: the documented `last_frame: bool` - times_to_use(True) (and the count 1) make the
\* loop range empty and the function raises UnboundLocalError
KF_TimesToUseTrue(arg, raised) == arg \in {-2, 1} /\ raised = "UnboundLocalError"
\* findings/tsq_cm_filter_none.py: with cm=True the frames are translated in place but the interfaces keep the
\* coordinates cached at construction; Frame.filter_edges("none") ("no filtering") writes the cached coordinates
\* back: every interface vertex jumps back by the frame's centre of mass
KF_CmStaleCache(cm, shift, moved) == cm /\ shift # <<0, 0>> /\ moved

(* ======================================================================= *)
(* The state machine                                                       *)
(* ======================================================================= *)
VARIABLES ser, store, out
qvars == <<ser, store, out>>

NoSeries == [nf |-> 0]
NoOut    == <<"none">>
EmptyStore == [i \in {} |-> <<0, <<>>>>]

\* the queries that can be asked of a series (0-based arguments, as in the code)
NIfc(s, F) == Len(s.ifc[F])
Queries(s) ==
  {<<"pbm", p, t0, t1>> : p \in 1..SMax({s.k[F] : F \in 1..s.nf}), t0 \in 0..(s.nf - 1), t1 \in 0..(s.nf - 1)} \cup
  {<<"vpos", v, t0, tm>> : v \in 1..SMax({s.k[F] : F \in 1..s.nf}), t0 \in 0..(s.nf - 1), tm \in {-1} \cup 1..s.nf} \cup
  {<<"vel", p, t>> : p \in 1..SMax({s.k[F] : F \in 1..s.nf}), t \in 0..(s.nf - 1)} \cup
  {<<"wvel", t>> : t \in 0..(s.nf - 1)} \cup {<<"wacc", t>> : t \in 0..(s.nf - 1)} \cup
  {<<"vedge", e, t0, t1>> : e \in 1..SMax({NIfc(s, F) : F \in 1..s.nf}), t0 \in 0..(s.nf - 1), t1 \in 1..s.nf} \cup
  {<<"ttu", L>> : L \in 2..s.nf} \cup {<<"export">>}
QueryOK(s, q) ==
  CASE q[1] = "pbm"   -> q[2] \in 1..s.k[q[3] + 1]
    [] q[1] = "vpos"  -> q[2] \in 1..s.k[q[3] + 1] /\ (q[4] = -1 \/ q[4] > q[3])
    [] q[1] = "vel"   -> q[2] \in 1..s.k[q[3] + 1]
    [] q[1] = "wacc"  -> s.nf >= 3
    [] q[1] = "vedge" -> q[2] \in 1..NIfc(s, q[3] + 1) /\ q[4] > q[3]
    [] OTHER          -> TRUE
\* the declarative answer
Answer(s, q) ==
  CASE q[1] = "pbm"    -> <<PointByMap(s, q[2], q[3] + 1, q[4] + 1)>>
    [] q[1] = "vpos"   -> VertexPosition(s, q[2], q[3], q[4])
    [] q[1] = "vel"    -> Velocity(s, q[2], q[3] + 1)
    [] q[1] = "wvel"   -> WholeTissueVelocity(s, q[2] + 1)
    [] q[1] = "wacc"   -> WholeTissueAcceleration(s, q[2] + 1)
    [] q[1] = "vedge"  -> VelocityPerEdge(s, q[2], q[3], q[4])
    [] q[1] = "ttu"    -> TimesToUse(s, q[2])
    [] q[1] = "export" -> ExportMapping(s)

\* a public query: the answer is a function of the series; the series does not change; the only thing the object
\* remembers is the accumulating dict of whole_tissue_velocity (I)
Ask(q) == /\ ser.nf > 0 /\ q \in Queries(ser) /\ QueryOK(ser, q)
          /\ out' = <<q, Answer(ser, q)>>
          /\ store' = IF q[1] = "wvel" THEN IWholeVelStore(ser, store, q[2] + 1) ELSE store
          /\ UNCHANGED ser
AskAny == \E q \in Queries(ser) : Ask(q)

\* action property: queries never change the series
QueriesArePure == [][ser.nf > 0 => ser' = ser]_qvars
=============================================================================

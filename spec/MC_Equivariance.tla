-------------------------- MODULE MC_Equivariance --------------------------
(***************************************************************************)
(* Design-level check for C07: the implementation-shaped decomposition     *)
(* (create_edges_new, the internal/external classification, own_cells from *)
(* the middle vertex / end intersection) is invariant under                *)
(*   - storing any subset of cells in the opposite rotational sense,       *)
(*   - starting any one cell's vertex list at a different vertex,          *)
(*   - reversing the vertex numbering (v -> nv + 1 - v),                   *)
(* exhaustively over ALL 2^cells orientation patterns x every single-cell  *)
(* cyclic shift of a catalogue tissue with k interior points per edge.     *)
(***************************************************************************)
EXTENDS Interfaces, SubTissue

CONSTANT K
VARIABLES c, flips, shiftCell, shiftBy, renum, mg, m0, cyc0
vars == <<c, flips, shiftCell, shiftBy, renum, mg, m0, cyc0>>

Cycles0Def == LET rc == Renumber(SubCycles(1..Base.nc)) IN Subdivide(Cardinality(UsedV(SubCycles(1..Base.nc))), rc, K)
NVDef == Cardinality(UsedV(SubCycles(1..Base.nc))) + K * NPairs(Renumber(SubCycles(1..Base.nc)))
M0 == m0
Cycles0 == cyc0
NV == m0.nv

RevSeq(s) == [i \in DOMAIN s |-> s[Len(s) + 1 - i]]
Shift(s, n) == [i \in DOMAIN s |-> s[((i - 1 + n) % Len(s)) + 1]]
Pi(v) == IF renum THEN NV + 1 - v ELSE v
Transformed == [j \in DOMAIN Cycles0 |->
                  LET a == IF j \in flips THEN RevSeq(Cycles0[j]) ELSE Cycles0[j]
                      b == IF j = shiftCell THEN Shift(a, shiftBy) ELSE a
                  IN [i \in DOMAIN b |-> Pi(b[i])]]

NoMesh == [nv |-> 0]
Init == c = 1 /\ flips = {} /\ shiftCell = 0 /\ shiftBy = 0 /\ renum = FALSE /\ mg = NoMesh /\ cyc0 = Cycles0Def /\ m0 = MeshOfCycles(NVDef, Cycles0Def)
PickFlip == c <= Base.nc /\ (flips' = flips \cup {c} \/ flips' = flips) /\ c' = c + 1 /\ UNCHANGED <<shiftCell, shiftBy, renum, mg, m0, cyc0>>
PickShift == c = Base.nc + 1 /\ shiftCell' \in 1..Base.nc /\ shiftBy' \in 0..3 /\ renum' \in BOOLEAN /\ c' = c + 1 /\ UNCHANGED <<flips, mg, m0, cyc0>>
\* materialise the transformed mesh in a variable (never evaluate heavy operators repeatedly inside invariants)
Build == c = Base.nc + 2 /\ mg = NoMesh /\ mg' = MeshOfCycles(NV, Transformed) /\ UNCHANGED <<c, flips, shiftCell, shiftBy, renum, m0, cyc0>>
Next == PickFlip \/ PickShift \/ Build
Spec == Init /\ [][Next]_vars
Leaf == mg # NoMesh
MG == mg

LOCAL Rn(s) == {s[j] : j \in DOMAIN s}
MapPath(p) == [i \in DOMAIN p |-> Pi(p[i])]
PathsOf(mm) == {Can(p) : p \in Rn(ImplInterfaces(mm))}
InternalOf(mm) == {Can(p) : p \in {q \in Rn(ImplInterfaces(mm)) : InternalPath(mm, q)}}
OwnCellsImpl(mm, p) == IF Len(p) = 2 THEN Rn(mm.oc[p[1]]) \cap Rn(mm.oc[p[2]]) ELSE Rn(mm.oc[p[((Len(p) - 1) \div 2) + 1]])

SameInterfaces == Leaf => PathsOf(MG) = {Can(MapPath(p)) : p \in PathsOf(M0)}
SameInternal   == Leaf => InternalOf(MG) = {Can(MapPath(p)) : p \in InternalOf(M0)}
SameOwnCells   == Leaf => \A p \in Rn(ImplInterfaces(M0)) :
                     \E q \in Rn(ImplInterfaces(MG)) : Can(q) = Can(MapPath(p)) /\ OwnCellsImpl(MG, q) = OwnCellsImpl(M0, p)
SameDeclarative == Leaf => Paths(MG) = {Can(MapPath(p)) : p \in Paths(M0)}
=============================================================================

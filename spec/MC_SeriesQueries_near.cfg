SPECIFICATION Spec
CONSTANT NF = 3
CONSTANT KS <- KS23
CONSTANT SHAPES <- ShapesA
CONSTANT FAR = FALSE
CONSTANT CANON = 2
CONSTANT ONESET = FALSE
CONSTANT GUESSMAX = 0
CONSTANT ALLORDERS = FALSE
CONSTANT EMITMOD = 5
CONSTANT HIST = FALSE
INVARIANT InvPbm
INVARIANT InvAlgebra
INVARIANT InvVPos
INVARIANT InvVel
INVARIANT InvTtu
INVARIANT InvWhole
INVARIANT InvExport
INVARIANT InvCm
INVARIANT InvForced
INVARIANT InvMachine
INVARIANT Emit
PROPERTY QueriesArePure
CHECK_DEADLOCK FALSE

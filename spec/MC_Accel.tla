------------------------------ MODULE MC_Accel ------------------------------
(***************************************************************************)
(* Bounded-exhaustive exploration of accelerations on exact integer series *)
(* of THREE frames (coordinates 0..140):                                   *)
(*   placements of N junctions on the site lattice SITES                   *)
(*   x displacement fields of both steps (STENCIL1, STENCIL2: small moves, *)
(*     moves beyond the search radius (partner lost -> None), jumps that   *)
(*     make the step "different tissue")                                   *)
(*   x a vertex that is absent from one frame (VANISH)                     *)
(*   x ALL numberings (dict iteration orders) of the three frames          *)
(* The correspondence of both steps is the transcription                   *)
(* Tracking!IMapping; invariants: the transcription I of                   *)
(* calculate_acceleration / get_point_id_by_map / the acceleration right-  *)
(* hand side / acceleration_per_edge (Acceleration.tla) satisfies the      *)
(* declarative clauses D in exact integer arithmetic.                      *)
(* A sample of leaves is printed (`EJ {json}`) and replayed on real Frames. *)
(***************************************************************************)
EXTENDS Acceleration, Json

CONSTANTS N, SITES, STENCIL1, STENCIL2, VANISH, ALLORDERS, EMITMOD

\* ---- constant tables (no tuples in .cfg files) ------------------------------------------
Sites3  == <<<<10, 10>>, <<20, 10>>, <<60, 100>>>>
Sites4  == <<<<10, 10>>, <<20, 10>>, <<60, 100>>, <<110, 14>>>>
Sites4v == <<<<10, 10>>, <<110, 14>>, <<60, 100>>, <<56, 40>>>>      \* site 4 lies inside the bounding box of the others
Sites5  == <<<<10, 10>>, <<20, 10>>, <<110, 14>>, <<60, 100>>, <<14, 24>>>>
Sites6  == <<<<10, 10>>, <<20, 10>>, <<10, 22>>, <<110, 14>>, <<60, 100>>, <<108, 96>>>>
StA2 == {<<4, 3>>, <<0, 9>>}
StB2 == {<<-2, 1>>, <<6, 0>>}
StA3 == {<<0, 0>>, <<4, 3>>, <<0, 9>>}
StB3 == {<<-2, 1>>, <<6, 0>>, <<0, -9>>}
StA4 == {<<0, 0>>, <<4, 3>>, <<0, 9>>, <<-5, 5>>}
StB4 == {<<-2, 1>>, <<6, 0>>, <<0, -9>>, <<0, 0>>}
StV1 == {<<4, 3>>}
StV1x == {<<4, 3>>, <<0, 9>>}
StV2 == {<<-2, 1>>}
StJ1 == {<<0, 0>>, <<0, 40>>}           \* jumps: the bounding box changes by more than 10% -> step skipped
StJ2 == {<<3, 0>>, <<0, -40>>}
NoVanish  == {<<0, 0>>}
Vanish4   == {<<4, 1>>, <<4, 2>>, <<4, 3>>}           \* vertex 4 is absent from frame 1 / 2 / 3
Vanish4x  == {<<0, 0>>, <<4, 1>>, <<4, 2>>, <<4, 3>>, <<1, 2>>, <<2, 3>>}
StampsTab == <<<<0, 1, 2>>, <<0, 1, 5>>, <<2, 7, 8>>, <<-3, 0, 1>>>>

VARIABLES chosen, d1, d2, van, ords, ims, tabs, accs
vars == <<chosen, d1, d2, van, ords, ims, tabs, accs>>

NF == 3
Present(f) == {p \in 1..N : ~(van[1] = p /\ van[2] = f)}
PermsOf(S) == LET n == Cardinality(S) IN {o \in [1..n -> S] : \A a, b \in 1..n : a # b => o[a] # o[b]}
SortedOf(S) == LET RECURSIVE F(_)
                   F(T) == IF T = {} THEN <<>> ELSE LET x == SMin(T) IN <<x>> \o F(T \ {x})
               IN  F(S)

Pos1 == [k \in 1..N |-> SITES[chosen[k]]]
Pos2 == [k \in 1..N |-> <<Pos1[k][1] + d1[k][1], Pos1[k][2] + d1[k][2]>>]
Pos3 == [k \in 1..N |-> <<Pos2[k][1] + d2[k][1], Pos2[k][2] + d2[k][2]>>]
Pos  == <<Pos1, Pos2, Pos3>>
S(f) == [pos0 |-> Pos[f], pos1 |-> Pos[f + 1], ord0 |-> ords[f], ord1 |-> ords[f + 1], guess |-> <<>>]

Init == chosen = <<>> /\ d1 = <<>> /\ d2 = <<>> /\ van = <<-1, -1>> /\ ords = <<>> /\ ims = <<>> /\ tabs = <<>> /\ accs = <<>>

PickSite == /\ Len(chosen) < N
            /\ \E k \in 1..Len(SITES) : (IF Len(chosen) = 0 THEN TRUE ELSE k > chosen[Len(chosen)]) /\ chosen' = Append(chosen, k)
            /\ UNCHANGED <<d1, d2, van, ords, ims, tabs, accs>>
PickD1 == /\ Len(chosen) = N /\ Len(d1) < N
          /\ \E d \in STENCIL1 : d1' = Append(d1, d)
          /\ UNCHANGED <<chosen, d2, van, ords, ims, tabs, accs>>
PickD2 == /\ Len(d1) = N /\ Len(d2) < N
          /\ \E d \in STENCIL2 : d2' = Append(d2, d)
          /\ UNCHANGED <<chosen, d1, van, ords, ims, tabs, accs>>
PickVan == /\ Len(d2) = N /\ van = <<-1, -1>>
           /\ van' \in VANISH
           /\ UNCHANGED <<chosen, d1, d2, ords, ims, tabs, accs>>
PickOrd == /\ van # <<-1, -1>> /\ Len(ords) < NF
           /\ LET P == Present(Len(ords) + 1) IN
              \E o \in (IF ALLORDERS THEN PermsOf(P) ELSE {SortedOf(P)}) : ords' = Append(ords, o)
           /\ UNCHANGED <<chosen, d1, d2, van, ims, tabs, accs>>
\* everything derived is computed once, from the current state, and stored (invariants read variables only)
Run == /\ Len(ords) = NF /\ ims = <<>>
       /\ \E x \in {<<IMapping(S(1)), IMapping(S(2))>>} :
          \E t \in {[f \in 1..2 |-> DTable(AsPairs(x[f]), N)]} :
            /\ ims' = x
            /\ tabs' = t
            /\ accs' = [F \in 1..NF |-> [p \in 1..N |-> IF p \in Present(F) THEN IAccel(Pos, x, ords, NF, p, F)
                                                        ELSE <<"absent", 0, 0>>]]
       /\ UNCHANGED <<chosen, d1, d2, van, ords>>
Next == PickSite \/ PickD1 \/ PickD2 \/ PickVan \/ PickOrd \/ Run
Spec == Init /\ [][Next]_vars

Leaf == ims # <<>>

\* ---- I => D ---------------------------------------------------------------------------------
\* calculate_acceleration for every vertex of every frame (second difference on the right three time points,
\* NaN without partner); on a skipped step only the recorded finding may differ
CAccel == \A F \in 1..NF : \A p \in Present(F) :
            \/ DAccelOK(Pos, tabs, NF, p, F, accs[F][p])
            \/ KF_AccelSkippedStep(AccSkipped(tabs, NF, F), accs[F][p][1])
\* without a skipped step the transcription never raises and never uses a stale id
CTotal == \A F \in 1..NF : \A p \in Present(F) :
            ~AccSkipped(tabs, NF, F) => accs[F][p][1] \in {"val", "nan"}
\* with three frames the forward, central and backward second differences of one tracked vertex coincide
CSameEverywhere ==
  (~tabs[1].none /\ ~tabs[2].none) =>
    \A p \in Present(1) : LET q == DPartner(tabs, p, 1, 2)  r == DPartner(tabs, p, 1, 3) IN
       (q > 0 /\ r > 0 /\ DPartner(tabs, r, 3, 1) = p /\ DPartner(tabs, q, 2, 1) = p /\ DPartner(tabs, r, 3, 2) = q) =>
          /\ accs[1][p][1] = "val"
          /\ accs[2][q] = accs[1][p]
          /\ accs[3][r] = accs[1][p]
\* right-hand side: rows in the order of the numbering of the frame
RowOf(ord) == [j \in 1..N |-> IF j \in Range(ord) THEN 2 * (PosIn(ord, j) - 1) ELSE -1]
CRhs == \A F \in 1..NF :
          DAccRhsOK(IAccRhs(2 * Len(ords[F]), ords[F], RowOf(ords[F]), accs[F]), ords[F], RowOf(ords[F]), accs[F])
\* per-interface rows: interfaces of the necklace join cyclically consecutive present sites of the initial frame
EdgesOf(F0) == LET c == SortedOf(Present(F0))  n == Len(c) IN {<<c[i], c[(i % n) + 1]>> : i \in 1..n}
CEdgeStep(p0, p1, F0, G) ==
  LET i == IEdgeStep(ims, accs, p0, p1, F0, G)
      d == DEdgeKind(tabs, p0, p1, F0, G)
  IN  CASE d[1] = "skipped" -> i[1] = "nan" \/ KF_PerEdgeSkippedStep(TRUE, i[1])
        [] d[1] = "nan"     -> i[1] = "nan"
        [] d[1] = "both"    -> LET k0 == DAccelKind(tabs, NF, d[2], G)  k1 == DAccelKind(tabs, NF, d[3], G) IN
                               IF k0[1] = "skipped" \/ k1[1] = "skipped" THEN i[1] = "nan" \/ KF_PerEdgeSkippedStep(TRUE, i[1])
                               ELSE IF k0[1] = "value" /\ k1[1] = "value" THEN i = <<"sum", d[2], d[3]>>
                               ELSE IF k0[1] = "nan" \/ k1[1] = "nan" THEN i[1] = "nan"
                               ELSE TRUE
        [] OTHER            -> TRUE
CEdges == \A F0 \in 1..2 : \A ed \in EdgesOf(F0) : \A G \in F0..NF : CEdgeStep(ed[1], ed[2], F0, G)

InvAccel  == Leaf => CAccel
InvTotal  == Leaf => CTotal
InvSame   == Leaf => CSameEverywhere
InvRhs    == Leaf => CRhs
InvEdges  == Leaf => CEdges

\* ---- emission of a sample of leaves -------------------------------------------------------
Renumbered == \E f \in 1..2 : ords[f] # ords[f + 1]
HasNaN     == \E F \in 1..NF : \E p \in Present(F) : accs[F][p][1] = "nan"
HasMove    == \E F \in 1..NF : \E p \in Present(F) : accs[F][p][1] = "val" /\ (accs[F][p][2] # 0 \/ accs[F][p][3] # 0)
Stolen     == \E f \in 1..2 : ~ims[f].none /\ \E i \in Present(f) : ims[f].map[i] > 0 /\ ims[f].map[i] # i
Skipped    == \E f \in 1..2 : ims[f].none
NonTrivial == Renumbered /\ HasMove
Hash == LET RECURSIVE F(_)
            F(k) == IF k > N THEN 0 ELSE
                    k * (31 * chosen[k] + 7 * d1[k][1] + 13 * d1[k][2] + 17 * d2[k][1] + 19 * d2[k][2]) + F(k + 1)
            RECURSIVE G(_, _)
            G(f, k) == IF f > NF THEN 0 ELSE IF k > Len(ords[f]) THEN G(f + 1, 1)
                       ELSE (97 * f * f + 4 * f + 1) * k * ords[f][k] + G(f, k + 1)
        IN  F(1) + G(1, 1) + 53 * van[1] + 59 * van[2]
Sampled(h) == \/ (h % EMITMOD = 0 /\ NonTrivial)
              \/ (h % (EMITMOD \div 4 + 1) = 1 /\ Stolen)
              \/ (h % (EMITMOD \div 2 + 1) = 2 /\ HasNaN /\ HasMove)
              \/ (h % 7 = 3 /\ Skipped)
              \/ h % (4 * EMITMOD + 1) = 5
CEmit == Sampled(Hash) =>
  PrintT("EJ " \o ToJson([n |-> N, nf |-> NF, pos |-> Pos, ords |-> ords,
                          present |-> [f \in 1..NF |-> [p \in 1..N |-> p \in Present(f)]],
                          stamps |-> StampsTab[(Hash % 4) + 1],
                          none |-> [f \in 1..2 |-> ims[f].none],
                          acc |-> accs, nontrivial |-> NonTrivial]))
Emit == Leaf => CEmit

\* vacuity guards (expected to be VIOLATED; used by hand, not in the registered cfgs)
NeverNaN     == Leaf => ~HasNaN
NeverStolen  == Leaf => ~Stolen
NeverSkipped == Leaf => ~Skipped
NeverValue   == Leaf => ~HasMove
NeverKF      == Leaf => \A F \in 1..NF : \A p \in Present(F) : DAccelOK(Pos, tabs, NF, p, F, accs[F][p])
=============================================================================

SPECIFICATION Spec
CONSTANTS NF = 2
          MaxGen = 8
POSTCONDITION Done
CHECK_DEADLOCK FALSE

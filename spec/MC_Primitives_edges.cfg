SPECIFICATION Spec
CONSTANT NV0 = 3
CONSTANT NV = 3
CONSTANT EIDS = {0, 1}
CONSTANT CIDS = {0}
CONSTANT BIDS = {0}
CONSTANT MAXE = 2
CONSTANT MAXC = 1
CONSTANT CYCLEN = 3
CONSTANT OPS <- OpsEdges
CONSTANT MAXDEPTH = 4
CONSTANT EMITMOD = 40
CONSTANT WALKS = FALSE
VIEW View
INVARIANT TypeOK
INVARIANT InvState
INVARIANT InvDictView
INVARIANT InvLaws
INVARIANT InvNav
INVARIANT InvNavFlat
INVARIANT Emit
PROPERTY StepOK
CHECK_DEADLOCK FALSE

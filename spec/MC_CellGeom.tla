---------------------------- MODULE MC_CellGeom ----------------------------
(***************************************************************************)
(* Bounded-exhaustive model check for C20.                                 *)
(*                                                                         *)
(* MODE = "poly":   TLC enumerates ALL simple polygons with 3..NMAX        *)
(*   vertices on the GRID x GRID integer grid, one state per vertex chosen *)
(*   (non-simple prefixes are pruned as soon as a segment touches the path)*)
(*   The stored sequences are enumerated up to cyclic shift (the first     *)
(*   vertex is the lexicographically least one); BOTH orientations are     *)
(*   separate leaves, and ALL cyclic shifts, the reversal, translations    *)
(*   and scalings of every leaf are covered by the quantifiers of the      *)
(*   invariants below.  Leaves are emitted (`EJ {json}`) and replayed on   *)
(*   the real code with a shifted / reversed / translated / scaled storage *)
(*   each: every leaf (EMIT_ALL) or one per translation/reversal class.    *)
(* MODE = "tissue": every non-empty cell subset of the catalogue tissue    *)
(*   BASE_FILE (SubTissue.tla) x interior points KS: neighbours (I = D)    *)
(*   and  sum |cell areas| = |outline area| whenever TLC finds it          *)
(*   hole-free; every instance is emitted and replayed.                    *)
(***************************************************************************)
EXTENDS CellGeom, SubTissue

CONSTANTS MODE, GRID, NMAX, KS, EMIT_ALL
VARIABLES pts, closed, i, sub, k
vars == <<pts, closed, i, sub, k>>

Grid == {<<x, y>> : x \in 0..(GRID - 1), y \in 0..(GRID - 1)}
TSET == {<<1, 0>>, <<-3, 5>>, <<7, -2>>, <<1000, -999>>}

(* ------------------------- staged enumeration -------------------------- *)
\* the new segment (last, p) must not touch the path except at `last`
ExtOK(path, p) ==
  LET n == Len(path) IN
  /\ \A j \in 1..n : path[j] # p
  /\ n >= 2 => AdjOK(path[n - 1], path[n], p)
  /\ \A j \in 1..(n - 2) : ~SegMeet(path[j], path[j + 1], path[n], p)
\* the closing segment (last, first)
CloseOK(path) ==
  LET n == Len(path) IN
  /\ n >= 3
  /\ AdjOK(path[n - 1], path[n], path[1])
  /\ AdjOK(path[n], path[1], path[2])
  /\ \A j \in 2..(n - 2) : ~SegMeet(path[j], path[j + 1], path[n], path[1])

PolyInit == pts \in {<<p>> : p \in Grid} /\ closed = FALSE /\ i = 0 /\ sub = {} /\ k = -1
Add == /\ ~closed /\ Len(pts) < NMAX
       /\ \E p \in Grid :
            /\ LexLess(pts[1], p)                  \* canonical rotation: first vertex is the least
            /\ ExtOK(pts, p)
            /\ Len(pts) = NMAX - 1 => CloseOK(Append(pts, p))
            /\ pts' = Append(pts, p)
       /\ UNCHANGED <<closed, i, sub, k>>
CloseUp == /\ ~closed /\ CloseOK(pts)
         /\ closed' = TRUE /\ UNCHANGED <<pts, i, sub, k>>

TissueInit == pts = <<>> /\ closed = FALSE /\ i = 1 /\ sub = {} /\ k = -1
Pick == /\ i <= Base.nc
        /\ \/ sub' = sub \cup {i}
           \/ sub' = sub
        /\ i' = i + 1 /\ UNCHANGED <<pts, closed, k>>
ChooseK == /\ i = Base.nc + 1 /\ k = -1 /\ sub # {}
           /\ k' \in KS /\ UNCHANGED <<pts, closed, i, sub>>

Init == IF MODE = "poly" THEN PolyInit ELSE TissueInit
Next == IF MODE = "poly" THEN Add \/ CloseUp ELSE Pick \/ ChooseK
Spec == Init /\ [][Next]_vars

(* --------------------------- polygon leaves ---------------------------- *)
PLeaf == MODE = "poly" /\ closed
N == Len(pts)

\* the staged pruning decides simplicity exactly as the declarative predicate does
LeafIsSimple == PLeaf => Simple(pts)
\* every non-leaf state of maximal length is closable (no dead ends left by the pruning)
NoDeadEnd == (MODE = "poly" /\ ~closed /\ N = NMAX) => CloseOK(pts)

RawEqualsAnchored == PLeaf => Area2Raw(pts) = Area2(pts)
ReversalFlips  == PLeaf => \A s \in 0..(N - 1) : Area2(ShiftP(RevP(pts), s)) = -Area2(pts)
\* edge lengths (hence the perimeter, a symmetric function of them) follow the storage: shifted with
\* a shift, mirrored with a reversal, unchanged by a translation
ShiftInvariant == PLeaf => LET E == EdgeD2s(pts) IN \A s \in 0..(N - 1) :
                     /\ Area2Raw(ShiftP(pts, s)) = Area2(pts)
                     /\ EdgeD2s(ShiftP(pts, s)) = ShiftP(E, s)
ReversalKeepsEdges == PLeaf => LET E == EdgeD2s(pts) ER == EdgeD2s(RevP(pts)) IN
                     \A j \in 1..N : ER[j] = E[IF j = N THEN N ELSE N - j]
TranslationInvariant == PLeaf => LET E == EdgeD2s(pts) IN \A t \in TSET :
                     /\ Area2Raw(TransP(pts, t)) = Area2(pts)
                     /\ EdgeD2s(TransP(pts, t)) = E
Scaling == PLeaf => \A c \in 1..5 : LET S == ScaleP(pts, c) IN
                     /\ Area2Raw(S) = c * c * Area2(pts)
                     /\ \A j \in 1..N : D2(S[j], S[Nxt(j, N)]) = c * c * D2(pts[j], pts[Nxt(j, N)])
\* the shoelace sign is the property's convention: counter-clockwise storage <=> negative
SignConvention == PLeaf => /\ Area2(pts) # 0 /\ Turn(pts) # 0
                           /\ Sgn(Area2(pts)) = ConventionSign(pts)
                           /\ CCW(RevP(pts)) = ~CCW(pts)
\* the longhand square root is the floor of the scaled root
SqrtSound == PLeaf => \A j \in 1..N :
                LET d2 == D2(pts[j], pts[Nxt(j, N)])
                    r  == SqrtScaled(d2, 2)
                IN  /\ r[1] * r[1] <= 10000 * d2 /\ (r[1] + 1) * (r[1] + 1) > 10000 * d2
                    /\ (r[2] = 0) = (r[1] * r[1] = 10000 * d2)
PerimBoundsSound == PLeaf => LET b == PerimBounds(pts, Digits(pts), 1) IN
                      /\ b[1] <= b[2] /\ b[2] <= b[1] + N
                      /\ b[1] >= N * Pow10(Digits(pts))          \* every grid edge has length >= 1
\* I satisfies D for navigation: index + sign obeys the laws of R2, and the geometric successor is the
\* same for every shifted and reversed storage
ModelNavIsIndexPlusSign == PLeaf => \A j \in 1..N : ModelNav(pts).nx[j] = NextIdx(pts, j) /\ ModelNav(pts).pv[j] = PrevIdx(pts, j)
NavigationLaws == PLeaf =>
   LET base == GeoSucc(ModelNav(pts).nx, N, 0, FALSE) IN
   \A s \in 0..(N - 1) : \A rev \in BOOLEAN :
      LET S  == ShiftP(IF rev THEN RevP(pts) ELSE pts, s)
          nv == ModelNav(S)
      IN  /\ \A j \in 1..N : S[j] = pts[Sigma(N, s, rev, j)]
          /\ NavLaws(nv.nx, nv.pv, N)
          /\ GeoSucc(nv.nx, N, s, rev) = base

\* Which leaves are replayed on the code. EMIT_ALL: every leaf. Otherwise one representative per class
\* under translation and reversal (the polygon touches x = 0 and y = 0, and of the two storages that
\* start at the least vertex the one whose second vertex is the smaller): the other members of the
\* class are leaves too (all invariants above are checked on them) and reach the code through the
\* driver's reversed / translated storages of the representative.
MinCoord(c) == CHOOSE z \in {pts[j][c] : j \in 1..N} : \A j \in 1..N : z <= pts[j][c]
Representative == MinCoord(1) = 0 /\ MinCoord(2) = 0 /\ LexLess(pts[2], pts[N])
EmitPoly == (PLeaf /\ (EMIT_ALL \/ Representative)) => PrintT("EJ " \o ToJson([P |-> pts]))

(* ---------------------------- tissue leaves ---------------------------- *)
TLeaf == MODE = "tissue" /\ k >= 0
Cycles == SubCycles(sub)

NeighboursID == TLeaf => LET m == SubMesh(sub, k) IN
                  \A c \in DOMAIN m.C : ImplNeighbours(m, c) = Neighbours(m.C, c)
AreaSumID == TLeaf =>
               (HoleFree(Base.pos, Cycles) => SumAbsArea2(Base.pos, Cycles) = OutlineArea2(Base.pos, Cycles))
\* vacuity guards (expected to be VIOLATED when checked on their own)
SomeHoleFree == TLeaf => ~HoleFree(Base.pos, Cycles)
SomeNotHoleFree == TLeaf => HoleFree(Base.pos, Cycles)

EmitTissue == TLeaf => PrintT("EJ " \o ToJson([base |-> Base.name, sub |-> sub, k |-> k, cells |-> Cycles,
                                               holefree |-> HoleFree(Base.pos, Cycles)]))
=============================================================================

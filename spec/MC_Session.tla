----------------------------- MODULE MC_Session -----------------------------
(***************************************************************************)
(* Bounded model check of the session model (C10) and generation of call   *)
(* histories for replay into the real `ForSys` object.                      *)
(*   MC_Session.cfg / _nf1 / _thorough / _thorough_nf1 / _thorough_nf3        *)
(*                          exhaustive BFS over NF frames to MaxDepth calls: *)
(*                          AlignedX, KeyedStoresX, PureResultsX. Run with   *)
(*                          -workers 1: with several workers the level at    *)
(*                          which a state is first reached (hence the set    *)
(*                          of states within the bound) is not deterministic *)
(*   MC_Session_cover*.cfg  + prints the history of every generated state:   *)
(*                          all transitions leaving the states of depth      *)
(*                          <= MaxDepth (a transition cover for replay)      *)
(*   MC_Session_sim.cfg     random walks (-simulate, SimSpec: weighted draw  *)
(*                          of the next enabled call), prints each walk of   *)
(*                          WalkLen calls; the invariants are checked on     *)
(*                          every state of every walk                        *)
(*   MC_Session_guard_*.cfg vacuity guards: the KF matchers are reachable    *)
(*                          and the raw properties fail (EXPECTED violation; *)
(*                          prints the counterexample history, which is      *)
(*                          replayed into the real code)                     *)
(* The instance (env C10_SERIES) is the real series reduced to one          *)
(* representative per class of interfaces the model cannot tell apart       *)
(* (harness/props/c10.py: quotient; isomorphic state graph, same counts).   *)
(* TLC evaluates invariants on every generated successor before applying    *)
(* the CONSTRAINT, so they are also checked one call beyond MaxDepth.       *)
(* `hist` (the calls so far, with parameters) is hidden from the state      *)
(* space by VIEW; depth is bounded by a CONSTRAINT on TLCGet("level").      *)
(***************************************************************************)
EXTENDS Session, Json, IOUtils

CONSTANTS MaxDepth, WalkLen
VARIABLE hist
vars == <<svars, hist>>

Call(op, t, l, f, m, b) == [op |-> op, t |-> t, limit |-> l, fit |-> f, method |-> m, bm |-> b]
Calls ==
  {Call("BuildForce", t, l, f, "", "") : t \in Frames, l \in Limits, f \in Fits}
  \cup {Call("SolveStress", t, "", "", m, b) : t \in Frames, m \in Methods, b \in BModes}
  \cup {Call("BuildPressure", t, "", "", "", "") : t \in Frames}
  \cup {Call("SolvePressure", t, "", "", "", "") : t \in Frames}
  \cup {Call("SysVel", -1, l, "", "", "") : l \in Limits}

Do(c) == \/ c.op = "BuildForce" /\ BuildForce(c.t, c.limit, c.fit)
         \/ c.op = "SolveStress" /\ SolveStress(c.t, c.method, c.bm)
         \/ c.op = "BuildPressure" /\ BuildPressure(c.t)
         \/ c.op = "SolvePressure" /\ SolvePressure(c.t)
         \/ c.op = "SysVel" /\ SystemVelocity(c.limit)

MCInit == Init /\ hist = <<>>
MCNext == \E c \in Calls : Do(c) /\ hist' = Append(hist, c)
MCSpec == MCInit /\ [][MCNext]_vars

(* Random walks (-simulate): the next call is drawn with weights, so that solves and the pressure step are
   frequent and the (always raising) fix_stress back-end is rare; only enabled calls are drawn. *)
Weight(c) == CASE c.op = "BuildForce" -> 2
               [] c.op = "SolveStress" -> IF c.method = "fix_stress" THEN 1 ELSE 6
               [] c.op = "BuildPressure" -> 8
               [] c.op = "SolvePressure" -> 12
               [] c.op = "SysVel" -> 2
CallEnabled(c) == CASE c.op = "SolveStress" -> SolveStressEnabled(c.t)
                    [] c.op = "SolvePressure" -> SolvePressureEnabled(c.t)
                    [] OTHER -> TRUE
Draw == RandomElement({<<c, n>> : c \in {c \in Calls : CallEnabled(c)}, n \in 1..12} \cap
                      {x \in Calls \X (1..12) : x[2] <= Weight(x[1])})[1]
SimNext == \E c \in {Draw} : Do(c) /\ hist' = Append(hist, c)
SimSpec == MCInit /\ [][SimNext]_vars

View == svars
DepthOK == TLCGet("level") <= MaxDepth + 1   \* MaxDepth = number of calls (the initial state is level 1)

EmitHist == PrintT("EJ " \o ToJson([hist |-> hist]))
EmitCover == Len(hist) > 0 => EmitHist
EmitWalk == Len(hist) = WalkLen => EmitHist

\* vacuity guards that also print the counterexample history before failing
G_StaleExcluded == Guard_StaleExcluded \/ (EmitHist /\ FALSE)
G_PressuresOverwritten == Guard_PressuresOverwritten \/ (EmitHist /\ FALSE)
G_FixStress == Guard_FixStress \/ (EmitHist /\ FALSE)
\* the raw properties (EXPECTED to be violated on the unchanged design: design-level counterexamples)
G_PureResults == PureResults \/ (EmitHist /\ FALSE)
G_KeyedStores == KeyedStores \/ (EmitHist /\ FALSE)
=============================================================================

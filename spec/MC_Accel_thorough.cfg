SPECIFICATION Spec
CONSTANT N = 3
CONSTANT SITES <- Sites4
CONSTANT STENCIL1 <- StA3
CONSTANT STENCIL2 <- StB3
CONSTANT VANISH <- NoVanish
CONSTANT ALLORDERS = TRUE
CONSTANT EMITMOD = 1499
INVARIANT InvAccel
INVARIANT InvTotal
INVARIANT InvSame
INVARIANT InvRhs
INVARIANT InvEdges
INVARIANT Emit
CHECK_DEADLOCK FALSE

SPECIFICATION Spec
CONSTANT MODE = "tissue"
CONSTANT GRID = 1
CONSTANT NMAX = 3
CONSTANT EMIT_ALL = TRUE
CONSTANT KS = {0}
INVARIANT NeighboursID
INVARIANT AreaSumID
INVARIANT EmitTissue
CHECK_DEADLOCK FALSE

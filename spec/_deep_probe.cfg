SPECIFICATION Spec
CONSTANT KS = {40}
CONSTANT NES = {3}
INVARIANT BeforeConsistent
INVARIANT ImplSatisfiesD
INVARIANT ResultConsistent
INVARIANT SecondSatisfiesD
INVARIANT Idempotent
INVARIANT NoSecondRaise
INVARIANT Emit
CHECK_DEADLOCK FALSE

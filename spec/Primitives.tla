------------------------------ MODULE Primitives ------------------------------
(***************************************************************************)
(* The object life-cycle of the mesh primitives of ForSys (vertex.py,      *)
(* edge.py, cell.py) as an explicit state machine: one action per public   *)
(* method / constructor / destructor, transcribed from the code INCLUDING  *)
(* return values, what raises, and Python's reference-lifetime semantics.  *)
(* (The composed editing operations - join_two_vertices, T3, generate_mesh *)
(* - are MeshEdits.tla; cell geometry on static meshes is CellGeom.tla.)   *)
(*                                                                         *)
(* State s ("the heap"):                                                   *)
(*   s.nv            Vertex objects are handles 1..nv (ids are unique, the *)
(*                   projection maps id <-> handle; position of handle h   *)
(*                   is the constant PPos(h))                              *)
(*   s.oe[h], s.oc[h], s.ob[h]   ownEdges / ownCells / own_big_edges:      *)
(*                   sequences of edge ids / cell ids / interface ids      *)
(*   s.E[k]          SmallEdge OBJECTS in slots k = 1, 2, ..:              *)
(*                   [id, a, b (v1, v2 handles), d, p]                     *)
(*                   d = "stored in the dict `edges` under its id"         *)
(*                   p = "a reference is held elsewhere" (a stray variable,*)
(*                       a second container): REFERENCE LIFETIME IS STATE, *)
(*                   because __del__ (= deregistration) runs only when the *)
(*                   last reference goes away; an object is live iff d or p*)
(*                   a free slot is PFreeE; trailing free slots are cut    *)
(*   s.C[k]          Cell objects [id, vs (vertex cycle), d, p]            *)
(*   s.B             BigEdge objects held in a dict, sorted by id:         *)
(*                   [id, vs]; BigEdge has no __del__, so its lifetime     *)
(*                   does not matter                                       *)
(*                                                                         *)
(* An operation o = [op, i, a, b, cyc]; PStep(s, o) = [s, ret, raised,     *)
(* unr] is what the code does: successor state, return value               *)
(* ([t |-> "b", x |-> <<0|1>>] booleans of add_*, [t |-> "l", x |-> list]  *)
(* of remove_*, [t |-> "n"] None, [t |-> "g"] BigEdge), class name of the  *)
(* exception that escapes ("" = none), number of exceptions swallowed      *)
(* inside a destructor ("Exception ignored in __del__").                   *)
(*                                                                         *)
(* The contract the primitives can be held to is per id (PHist):           *)
(*   tE, tC, tB  ids touched OUTSIDE the documented use (add_* / remove_*  *)
(*               called by hand with an effect, replace_vertex with an old *)
(*               vertex that is no end / a new vertex that is the other    *)
(*               end / the same vertex, a cell cycle with a repeated       *)
(*               vertex): nothing is demanded of those ids afterwards      *)
(*   dE, dC      ids for which two live objects co-existed (KF_SameIdAlive)*)
(*   st          <<vertex, cell id>> left behind by Cell.replace_vertex    *)
(*               (KF_CellReplaceKeepsOld)                                  *)
(*   br          <<vertex, interface id>> registered by BigEdge            *)
(*               constructors (KF_BigEdgeNeverDeregisters)                 *)
(***************************************************************************)
EXTENDS CellGeom

PRg(q) == {q[j] : j \in DOMAIN q}

\* list.remove(x): drop the first occurrence (caller checks membership)
PRemoveFirst(q, x) ==
  LET i == CHOOSE j \in DOMAIN q : q[j] = x /\ \A p \in 1..(j - 1) : q[p] # x
  IN  [j \in 1..(Len(q) - 1) |-> IF j < i THEN q[j] ELSE q[j + 1]]
PAppendNew(q, x) == IF x \in PRg(q) THEN q ELSE Append(q, x)
PFirstIdx(q, x) == CHOOSE j \in DOMAIN q : q[j] = x /\ \A p \in 1..(j - 1) : q[p] # x
PWithout(q, x) == IF x \in PRg(q) THEN PRemoveFirst(q, x) ELSE q

\* integer position of vertex handle h: points of a parabola, no three collinear
PPos(h) == <<h, h * h>>

PFreeE == [id |-> -1, a |-> 0, b |-> 0, d |-> FALSE, p |-> FALSE]
PFreeC == [id |-> -1, vs |-> <<>>, d |-> FALSE, p |-> FALSE]
PLive(x) == x.d \/ x.p
PInit(n) == [nv |-> n, oe |-> [h \in 1..n |-> <<>>], oc |-> [h \in 1..n |-> <<>>], ob |-> [h \in 1..n |-> <<>>],
             E |-> <<>>, C |-> <<>>, B |-> <<>>]

\* slot of the object stored in the dict under id i (0 = KeyError)
PDictSlot(q, i) == IF \E k \in DOMAIN q : q[k].d /\ q[k].id = i
                   THEN CHOOSE k \in DOMAIN q : q[k].d /\ q[k].id = i ELSE 0
PFreeSlot(q) == IF \E k \in DOMAIN q : ~PLive(q[k])
                THEN CHOOSE k \in DOMAIN q : ~PLive(q[k]) /\ \A j \in 1..(k - 1) : PLive(q[j])
                ELSE Len(q) + 1
PPut(q, k, x) == IF k = Len(q) + 1 THEN Append(q, x) ELSE [q EXCEPT ![k] = x]
RECURSIVE PTrim(_)
PTrim(q) == IF Len(q) > 0 /\ ~PLive(q[Len(q)]) THEN PTrim(SubSeq(q, 1, Len(q) - 1)) ELSE q
PLiveE(s) == {k \in DOMAIN s.E : PLive(s.E[k])}
PLiveC(s) == {k \in DOMAIN s.C : PLive(s.C[k])}

PNone    == [t |-> "n", x |-> <<>>]
PBool(b) == [t |-> "b", x |-> <<IF b THEN 1 ELSE 0>>]
PList(q) == [t |-> "l", x |-> q]
PRes(s, ret, raised, unr) == [s |-> s, ret |-> ret, raised |-> raised, unr |-> unr]
PRaise(s, cls) == PRes(s, PNone, cls, 0)

(************************************ Vertex *******************************)
PGet(s, k, h) == CASE k = "e" -> s.oe[h] [] k = "c" -> s.oc[h] [] OTHER -> s.ob[h]
PSet(s, k, h, q) == CASE k = "e" -> [s EXCEPT !.oe[h] = q] [] k = "c" -> [s EXCEPT !.oc[h] = q]
                      [] OTHER -> [s EXCEPT !.ob[h] = q]
\* add_edge / add_cell / add_big_edge: append unless present; returns whether it changed anything
PAdd(s, k, h, x) == LET q == PGet(s, k, h) IN
                    IF x \in PRg(q) THEN PRes(s, PBool(FALSE), "", 0)
                    ELSE PRes(PSet(s, k, h, Append(q, x)), PBool(TRUE), "", 0)
\* remove_edge / remove_cell / remove_big_edge: list.remove (ValueError if absent); returns the list
PRemove(s, k, h, x) == LET q == PGet(s, k, h) IN
                       IF x \notin PRg(q) THEN PRaise(s, "ValueError")
                       ELSE LET q1 == PRemoveFirst(q, x) IN PRes(PSet(s, k, h, q1), PList(q1), "", 0)

(*********************************** SmallEdge *****************************)
\* SmallEdge.__del__: for v in verticesArray: if id in v.ownEdges: v.remove_edge(id)
PUnregE(s, i, a, b) ==
  LET s1 == [s EXCEPT !.oe[a] = PWithout(@, i)] IN [s1 EXCEPT !.oe[b] = PWithout(@, i)]
\* a reference to the object in slot k was dropped: the destructor runs iff it was the last one
PReleaseE(s, k) ==
  LET x == s.E[k] IN
  IF PLive(x) THEN s
  ELSE LET s1 == PUnregE(s, x.id, x.a, x.b) IN [s1 EXCEPT !.E = PTrim([s.E EXCEPT ![k] = PFreeE])]

\* edges[i] = SmallEdge(i, V[a], V[b]): __post_init__ registers on both ends, THEN asserts v1.id != v2.id;
\* the object is complete before the dict slot is overwritten, i.e. before a previous edges[i] is released
PNewEdge(s, i, a, b) ==
  LET s1 == [s  EXCEPT !.oe[a] = PAppendNew(@, i)]
      s2 == [s1 EXCEPT !.oe[b] = PAppendNew(@, i)]
  IN  IF a = b THEN PRaise(PUnregE(s2, i, a, b), "AssertionError")      \* the half-built object is collected
      ELSE LET old == PDictSlot(s.E, i)
               k   == PFreeSlot(s.E)
               s3  == [s2 EXCEPT !.E = PPut(s.E, k, [id |-> i, a |-> a, b |-> b, d |-> TRUE, p |-> FALSE])]
           IN  IF old = 0 THEN PRes(s3, PNone, "", 0)
               ELSE PRes(PReleaseE([s3 EXCEPT !.E[old].d = FALSE], old), PNone, "", 0)
\* del edges[i]
PDelEdge(s, i) == LET k == PDictSlot(s.E, i) IN
                  IF k = 0 THEN PRaise(s, "KeyError")
                  ELSE PRes(PReleaseE([s EXCEPT !.E[k].d = FALSE], k), PNone, "", 0)
\* ref = edges[i]   (a stray reference: a loop variable, a second container)
PPinEdge(s, i) == LET k == PDictSlot(s.E, i) IN
                  IF k = 0 THEN PRaise(s, "KeyError") ELSE PRes([s EXCEPT !.E[k].p = TRUE], PNone, "", 0)
\* the stray reference to the object in slot k goes away
PUnpinEdge(s, k) == IF k \notin DOMAIN s.E \/ ~s.E[k].p THEN PRaise(s, "KeyError")
                    ELSE PRes(PReleaseE([s EXCEPT !.E[k].p = FALSE], k), PNone, "", 0)
\* SmallEdge.replace_vertex(vold, vnew): who = 0 if v1.id == vold.id else 1 (vold is not checked to be an end);
\* verticesArray[who].ownEdges.remove(id) (ValueError before anything changed); v[who] = vnew; vnew.add_edge(id)
PEdgeReplace(s, k, vo, vn) ==
  IF k \notin DOMAIN s.E \/ ~PLive(s.E[k]) THEN PRaise(s, "KeyError") ELSE
  LET x   == s.E[k]
      tgt == IF x.a = vo THEN x.a ELSE x.b
  IN  IF x.id \notin PRg(s.oe[tgt]) THEN PRaise(s, "ValueError")
      ELSE LET s1 == [s  EXCEPT !.oe[tgt] = PRemoveFirst(@, x.id)]
               s2 == IF x.a = vo THEN [s1 EXCEPT !.E[k].a = vn] ELSE [s1 EXCEPT !.E[k].b = vn]
           IN  PRes([s2 EXCEPT !.oe[vn] = PAppendNew(@, x.id)], PNone, "", 0)

(************************************* Cell ********************************)
RECURSIVE PRegC(_, _, _, _)
PRegC(s, i, vs, j) == IF j > Len(vs) THEN s ELSE PRegC([s EXCEPT !.oc[vs[j]] = PAppendNew(@, i)], i, vs, j + 1)
\* Cell.__del__: for v in vertices: v.remove_cell(id) -- NOT guarded: a ValueError inside a destructor is
\* printed and swallowed by the interpreter, the rest of the loop is abandoned
RECURSIVE PUnregC(_, _, _, _)
PUnregC(s, i, vs, j) ==
  IF j > Len(vs) THEN [s |-> s, unr |-> 0]
  ELSE IF i \notin PRg(s.oc[vs[j]]) THEN [s |-> s, unr |-> 1]
  ELSE PUnregC([s EXCEPT !.oc[vs[j]] = PRemoveFirst(@, i)], i, vs, j + 1)
PReleaseC(s, k) ==        \* returns [s, unr]
  LET x == s.C[k] IN
  IF PLive(x) THEN [s |-> s, unr |-> 0]
  ELSE LET r == PUnregC(s, x.id, x.vs, 1) IN
       [s |-> [r.s EXCEPT !.C = PTrim([s.C EXCEPT ![k] = PFreeC])], unr |-> r.unr]

\* the circle fit of __post_init__ (scipy leastsq, numpy errors raise): no vertex -> mean of an empty list,
\* one vertex -> fewer residuals than parameters; from two vertices on it returns
PCellCtorRaises(cyc) == IF Len(cyc) = 0 THEN "FloatingPointError" ELSE IF Len(cyc) = 1 THEN "TypeError" ELSE ""
\* cells[i] = Cell(i, [V[h] for h in cyc]): registers on every vertex, then fits the circle
PNewCell(s, i, cyc) ==
  LET s1 == PRegC(s, i, cyc, 1)
      cls == PCellCtorRaises(cyc)
  IN  IF cls # "" THEN LET r == PUnregC(s1, i, cyc, 1) IN PRes(r.s, PNone, cls, r.unr)    \* half-built object collected
      ELSE LET old == PDictSlot(s.C, i)
               k   == PFreeSlot(s.C)
               s3  == [s1 EXCEPT !.C = PPut(s.C, k, [id |-> i, vs |-> cyc, d |-> TRUE, p |-> FALSE])]
           IN  IF old = 0 THEN PRes(s3, PNone, "", 0)
               ELSE LET r == PReleaseC([s3 EXCEPT !.C[old].d = FALSE], old) IN PRes(r.s, PNone, "", r.unr)
PDelCell(s, i) == LET k == PDictSlot(s.C, i) IN
                  IF k = 0 THEN PRaise(s, "KeyError")
                  ELSE LET r == PReleaseC([s EXCEPT !.C[k].d = FALSE], k) IN PRes(r.s, PNone, "", r.unr)
PPinCell(s, i) == LET k == PDictSlot(s.C, i) IN
                  IF k = 0 THEN PRaise(s, "KeyError") ELSE PRes([s EXCEPT !.C[k].p = TRUE], PNone, "", 0)
PUnpinCell(s, k) == IF k \notin DOMAIN s.C \/ ~s.C[k].p THEN PRaise(s, "KeyError")
                    ELSE LET r == PReleaseC([s EXCEPT !.C[k].p = FALSE], k) IN PRes(r.s, PNone, "", r.unr)
\* Cell.replace_vertex(vold, vnew): if vnew.id is already in the cell the old vertex is REMOVED, otherwise
\* substituted in place and the cell registered on vnew; vold.ownCells is never touched
PCellReplace(s, k, vo, vn) ==
  IF k \notin DOMAIN s.C \/ ~PLive(s.C[k]) THEN PRaise(s, "KeyError") ELSE
  LET x == s.C[k] IN
  IF vo \notin PRg(x.vs) THEN PRaise(s, "ValueError")          \* list.remove / list.index
  ELSE IF vn \in PRg(x.vs) THEN PRes([s EXCEPT !.C[k].vs = PRemoveFirst(@, vo)], PNone, "", 0)
  ELSE LET s1 == [s EXCEPT !.C[k].vs[PFirstIdx(x.vs, vo)] = vn]
       IN  PRes([s1 EXCEPT !.oc[vn] = PAppendNew(@, x.id)], PNone, "", 0)

(************************************ BigEdge ******************************)
PCommonE(s, a, b) == PRg(s.oe[a]) \cap PRg(s.oe[b])
RECURSIVE PRegB(_, _, _, _)
PRegB(s, i, vs, j) == IF j > Len(vs) THEN s ELSE PRegB([s EXCEPT !.ob[vs[j]] = PAppendNew(@, i)], i, vs, j + 1)
PBigPut(B, i, vs) == SelectSeq(B, LAMBDA x : x.id < i) \o <<[id |-> i, vs |-> vs]>> \o SelectSeq(B, LAMBDA x : x.id > i)
PBigHas(B, i) == \E j \in DOMAIN B : B[j].id = i
\* external = any vertex with fewer than two cells, or no end with more than two
PBigExternal(s, vs) == \/ \E j \in DOMAIN vs : Len(s.oc[vs[j]]) < 2
                       \/ ~(Len(s.oc[vs[1]]) > 2 \/ Len(s.oc[vs[Len(vs)]]) > 2)
\* big[i] = BigEdge(i, [V[h] for h in path]): registers on every vertex FIRST; then looks up the mesh edge of every
\* consecutive pair (list(set & set)[0]: IndexError without a common edge; vertices[-1 // 2] of an empty list)
PNewBig(s, i, vs) ==
  LET s1 == PRegB(s, i, vs, 1) IN
  IF Len(vs) = 0 \/ \E j \in 1..(Len(vs) - 1) : PCommonE(s, vs[j], vs[j + 1]) = {}
  THEN PRaise(s1, "IndexError")                                   \* no destructor: the registrations stay
  ELSE PRes([s1 EXCEPT !.B = PBigPut(@, i, vs)], [t |-> "g", x |-> <<IF PBigExternal(s, vs) THEN 1 ELSE 0>>], "", 0)
\* del big[i]: nothing else happens
PDropBig(s, i) == IF ~PBigHas(s.B, i) THEN PRaise(s, "KeyError")
                  ELSE PRes([s EXCEPT !.B = SelectSeq(@, LAMBDA x : x.id # i)], PNone, "", 0)

(********************************* the machine *****************************)
POps == {"NewVertex", "add_edge", "remove_edge", "add_cell", "remove_cell", "add_big_edge", "remove_big_edge",
         "NewEdge", "DelEdge", "PinEdge", "UnpinEdge", "EdgeReplace",
         "NewCell", "DelCell", "PinCell", "UnpinCell", "CellReplace", "NewBigEdge", "DropBigEdge"}
PBookKind(op) == CASE op \in {"add_edge", "remove_edge"} -> "e" [] op \in {"add_cell", "remove_cell"} -> "c" [] OTHER -> "b"
PIsAdd(op) == op \in {"add_edge", "add_cell", "add_big_edge"}
PIsRemove(op) == op \in {"remove_edge", "remove_cell", "remove_big_edge"}
POp(op, i, a, b, cyc) == [op |-> op, i |-> i, a |-> a, b |-> b, cyc |-> cyc]

\* which arguments must be vertex handles
PWellFormed(s, o) ==
  /\ o.op \in POps
  /\ (PIsAdd(o.op) \/ PIsRemove(o.op)) => o.a \in 1..s.nv
  /\ o.op \in {"NewEdge", "EdgeReplace", "CellReplace"} => (o.a \in 1..s.nv /\ o.b \in 1..s.nv)
  /\ o.op \in {"NewCell", "NewBigEdge"} => \A j \in DOMAIN o.cyc : o.cyc[j] \in 1..s.nv

PStep(s, o) ==
  CASE o.op = "NewVertex" ->
         PRes([s EXCEPT !.nv = @ + 1, !.oe = Append(@, <<>>), !.oc = Append(@, <<>>), !.ob = Append(@, <<>>)], PNone, "", 0)
    [] PIsAdd(o.op)          -> PAdd(s, PBookKind(o.op), o.a, o.i)
    [] PIsRemove(o.op)       -> PRemove(s, PBookKind(o.op), o.a, o.i)
    [] o.op = "NewEdge"      -> PNewEdge(s, o.i, o.a, o.b)
    [] o.op = "DelEdge"      -> PDelEdge(s, o.i)
    [] o.op = "PinEdge"      -> PPinEdge(s, o.i)
    [] o.op = "UnpinEdge"    -> PUnpinEdge(s, o.i)
    [] o.op = "EdgeReplace"  -> PEdgeReplace(s, o.i, o.a, o.b)
    [] o.op = "NewCell"      -> PNewCell(s, o.i, o.cyc)
    [] o.op = "DelCell"      -> PDelCell(s, o.i)
    [] o.op = "PinCell"      -> PPinCell(s, o.i)
    [] o.op = "UnpinCell"    -> PUnpinCell(s, o.i)
    [] o.op = "CellReplace"  -> PCellReplace(s, o.i, o.a, o.b)
    [] o.op = "NewBigEdge"   -> PNewBig(s, o.i, o.cyc)
    [] o.op = "DropBigEdge"  -> PDropBig(s, o.i)
    [] OTHER                 -> PRaise(s, "NotAnOperation")

(************************* queries (pure functions of s) *******************)
\* get_other_vertex_id(one): 0 = AssertionError ("vertex not in asked edge")
POtherEnd(x, h) == IF h \notin {x.a, x.b} THEN 0 ELSE IF h = x.b THEN x.a ELSE x.b
\* get_area_sign of the stored cycle (exact on the integer positions)
PSign(vs) == IF Len(vs) = 0 THEN 0 ELSE Sgn(Area2Raw([j \in DOMAIN vs |-> PPos(vs[j])]))
\* get_next_vertex / get_previous_vertex: vertices[(index(v) +- sign) % len]; 0 = ValueError (not in the cell)
PNext(vs, h) == IF h \notin PRg(vs) THEN 0 ELSE vs[((PFirstIdx(vs, h) - 1 + PSign(vs)) % Len(vs)) + 1]
PPrev(vs, h) == IF h \notin PRg(vs) THEN 0 ELSE vs[((PFirstIdx(vs, h) - 1 - PSign(vs)) % Len(vs)) + 1]
\* calculate_neighbors: ids listed by the cell's vertices, minus its own (list.remove: ValueError when not listed)
PNbrSet(s, x) == UNION {PRg(s.oc[x.vs[j]]) : j \in DOMAIN x.vs}
PObs(s) ==
  [eo |-> [k \in DOMAIN s.E |-> IF PLive(s.E[k]) THEN [h \in 1..s.nv |-> POtherEnd(s.E[k], h)] ELSE <<>>],
   sg |-> [k \in DOMAIN s.C |-> IF PLive(s.C[k]) THEN PSign(s.C[k].vs) ELSE 0],
   nx |-> [k \in DOMAIN s.C |-> IF PLive(s.C[k]) THEN [h \in 1..s.nv |-> PNext(s.C[k].vs, h)] ELSE <<>>],
   pv |-> [k \in DOMAIN s.C |-> IF PLive(s.C[k]) THEN [h \in 1..s.nv |-> PPrev(s.C[k].vs, h)] ELSE <<>>]]
\* get_edges(): the mesh edge of every pair (vertices[n], vertices[n + 1]), n < len - 1 (the closing pair is NOT
\* visited); list(set & set)[0]: any common id, IndexError without one.  ce = <<"ok" | "IndexError", list>>
PCellEdgesOK(s, x, ce) ==
  LET n == Len(x.vs)
      gap == \E j \in 1..(n - 1) : PCommonE(s, x.vs[j], x.vs[j + 1]) = {}
  IN  IF gap THEN ce.raised = "IndexError"
      ELSE /\ ce.raised = "" /\ Len(ce.x) = (IF n = 0 THEN 0 ELSE n - 1)
           /\ \A j \in 1..(n - 1) : ce.x[j] \in PCommonE(s, x.vs[j], x.vs[j + 1])
\* D: a closed cycle of n >= 3 vertices has n sides
PCellEdgesClosed(s, x, ce) ==
  LET n == Len(x.vs) IN
  (n >= 3 /\ \A j \in 1..n : PCommonE(s, x.vs[j], x.vs[Nxt(j, n)]) # {}) =>
     /\ ce.raised = "" /\ Len(ce.x) = n
     /\ \A j \in 1..n : ce.x[j] \in PCommonE(s, x.vs[j], x.vs[Nxt(j, n)])
KF_CellEdgesOpen(s, x, ce) == ce.raised = "" /\ Len(ce.x) = Len(x.vs) - 1       \* the open chain was returned
PNeighborsOK(s, x, nb) ==
  IF x.id \notin PNbrSet(s, x) THEN nb.raised = "ValueError"
  ELSE nb.raised = "" /\ PRg(nb.x) = PNbrSet(s, x) \ {x.id} /\ NoDup(nb.x)

(**************** the contract, per id, as a history variable **************)
PHist0 == [tE |-> {}, tC |-> {}, tB |-> {}, dE |-> {}, dC |-> {}, st |-> {}, br |-> {}]
PLiveEdgeIds(s) == {s.E[k].id : k \in PLiveE(s)}
PLiveCellIds(s) == {s.C[k].id : k \in PLiveC(s)}
\* documented use of the operation (an operation that raises is always legitimate: it is refused)
PLegit(s, o) ==
  CASE PIsAdd(o.op) \/ PIsRemove(o.op) -> FALSE
    [] o.op = "EdgeReplace" -> o.i \in DOMAIN s.E /\ LET x == s.E[o.i] IN o.a \in {x.a, x.b} /\ o.b \notin {x.a, x.b}
    [] o.op = "CellReplace" -> o.a # o.b
    [] o.op \in {"NewCell", "NewBigEdge"} -> NoDup(o.cyc)
    [] OTHER -> TRUE
\* r = PStep(s, o)
PHistNext(h, s, o, r) ==
  LET changed == r.s # s
      bad == changed /\ ~PLegit(s, o)
  IN  [tE |-> h.tE \cup (IF bad /\ o.op \in {"add_edge", "remove_edge"} THEN {o.i} ELSE {})
                   \cup (IF bad /\ o.op = "EdgeReplace" THEN {s.E[o.i].id} ELSE {}),
       tC |-> h.tC \cup (IF bad /\ o.op \in {"add_cell", "remove_cell", "NewCell"} THEN {o.i} ELSE {})
                   \cup (IF bad /\ o.op = "CellReplace" THEN {s.C[o.i].id} ELSE {}),
       tB |-> h.tB \cup (IF bad /\ o.op \in {"add_big_edge", "remove_big_edge", "NewBigEdge"} THEN {o.i} ELSE {}),
       dE |-> h.dE \cup (IF o.op = "NewEdge" /\ o.i \in PLiveEdgeIds(s) THEN {o.i} ELSE {}),
       dC |-> h.dC \cup (IF o.op = "NewCell" /\ o.i \in PLiveCellIds(s) THEN {o.i} ELSE {}),
       st |-> h.st \cup (IF o.op = "CellReplace" /\ r.raised = "" /\ changed THEN {<<o.a, s.C[o.i].id>>} ELSE {}),
       br |-> h.br \cup (IF o.op = "NewBigEdge" THEN {<<o.cyc[j], o.i>> : j \in DOMAIN o.cyc} ELSE {})]

(****************************** state properties ***************************)
\* PRIM.nodup: no own list ever holds an entry twice (unconditional)
PNoDupOK(s) == \A h \in 1..s.nv : NoDup(s.oe[h]) /\ NoDup(s.oc[h]) /\ NoDup(s.ob[h])

\* PRIM.own_edges_exact: v lists edge id i  <=>  some LIVE SmallEdge with id i has v as an end.
\* failing instances <<v, i>>
PAllEdgeIds(s) == PLiveEdgeIds(s) \cup UNION {PRg(s.oe[h]) : h \in 1..s.nv}
PAllCellIds(s) == PLiveCellIds(s) \cup UNION {PRg(s.oc[h]) : h \in 1..s.nv}
PAllBigIds(s)  == {s.B[j].id : j \in DOMAIN s.B} \cup UNION {PRg(s.ob[h]) : h \in 1..s.nv}
PEdgeAt(s, i, v) == \E k \in PLiveE(s) : s.E[k].id = i /\ v \in {s.E[k].a, s.E[k].b}
PCellAt(s, i, v) == \E k \in PLiveC(s) : s.C[k].id = i /\ v \in PRg(s.C[k].vs)
PBigAt(s, i, v)  == \E j \in DOMAIN s.B : s.B[j].id = i /\ v \in PRg(s.B[j].vs)
PBadE(s) == {x \in (1..s.nv) \X PAllEdgeIds(s) : (x[2] \in PRg(s.oe[x[1]])) # PEdgeAt(s, x[2], x[1])}
PBadC(s) == {x \in (1..s.nv) \X PAllCellIds(s) : (x[2] \in PRg(s.oc[x[1]])) # PCellAt(s, x[2], x[1])}
PBadB(s) == {x \in (1..s.nv) \X PAllBigIds(s)  : (x[2] \in PRg(s.ob[x[1]])) # PBigAt(s, x[2], x[1])}

\* known-finding matchers, per failing instance x = <<vertex, id>>
KF_SameIdAlive(h, kind, x) == IF kind = "e" THEN x[2] \in h.dE ELSE x[2] \in h.dC
KF_CellReplaceKeepsOld(h, s, x) == x \in h.st /\ x[2] \in PRg(s.oc[x[1]])            \* listed, but not in the cell
KF_BigEdgeNeverDeregisters(h, s, x) == x \in h.br /\ x[2] \in PRg(s.ob[x[1]])       \* listed, but no such interface

\* verdict on a state: [fails, kf, hits]
PJudgeState(s, h) ==
  LET be == {x \in PBadE(s) : x[2] \notin h.tE}
      bc == {x \in PBadC(s) : x[2] \notin h.tC}
      bb == {x \in PBadB(s) : x[2] \notin h.tB}
      kfe == {x \in be : KF_SameIdAlive(h, "e", x)}
      kfc1 == {x \in bc : KF_CellReplaceKeepsOld(h, s, x)}
      kfc2 == {x \in bc \ kfc1 : KF_SameIdAlive(h, "c", x)}
      kfb == {x \in bb : KF_BigEdgeNeverDeregisters(h, s, x)}
  IN  [fails |-> (IF ~PNoDupOK(s) THEN {"PRIM.nodup"} ELSE {}) \cup
                 (IF be \ kfe # {} THEN {"PRIM.own_edges_exact"} ELSE {}) \cup
                 (IF bc \ (kfc1 \cup kfc2) # {} THEN {"PRIM.own_cells_exact"} ELSE {}) \cup
                 (IF bb \ kfb # {} THEN {"PRIM.own_big_exact"} ELSE {}),
       kf |-> (IF kfe # {} THEN {"KF_SameIdAlive:PRIM.own_edges_exact"} ELSE {}) \cup
              (IF kfc1 # {} THEN {"KF_CellReplaceKeepsOld:PRIM.own_cells_exact"} ELSE {}) \cup
              (IF kfc2 # {} THEN {"KF_SameIdAlive:PRIM.own_cells_exact"} ELSE {}) \cup
              (IF kfb # {} THEN {"KF_BigEdgeNeverDeregisters:PRIM.own_big_exact"} ELSE {}),
       hits |-> {"PRIM.nodup"} \cup
                (IF PAllEdgeIds(s) \ h.tE # {} THEN {"PRIM.own_edges_exact"} ELSE {}) \cup
                (IF PAllCellIds(s) \ h.tC # {} THEN {"PRIM.own_cells_exact"} ELSE {}) \cup
                (IF PAllBigIds(s) \ h.tB # {} THEN {"PRIM.own_big_exact"} ELSE {})]

\* the dict view as a Mesh.tla record: what `vertices`, `edges`, `cells` show (objects that are only pinned are invisible;
\* a listed id without a dict entry resolves to 0)
PAbstract(s) ==
  LET es == SelectSeq(s.E, LAMBDA x : x.d)
      cs == SelectSeq(s.C, LAMBDA x : x.d)
      eix(i) == IF \E j \in DOMAIN es : es[j].id = i THEN CHOOSE j \in DOMAIN es : es[j].id = i ELSE 0
      cix(i) == IF \E j \in DOMAIN cs : cs[j].id = i THEN CHOOSE j \in DOMAIN cs : cs[j].id = i ELSE 0
  IN  [nv |-> s.nv, ne |-> Len(es), nc |-> Len(cs),
       oe |-> [h \in 1..s.nv |-> [j \in DOMAIN s.oe[h] |-> eix(s.oe[h][j])]],
       oc |-> [h \in 1..s.nv |-> [j \in DOMAIN s.oc[h] |-> cix(s.oc[h][j])]],
       E  |-> [j \in DOMAIN es |-> <<es[j].a, es[j].b>>],
       C  |-> [j \in DOMAIN cs |-> cs[j].vs],
       vkey |-> [h \in 1..s.nv |-> TRUE], ekey |-> [j \in DOMAIN es |-> TRUE], ckey |-> [j \in DOMAIN cs |-> TRUE]]
\* the C09 clauses the primitives are responsible for (cells are not coupled to mesh edges at this level)
PrimC09 == {"C09.edge_listed", "C09.edge_missing", "C09.edge_dup", "C09.cell_listed", "C09.cell_missing", "C09.cell_dup",
            "C09.keys"}
PNoZombie(s) == (\A k \in PLiveE(s) : s.E[k].d) /\ (\A k \in PLiveC(s) : s.C[k].d)
\* lemma (checked by MC_Primitives): own lists exact + every live object is in its dict => the dict view is C09-consistent
PDictViewOK(s) == (PNoZombie(s) /\ PBadE(s) = {} /\ PBadC(s) = {}) => Consistent(PAbstract(s)) \cap PrimC09 = {}

(****************** action properties: D on (pre, o, post, ret, raised) *******************)
PSameBut(pre, post, fields) ==      \* every state component not named in `fields` is unchanged
  /\ ("nv" \in fields \/ post.nv = pre.nv) /\ ("oe" \in fields \/ post.oe = pre.oe) /\ ("oc" \in fields \/ post.oc = pre.oc)
  /\ ("ob" \in fields \/ post.ob = pre.ob) /\ ("E" \in fields \/ post.E = pre.E) /\ ("C" \in fields \/ post.C = pre.C)
  /\ ("B" \in fields \/ post.B = pre.B)

\* add_*: idempotent, reports whether it changed anything
PDAdd(pre, o, post, ret, raised) ==
  LET k == PBookKind(o.op)  q == PGet(pre, k, o.a) IN
  /\ raised = "" /\ ret = PBool(o.i \notin PRg(q))
  /\ post = PSet(pre, k, o.a, IF o.i \in PRg(q) THEN q ELSE Append(q, o.i))
\* remove_*: removes one entry and returns the list; refuses (ValueError) what is not listed
PDRemove(pre, o, post, ret, raised) ==
  LET k == PBookKind(o.op)  q == PGet(pre, k, o.a) IN
  IF o.i \in PRg(q)
  THEN /\ raised = "" /\ ret.t = "l" /\ ret.x = PGet(post, k, o.a)
       /\ post = PSet(pre, k, o.a, PGet(post, k, o.a))
       /\ Len(ret.x) = Len(q) - 1 /\ PRg(ret.x) = PRg(q) \ {o.i}
       /\ \A j1, j2 \in DOMAIN ret.x : j1 < j2 => PFirstIdx(q, ret.x[j1]) < PFirstIdx(q, ret.x[j2])   \* order kept
  ELSE raised = "ValueError" /\ post = pre

\* losing the last reference to SmallEdge x deregisters its id at exactly its two ends and nowhere else
PDEdgeGone(pre, post, x) ==
  /\ \A h \in 1..pre.nv : post.oe[h] = IF h \in {x.a, x.b} THEN PWithout(pre.oe[h], x.id) ELSE pre.oe[h]
  /\ PSameBut(pre, post, {"oe", "E"})
PDDelEdge(pre, o, post, raised) ==
  LET k == PDictSlot(pre.E, o.i) IN
  IF k = 0 THEN raised = "KeyError" /\ post = pre
  ELSE /\ raised = "" /\ PDictSlot(post.E, o.i) = 0
       /\ IF pre.E[k].p THEN /\ k \in DOMAIN post.E /\ post.E[k] = [pre.E[k] EXCEPT !.d = FALSE]   \* still referenced:
                             /\ PSameBut(pre, post, {"E"})                                         \* nothing deregistered
          ELSE PDEdgeGone(pre, post, pre.E[k]) /\ (k \in DOMAIN post.E => ~PLive(post.E[k]))
       /\ \A j \in DOMAIN pre.E : j # k /\ PLive(pre.E[j]) => (j \in DOMAIN post.E /\ post.E[j] = pre.E[j])
PDUnpinEdge(pre, o, post, raised) ==
  LET k == o.i IN
  IF k \notin DOMAIN pre.E \/ ~pre.E[k].p THEN raised = "KeyError" /\ post = pre
  ELSE /\ raised = ""
       /\ IF pre.E[k].d THEN post.E[k] = [pre.E[k] EXCEPT !.p = FALSE] /\ PSameBut(pre, post, {"E"})
          ELSE PDEdgeGone(pre, post, pre.E[k]) /\ (k \in DOMAIN post.E => ~PLive(post.E[k]))
       /\ \A j \in DOMAIN pre.E : j # k /\ PLive(pre.E[j]) => (j \in DOMAIN post.E /\ post.E[j] = pre.E[j])
\* a new edge is registered at both ends (no other live edge carries the id)
PDNewEdge(pre, o, post, raised) ==
  IF o.a = o.b THEN raised = "AssertionError" /\ post = pre
  ELSE /\ raised = ""
       /\ \E k \in DOMAIN post.E : post.E[k] = [id |-> o.i, a |-> o.a, b |-> o.b, d |-> TRUE, p |-> FALSE]
                                   /\ (k \in DOMAIN pre.E => ~PLive(pre.E[k]))
                                   /\ \A j \in DOMAIN pre.E : PLive(pre.E[j]) => (j \in DOMAIN post.E /\ post.E[j] = pre.E[j])
       /\ \A h \in 1..pre.nv : post.oe[h] = IF h \in {o.a, o.b} THEN Append(pre.oe[h], o.i) ELSE pre.oe[h]
       /\ PSameBut(pre, post, {"oe", "E"})
\* replace_vertex on an edge (documented use): the end is substituted in place, the registration moves with it
PDEdgeReplace(pre, o, post, raised) ==
  LET x == pre.E[o.i] IN
  /\ raised = ""
  /\ post.E = [pre.E EXCEPT ![o.i] = IF x.a = o.a THEN [x EXCEPT !.a = o.b] ELSE [x EXCEPT !.b = o.b]]
  /\ \A h \in 1..pre.nv : post.oe[h] = IF h = o.a THEN PWithout(pre.oe[h], x.id)
                                       ELSE IF h = o.b THEN PAppendNew(pre.oe[h], x.id) ELSE pre.oe[h]
  /\ PSameBut(pre, post, {"oe", "E"})
\* replace_vertex on a cell (documented use, simple cycle): pointwise image of the cycle, cyclic order kept;
\* when the new vertex is already in the cell the old one is dropped (the two are merged)
PDCellReplace(pre, o, post, raised) ==
  LET x == pre.C[o.i]  n == Len(x.vs) IN
  /\ raised = ""
  /\ o.i \in DOMAIN post.C /\ post.C[o.i].id = x.id /\ post.C[o.i].d = x.d /\ post.C[o.i].p = x.p
  /\ IF o.b \notin PRg(x.vs)
     THEN /\ post.C[o.i].vs = [j \in 1..n |-> IF x.vs[j] = o.a THEN o.b ELSE x.vs[j]]
          /\ x.id \in PRg(post.oc[o.b])
     ELSE post.C[o.i].vs = SelectSeq(x.vs, LAMBDA h : h # o.a)
  /\ \A j \in DOMAIN pre.C : j # o.i => post.C[j] = pre.C[j]
  /\ \A h \in 1..pre.nv : h \notin {o.a, o.b} => post.oc[h] = pre.oc[h]
  /\ PSameBut(pre, post, {"oc", "C"})
\* losing the last reference to a cell deregisters it at exactly its vertices
PDCellGone(pre, post, x) ==
  /\ \A h \in 1..pre.nv : post.oc[h] = IF h \in PRg(x.vs) THEN PWithout(pre.oc[h], x.id) ELSE pre.oc[h]
  /\ PSameBut(pre, post, {"oc", "C"})
PDDelCell(pre, o, post, raised, unr) ==
  LET k == PDictSlot(pre.C, o.i) IN
  IF k = 0 THEN raised = "KeyError" /\ post = pre
  ELSE /\ raised = "" /\ unr = 0 /\ PDictSlot(post.C, o.i) = 0
       /\ IF pre.C[k].p THEN /\ k \in DOMAIN post.C /\ post.C[k] = [pre.C[k] EXCEPT !.d = FALSE]
                             /\ PSameBut(pre, post, {"C"})
          ELSE PDCellGone(pre, post, pre.C[k]) /\ (k \in DOMAIN post.C => ~PLive(post.C[k]))
PDNewCell(pre, o, post, raised) ==
  IF Len(o.cyc) < 2 THEN raised # "" /\ post = pre
  ELSE /\ raised = ""
       /\ \E k \in DOMAIN post.C : post.C[k] = [id |-> o.i, vs |-> o.cyc, d |-> TRUE, p |-> FALSE]
                                   /\ (k \in DOMAIN pre.C => ~PLive(pre.C[k]))
                                   /\ \A j \in DOMAIN pre.C : PLive(pre.C[j]) => (j \in DOMAIN post.C /\ post.C[j] = pre.C[j])
       /\ \A h \in 1..pre.nv : post.oc[h] = IF h \in PRg(o.cyc) THEN Append(pre.oc[h], o.i) ELSE pre.oc[h]
       /\ PSameBut(pre, post, {"oc", "C"})

\* id of the object an operation is about (for the per-id contract), -1 = none
POpEdgeId(s, o) == CASE o.op \in {"add_edge", "remove_edge", "NewEdge", "DelEdge", "PinEdge"} -> o.i
                     [] o.op \in {"UnpinEdge", "EdgeReplace"} -> IF o.i \in DOMAIN s.E THEN s.E[o.i].id ELSE -1
                     [] OTHER -> -1
POpCellId(s, o) == CASE o.op \in {"add_cell", "remove_cell", "NewCell", "DelCell", "PinCell"} -> o.i
                     [] o.op \in {"UnpinCell", "CellReplace"} -> IF o.i \in DOMAIN s.C THEN s.C[o.i].id ELSE -1
                     [] OTHER -> -1

\* verdict on one step: [fails, kf, hits]. h = the contract history BEFORE the step.
\* Clauses about an id outside the contract (h.tE / h.tC) are not judged.
PJudgeStep(pre, h, o, post, ret, raised, unr) ==
  LET ei == POpEdgeId(pre, o)
      ci == POpCellId(pre, o)
      inE == ei \notin h.tE
      inC == ci \notin h.tC
      dupE == ei \in h.dE \/ (o.op = "NewEdge" /\ ei \in PLiveEdgeIds(pre))
      dupC == ci \in h.dC \/ (o.op = "NewCell" /\ ci \in PLiveCellIds(pre))
      legit == PLegit(pre, o)
      \* a registration left behind by an earlier Cell.replace_vertex is in the way of this cell id
      kfC == IF dupC THEN "KF_SameIdAlive" ELSE IF \E x \in h.st : x[2] = ci THEN "KF_CellReplaceKeepsOld" ELSE ""
      \* clause name, applicable, holds, known-finding matcher ("" = none)
      rows == <<
        <<"PRIM.add_reports_change", PIsAdd(o.op), PIsAdd(o.op) => PDAdd(pre, o, post, ret, raised), "">>,
        <<"PRIM.remove_returns_list", PIsRemove(o.op), PIsRemove(o.op) => PDRemove(pre, o, post, ret, raised), "">>,
        <<"PRIM.del_edge_exact", o.op = "DelEdge" /\ inE, o.op = "DelEdge" => PDDelEdge(pre, o, post, raised), "">>,
        <<"PRIM.last_reference_deregisters", o.op = "UnpinEdge" /\ inE, o.op = "UnpinEdge" => PDUnpinEdge(pre, o, post, raised), "">>,
        <<"PRIM.new_edge_registers", o.op = "NewEdge" /\ inE,
          o.op = "NewEdge" => PDNewEdge(pre, o, post, raised), IF dupE THEN "KF_SameIdAlive" ELSE "">>,
        <<"PRIM.edge_replace_maps", o.op = "EdgeReplace" /\ inE /\ o.i \in PLiveE(pre) /\ legit /\ ~dupE,
          (o.op = "EdgeReplace" /\ o.i \in PLiveE(pre) /\ legit) => PDEdgeReplace(pre, o, post, raised), "">>,
        <<"PRIM.new_cell_registers", o.op = "NewCell" /\ inC /\ legit,
          (o.op = "NewCell" /\ legit) => PDNewCell(pre, o, post, raised), kfC>>,
        <<"PRIM.del_cell_exact", o.op = "DelCell" /\ inC /\ ~dupC,
          o.op = "DelCell" => PDDelCell(pre, o, post, raised, unr), "">>,
        <<"PRIM.cell_replace_maps", o.op = "CellReplace" /\ inC /\ o.i \in PLiveC(pre) /\ legit /\ o.a \in PRg(pre.C[o.i].vs)
                                     /\ NoDup(pre.C[o.i].vs),
          (o.op = "CellReplace" /\ o.i \in PLiveC(pre) /\ legit /\ o.a \in PRg(pre.C[o.i].vs) /\ NoDup(pre.C[o.i].vs))
             => PDCellReplace(pre, o, post, raised), "">>,
        <<"PRIM.refusal_changes_nothing", raised # "" /\ inE /\ inC /\ (o.op = "NewBigEdge" => o.i \notin h.tB),
          raised # "" => post = pre,
          IF o.op = "NewBigEdge" THEN "KF_BigEdgeNeverDeregisters" ELSE IF dupE THEN "KF_SameIdAlive" ELSE kfC>>,
        <<"PRIM.destructor_silent", inE /\ inC /\ o.op \in {"NewCell", "DelCell", "UnpinCell"},
          unr = 0, kfC>> >>
      app == {j \in DOMAIN rows : rows[j][2]}
      bad == {j \in app : ~rows[j][3]}
  IN  [fails |-> {rows[j][1] : j \in {x \in bad : rows[x][4] = ""}},
       kf    |-> {rows[j][4] \o ":" \o rows[j][1] : j \in {x \in bad : rows[x][4] # ""}},
       hits  |-> {rows[j][1] : j \in app}]

\* get_next_vertex / get_previous_vertex on a simple cycle with non-zero area: inverse cyclic successors
PDNavOK(vs, sg, nx, pv) ==
  LET n == Len(vs) IN
  \A j \in 1..n : LET h == vs[j] IN
     /\ nx[h] \in {vs[Nxt(j, n)], vs[Prv(j, n)]} /\ pv[h] \in {vs[Nxt(j, n)], vs[Prv(j, n)]}
     /\ (n >= 3 => nx[h] # pv[h])
     /\ nx[h] \in PRg(vs) /\ pv[nx[h]] = h /\ pv[h] \in PRg(vs) /\ nx[pv[h]] = h
     /\ nx[h] = vs[(IF sg > 0 THEN Nxt(j, n) ELSE Prv(j, n))]               \* storage direction follows the area sign
=============================================================================

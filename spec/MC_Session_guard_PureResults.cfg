SPECIFICATION MCSpec
CONSTANT Limits = {"pi", "low", "inf"}
CONSTANT Fits = {"dlite", "taubinSVD"}
CONSTANT BModes = {"static", "velocity"}
CONSTANT PressuresKeyed = TRUE
CONSTANT ExcludedReset = TRUE
CONSTANT WalkLen = 12
VIEW View
CHECK_DEADLOCK FALSE
CONSTANT NF = 2
CONSTANT Methods = {"default", "lsq_linear", "fix_stress"}
CONSTANT MaxDepth = 8
INVARIANT G_PureResults
CONSTRAINT DepthOK

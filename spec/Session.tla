------------------------------ MODULE Session ------------------------------
(***************************************************************************)
(* C10 - implementation-shaped state machine of one `ForSys` object over    *)
(* the frames 0..NF-1 of a series (forsys/forsys.py, fmatrix.py, frames.py, *)
(* general_matrix.py, pmatrix.py), with symbolic result values.             *)
(*                                                                         *)
(* Series (supplied by the driver from the REAL series, see c10.py):        *)
(*   Series.frames[t+1] = [nb       number of interfaces (BigEdges),        *)
(*                         nc       number of cells,                        *)
(*                         internal interface index of the i-th internal    *)
(*                                  interface (order of internal_big_edges),*)
(*                         pos      inverse: pos[j] = i, or 0 if j is not   *)
(*                                  in the internal list,                   *)
(*                         ext      BigEdge.external per interface,         *)
(*                         excl     excl[limit][fit] = positions i excluded *)
(*                                  by that angle limit (computed once by   *)
(*                                  the real code on a fresh object; the    *)
(*                                  C16 check owns its correctness)]        *)
(*                                                                         *)
(* Every action is `guard /\ Apply(XxxPost(args))` where XxxPost is a pure  *)
(* operator of the CURRENT state returning the complete successor as a      *)
(* record, so that Trace_Session can compute the successor unprimed and     *)
(* compare it with what the implementation shows (TLC idiom: never evaluate *)
(* a LET-heavy operator under a prime).                                     *)
(***************************************************************************)
EXTENDS Integers, Sequences, FiniteSets, TLC, Json, IOUtils

\* a definition, not a CONSTANT: TLC evaluates it once at start-up (env C10_SERIES = path of the JSON file)
Series == JsonDeserialize(IOEnv.C10_SERIES)

CONSTANTS NF,              \* frames 0..NF-1 are used (NF <= Series.nf)
          Limits, Fits,    \* angle-limit classes {"pi","low","inf"}, circle fits {"dlite","taubinSVD"}
          Methods, BModes, \* solve_stress: method {"default","lsq_linear","lsq","fix_stress"}, b_matrix {"static","velocity"}
          PressuresKeyed,  \* FALSE: `self.pressures = <list>` (the code as it is); TRUE: `self.pressures[when] = <list>`
          ExcludedReset    \* FALSE: solve leaves the mesh edges of excluded interfaces untouched (the code as it is);
                           \* TRUE: solve resets them to 0 (proposed repair of the stale-tension defect)

VARIABLES fmat,      \* [t -> NoFM | [has, limit, fit, shrunk]]      ForSys.force_matrices
          pmat,      \* [t -> NoTab | Tab(tension snapshot)]          ForSys.pressure_matrices (rhs uses BigEdge.tension at build time)
          edgeT,     \* [t -> [interface -> value]]                   SmallEdge.tension of the interface's mesh edges
          ifcT,      \* [t -> [interface -> value]]                   BigEdge.tension
          cellP,     \* [t -> [cell -> value]]                        Cell.pressure
          forces,    \* [t -> NoTab | Tab(seq over internal pos)]     ForSys.forces[t]  (= Frame.forces, same object)
          pressures, \* [kind, from, d, l]                            ForSys.pressures
          last,      \* ghost: arguments of the last calls per frame
          fixed      \* ghost: a solve_stress(method="fix_stress") was attempted on frame t
svars == <<fmat, pmat, edgeT, ifcT, cellP, forces, pressures, last, fixed>>

Frames == 0..(NF - 1)
FR(t) == Series.frames[t + 1]
NB(t) == FR(t).nb
NC(t) == FR(t).nc
NI(t) == Len(FR(t).internal)
IntAt(t, i) == FR(t).internal[i]
Pos(t, j) == FR(t).pos[j]
IsExt(t, j) == FR(t).ext[j]
Excl(t, limit, fit) == LET s == FR(t).excl[limit][fit] IN {s[q] : q \in DOMAIN s}

(* ---- symbolic values ---------------------------------------------------- *)
Zero == <<"Z">>        \* 0.0 (initial tension of every mesh edge / interface)
MinusOne == <<"M">>    \* -1 re-inserted by get_solution_no_discarded
NoVal == <<"N">>       \* None (initial Cell.pressure)
Junk == <<"J">>        \* unspecified value written by a solve on a column-shrunk matrix
Key(l, f, m, b) == <<l, f, m, b>>
Sol(t, k, i) == <<"S", t, k, i>>        \* i-th entry of the solution of frame t under build/solve options k
Pres(t, snap, c) == <<"P", t, snap, c>> \* pressure of cell c of frame t from tension snapshot `snap`

NoTab == [has |-> FALSE, v |-> <<>>]
Tab(s) == [has |-> TRUE, v |-> s]
NoFM == [has |-> FALSE, limit |-> "", fit |-> "", shrunk |-> FALSE]
FM(l, f) == [has |-> TRUE, limit |-> l, fit |-> f, shrunk |-> FALSE]
NoBuild == [has |-> FALSE, limit |-> "", fit |-> ""]
NoStress == [has |-> FALSE, limit |-> "", fit |-> "", method |-> "", bm |-> ""]
Last0 == [build |-> NoBuild, stress |-> NoStress, pbuilt |-> NoTab, psnap |-> NoTab]
NoStore == [t \in Frames |-> NoTab]
Pressures0 == [kind |-> "dict", from |-> -1, d |-> NoStore, l |-> <<>>]

InitVal == [fmat |-> [t \in Frames |-> NoFM],
            pmat |-> [t \in Frames |-> NoTab],
            edgeT |-> [t \in Frames |-> [j \in 1..NB(t) |-> Zero]],
            ifcT |-> [t \in Frames |-> [j \in 1..NB(t) |-> Zero]],
            cellP |-> [t \in Frames |-> [c \in 1..NC(t) |-> NoVal]],
            forces |-> [t \in Frames |-> NoTab],
            pressures |-> Pressures0,
            last |-> [t \in Frames |-> Last0],
            fixed |-> [t \in Frames |-> FALSE]]

Cur == [fmat |-> fmat, pmat |-> pmat, edgeT |-> edgeT, ifcT |-> ifcT, cellP |-> cellP, forces |-> forces,
        pressures |-> pressures, last |-> last, fixed |-> fixed]

Is(r) == /\ fmat = r.fmat /\ pmat = r.pmat /\ edgeT = r.edgeT /\ ifcT = r.ifcT /\ cellP = r.cellP
         /\ forces = r.forces /\ pressures = r.pressures /\ last = r.last /\ fixed = r.fixed
Apply(r) == /\ fmat' = r.fmat /\ pmat' = r.pmat /\ edgeT' = r.edgeT /\ ifcT' = r.ifcT /\ cellP' = r.cellP
            /\ forces' = r.forces /\ pressures' = r.pressures /\ last' = r.last /\ fixed' = r.fixed

Init == Is(InitVal)

(* ---- build_force_matrix(when=t, angle_limit, circle_fit_method): a NEW ForceMatrix ---- *)
BuildForcePost(t, l, f) ==
  [Cur EXCEPT !.fmat[t] = FM(l, f),
              !.last[t].build = [has |-> TRUE, limit |-> l, fit |-> f]]
BuildForce(t, l, f) == Apply(BuildForcePost(t, l, f))

(* ---- solve_stress(when=t, method, b_matrix) -------------------------------------------- *)
(* KeyError unless force_matrices[t] exists (precondition).                                 *)
(* ForceMatrix.solve writes xres[k] onto the mesh edges of the k-th interface of            *)
(* big_edges_to_use ONLY (excluded interfaces keep whatever they carried), returns xres     *)
(* with -1 re-inserted at excluded positions; ForSys stores it under forces[t] and          *)
(* Frame.forces, then assign_tensions_to_big_edges sets BigEdge.tension := mean over the    *)
(* interface's mesh edges for ALL interfaces.                                               *)
(* method="fix_stress": fix_one_stress deletes a column of the STORED matrix in place, then *)
(* the shape error (m,1)-(m,) makes nnls raise ValueError: nothing else is written.          *)
(* Any later solve on that matrix object writes shifted values (the last one the Lagrange   *)
(* multiplier) onto the used interfaces' mesh edges and then raises IndexError in           *)
(* get_solution_no_discarded: forces[t], Frame.forces, BigEdge.tension stay as they were.   *)
SolveStressEnabled(t) == fmat[t].has
SolveStressRaises(t, m) == m = "fix_stress" \/ fmat[t].shrunk
SolveStressPost(t, m, b) ==
  LET fm == fmat[t]
      ex == Excl(t, fm.limit, fm.fit)
      k  == Key(fm.limit, fm.fit, m, b)
  IN  IF m = "fix_stress"
      THEN [Cur EXCEPT !.fmat[t].shrunk = TRUE, !.fixed[t] = TRUE]
      ELSE IF fm.shrunk
      THEN [Cur EXCEPT !.edgeT[t] = [j \in 1..NB(t) |->
                                       IF Pos(t, j) > 0 /\ Pos(t, j) \notin ex THEN Junk ELSE edgeT[t][j]]]
      ELSE LET new == [j \in 1..NB(t) |->
                         IF Pos(t, j) > 0 /\ Pos(t, j) \notin ex THEN Sol(t, k, Pos(t, j))
                         ELSE IF Pos(t, j) > 0 /\ ExcludedReset THEN Zero ELSE edgeT[t][j]]
           IN  [Cur EXCEPT !.edgeT[t] = new,
                           !.ifcT[t] = new,
                           !.forces[t] = Tab([i \in 1..NI(t) |-> IF i \in ex THEN MinusOne ELSE Sol(t, k, i)]),
                           !.last[t].stress = [has |-> TRUE, limit |-> fm.limit, fit |-> fm.fit,
                                               method |-> m, bm |-> b]]
SolveStress(t, m, b) == SolveStressEnabled(t) /\ Apply(SolveStressPost(t, m, b))

(* ---- build_pressure_matrix(when=t): rhs rows use BigEdge.tension of every internal interface ---- *)
Snapshot(t) == [i \in 1..NI(t) |-> ifcT[t][IntAt(t, i)]]
BuildPressurePost(t) ==
  [Cur EXCEPT !.pmat[t] = Tab(Snapshot(t)), !.last[t].pbuilt = Tab(Snapshot(t))]
BuildPressure(t) == Apply(BuildPressurePost(t))

(* ---- solve_pressure(when=t, method="lagrange_pressure") ------------------------------------- *)
(* `self.pressures = self.pressure_matrices[when].solve_system(...)` REPLACES the per-frame dict  *)
(* by the result list (keyed = FALSE); the repaired code keeps the dict (keyed = TRUE).           *)
SolvePressureEnabled(t) == pmat[t].has
SolvePressurePostK(t, keyed) ==
  LET vals == [c \in 1..NC(t) |-> Pres(t, pmat[t].v, c)]
  IN  [Cur EXCEPT !.cellP[t] = vals,
                  !.pressures = IF keyed
                                THEN [kind |-> "dict", from |-> -1,
                                      d |-> [pressures.d EXCEPT ![t] = Tab(vals)], l |-> <<>>]
                                ELSE [kind |-> "list", from |-> t, d |-> NoStore, l |-> vals],
                  !.last[t].psnap = pmat[t]]
SolvePressurePost(t) == SolvePressurePostK(t, PressuresKeyed)
SolvePressure(t) == SolvePressureEnabled(t) /\ Apply(SolvePressurePost(t))

(* ---- get_system_velocity_per_frame(time_interval, angle_limit): documented side effect: ------ *)
(* rebuilds the force matrix of every frame it visits (circle fit = default dlite)               *)
SystemVelocityPostOn(S, l) ==
  [Cur EXCEPT !.fmat = [t \in Frames |-> IF t \in S THEN FM(l, "dlite") ELSE fmat[t]],
              !.last = [t \in Frames |-> IF t \in S
                                         THEN [last[t] EXCEPT !.build = [has |-> TRUE, limit |-> l, fit |-> "dlite"]]
                                         ELSE last[t]]]
SystemVelocity(l) == Apply(SystemVelocityPostOn(Frames, l))

Next == \/ \E t \in Frames, l \in Limits, f \in Fits : BuildForce(t, l, f)
        \/ \E t \in Frames, m \in Methods, b \in BModes : SolveStress(t, m, b)
        \/ \E t \in Frames : BuildPressure(t)
        \/ \E t \in Frames : SolvePressure(t)
        \/ \E l \in Limits : SystemVelocity(l)
Spec == Init /\ [][Next]_svars

(***************************************************************************)
(* The ideal: what a FRESH object reports for frame t after                 *)
(*   build_force_matrix(last build args) ; solve_stress(last solve args) ;  *)
(*   [tensions present at the last build_pressure_matrix] ; solve_pressure  *)
(* (DESIGN 5.5: "last call's arguments" per frame; a call that raised        *)
(* reports nothing, the previous results must stand).                       *)
(***************************************************************************)
StressKey(s) == Key(s.limit, s.fit, s.method, s.bm)
IdealForces(t) ==
  LET s == last[t].stress IN
  IF ~s.has THEN NoTab
  ELSE Tab([i \in 1..NI(t) |-> IF i \in Excl(t, s.limit, s.fit) THEN MinusOne ELSE Sol(t, StressKey(s), i)])
IdealIfc(t, j) ==
  LET s == last[t].stress
      p == Pos(t, j)
  IN  IF s.has /\ p > 0 /\ p \notin Excl(t, s.limit, s.fit) THEN Sol(t, StressKey(s), p) ELSE Zero
IdealCellP(t) ==
  IF last[t].psnap.has THEN [c \in 1..NC(t) |-> Pres(t, last[t].psnap.v, c)] ELSE [c \in 1..NC(t) |-> NoVal]

Solved(t) == last[t].stress.has
PSolved(t) == last[t].psnap.has
ExclNow(t) == Excl(t, last[t].stress.limit, last[t].stress.fit)

\* per-frame deviations from the ideal (written as plain quantifiers: cheap for TLC)
DevForcesAt(t) == forces[t] # IdealForces(t)
DevEdgeAt(t, j) == edgeT[t][j] # IdealIfc(t, j)
DevIfcAt(t, j) == ifcT[t][j] # IdealIfc(t, j)
DevCellPAt(t) == cellP[t] # IdealCellP(t)

PureResults == \A t \in Frames : /\ ~DevForcesAt(t) /\ ~DevCellPAt(t)
                                  /\ \A j \in 1..NB(t) : ~DevEdgeAt(t, j) /\ ~DevIfcAt(t, j)

(* Aligned: after solving t, forces[t][i] is the value on the i-th internal interface and on its mesh
   edges unless excluded; externals stay zero (table rows = the interfaces' own stored values in the
   order of the internal list: `TableRow`). *)
TableRow(t, i) == <<IntAt(t, i), ifcT[t][IntAt(t, i)]>>
AlignedAt(t) ==
  Solved(t) =>
    /\ forces[t].has /\ Len(forces[t].v) = NI(t)
    /\ \A i \in 1..NI(t) : i \notin ExclNow(t) =>
          /\ forces[t].v[i] = ifcT[t][IntAt(t, i)]
          /\ forces[t].v[i] = edgeT[t][IntAt(t, i)]
          /\ TableRow(t, i) = <<IntAt(t, i), forces[t].v[i]>>
    /\ \A j \in 1..NB(t) : IsExt(t, j) => ifcT[t][j] = Zero /\ edgeT[t][j] = Zero
Aligned == \A t \in Frames : AlignedAt(t)

(* KeyedStores: forces[t] / pressures[t] hold frame t's results under key t *)
OfFrame(v, t, i) == v = MinusOne \/ (v[1] = "S" /\ v[2] = t /\ v[4] = i)
KeyedForces == \A t \in Frames :
   IF Solved(t) THEN forces[t].has /\ \A i \in 1..NI(t) : OfFrame(forces[t].v[i], t, i)
   ELSE ~forces[t].has
KeyedPressures ==
   /\ pressures.kind = "dict"
   /\ \A t \in Frames : IF PSolved(t) THEN pressures.d[t] = Tab(cellP[t]) /\ cellP[t] = IdealCellP(t)
                        ELSE ~pressures.d[t].has
KeyedStores == KeyedForces /\ KeyedPressures

(***************************************************************************)
(* Known-finding matchers (instance level). The invariants that are         *)
(* checked are "holds except for instances matched by a KF predicate".      *)
(***************************************************************************)
\* interface j of frame t is excluded under the matrix of the last solve and still carries, on its
\* mesh edges (hence on the interface after the mean), the value an EARLIER solve wrote there
KF_StaleExcluded(t, j) ==
  LET p == Pos(t, j)
      v == edgeT[t][j]
  IN  /\ Solved(t) /\ p > 0 /\ p \in ExclNow(t)
      /\ v[1] = "S" /\ v[2] = t /\ v[4] = p /\ v[3] # StressKey(last[t].stress)
\* the `pressures` store is not keyed by frame (it has been replaced by the last result list)
KF_PressuresOverwritten == pressures.kind # "dict"
\* a fix_stress solve was attempted on frame t (column deleted in place, ValueError; later solves on
\* that matrix write junk onto mesh edges and raise IndexError)
KF_FixStress(t) == fixed[t]

PureResultsX == \A t \in Frames :
  \/ KF_FixStress(t) /\ ~DevCellPAt(t)
  \/ /\ ~DevForcesAt(t) /\ ~DevCellPAt(t)
     /\ \A j \in 1..NB(t) :
          \/ ~DevEdgeAt(t, j) /\ ~DevIfcAt(t, j)
          \/ KF_StaleExcluded(t, j) /\ ifcT[t][j] = edgeT[t][j]
AlignedX == \A t \in Frames : AlignedAt(t) \/ KF_FixStress(t)
KeyedStoresX == KeyedForces /\ (KeyedPressures \/ KF_PressuresOverwritten)

\* vacuity guards: each is EXPECTED TO BE VIOLATED on the unchanged design (the matcher is reachable)
Guard_StaleExcluded == \A t \in Frames : \A j \in 1..NB(t) : ~KF_StaleExcluded(t, j)
Guard_PressuresOverwritten == ~KF_PressuresOverwritten
Guard_FixStress == \A t \in Frames : ~(KF_FixStress(t) /\ (DevForcesAt(t) \/ \E j \in 1..NB(t) : DevEdgeAt(t, j)))
=============================================================================

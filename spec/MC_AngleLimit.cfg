SPECIFICATION Spec
INVARIANT Aligned
INVARIANT WriteBackAligned
INVARIANT ExcludedIffBothEnds
INVARIANT NothingFlaggedNothingExcluded
CHECK_DEADLOCK FALSE

SPECIFICATION SimSpec
CONSTANT Limits = {"pi", "low", "inf"}
CONSTANT Fits = {"dlite", "taubinSVD"}
CONSTANT BModes = {"static", "velocity"}
CONSTANT PressuresKeyed = TRUE
CONSTANT ExcludedReset = TRUE
CONSTANT WalkLen = 12
VIEW View
CHECK_DEADLOCK FALSE
CONSTANT NF = 3
CONSTANT Methods = {"default", "lsq_linear", "lsq", "fix_stress"}
CONSTANT MaxDepth = 99
INVARIANT AlignedX
INVARIANT KeyedStoresX
INVARIANT PureResultsX
INVARIANT EmitWalk

#!/venv/bin/python
"""tools/seed_index.py — writes seeded/INDEX.md (full table) and prints the compact table used in DESIGN.md §11.5"""
import json, os, glob, re
rows = []
for d in sorted(glob.glob("/verif/seeded/*/meta.json"), key=lambda p: (re.sub(r"[a-z]?-\d+$", "", p.split("/")[-2]), p)):
    m = json.load(open(d))
    sid = d.split("/")[-2]
    checks = m.get("results", {}).get("checks", {})
    det = "; ".join(f"{k}: {', '.join(c.replace('KF_', '(unlisted) KF_') if c.startswith('KF_') else c for c in v['clauses'][:3])}"
                    for k, v in sorted(checks.items()) if v["exit"] == 1) or "**none**"
    quiet = ", ".join(k for k, v in sorted(checks.items()) if v["exit"] == 0) or "—"
    rows.append((sid, m, det, quiet))
with open("/verif/seeded/INDEX.md", "w") as f:
    f.write("# Seeded changes (independent sub-agents; see DESIGN.md §11.5)\n\n"
            "| seed | change | needs to manifest | detected by (clauses) | quiet | history |\n|---|---|---|---|---|---|\n")
    for sid, m, det, quiet in rows:
        esc = lambda s: str(s).replace("|", "/").replace("\n", " ")
        f.write(f"| {sid} | {esc(m['summary'])} | {esc(m.get('needs_to_manifest', ''))} | {esc(det)} | {quiet} | {esc(m.get('history', ''))} |\n")
print("| seed | file(s) | detected by | checks that stayed quiet |")
print("|------|---------|-------------|--------------------------|")
for sid, m, det, quiet in rows:
    files = ", ".join(os.path.basename(x) for x in m.get("files", []))
    names = ", ".join(sorted(m.get("detected_by", []))) or "**none**"
    print(f"| {sid} | {files} | {names} | {quiet} |")

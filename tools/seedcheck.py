#!/venv/bin/python
"""Confirm a seeded change and run checks against it.
usage: tools/seedcheck.py <patch.diff> <demo.py> [--suite] [--checks C01,C02] [--tier quick] [--seed 0]
Creates a scratch worktree of /repo under /tmp/seedwt, applies the patch, (optionally) runs the repository's test suite,
runs the demo with and without the change, runs the named checks with VERIF_REPO=<worktree>, prints a JSON summary and
removes the worktree."""
import argparse, json, os, re, shutil, subprocess, sys, tempfile, time

ap = argparse.ArgumentParser()
ap.add_argument("patch"); ap.add_argument("demo")
ap.add_argument("--suite", action="store_true"); ap.add_argument("--checks", default="")
ap.add_argument("--tier", default="quick"); ap.add_argument("--seed", default="0")
a = ap.parse_args()
os.makedirs("/tmp/seedwt", exist_ok=True)
wt = tempfile.mkdtemp(prefix="wt_", dir="/tmp/seedwt")
os.rmdir(wt)
out = {"patch": a.patch}
def sh(cmd, **kw):
    return subprocess.run(cmd, shell=True, stdout=subprocess.PIPE, stderr=subprocess.STDOUT, text=True, **kw)
try:
    r = sh(f"git -C /repo worktree add -q {wt} HEAD")
    env = dict(os.environ, PYTHONPATH=wt)
    env.pop("FORSYS_VERIF", None)
    d0 = sh(f"/venv/bin/python {os.path.abspath(a.demo)}", cwd=wt, env=env)
    out["demo_without"] = d0.returncode
    r = sh(f"git -C {wt} apply --whitespace=nowarn {os.path.abspath(a.patch)}")
    out["apply_rc"] = r.returncode
    if r.returncode:
        out["apply_out"] = r.stdout[-500:]
    else:
        d1 = sh(f"/venv/bin/python {os.path.abspath(a.demo)}", cwd=wt, env=env)
        out["demo_with"] = d1.returncode
        out["demo_with_out"] = d1.stdout[-300:]
        if a.suite:
            t0 = time.time()
            s = sh("/venv/bin/python -m pytest -q -p no:cacheprovider -n 4 --timeout=900", cwd=wt, env=env)
            m = re.findall(r"(\d+) passed|(\d+) failed", s.stdout)
            out["suite"] = s.stdout.strip().splitlines()[-1][:120] if s.stdout.strip() else "no output"
            out["suite_s"] = round(time.time() - t0)
        for pid in [c for c in a.checks.split(",") if c]:
            e2 = dict(os.environ, VERIF_REPO=wt, VERIF_SEED=a.seed)
            c = sh(f"./check {pid} --tier {a.tier}", cwd="/verif", env=e2)
            viol = [l for l in c.stdout.splitlines() if l.startswith("VIOLATION")]
            clauses = sorted({re.search(r"clause=(\S+)", l).group(1) for l in viol if "clause=" in l})
            out[pid] = {"rc": c.returncode, "violations": len(viol), "clauses": clauses[:12],
                        "tail": "" if c.returncode in (0, 1) else c.stdout[-400:]}
finally:
    sh(f"git -C /repo worktree remove --force {wt}")
    shutil.rmtree(wt, ignore_errors=True)
print(json.dumps(out, indent=1))

#!/venv/bin/python
"""Regenerates /verif/MANIFEST.json from the table below (single source of truth for the interface).
A property is listed as a check iff harness/props/<id>.py exists AND it is in CLAIMED; all others go to
not_applicable with the stated reason."""
import json
import os

HERE = os.path.dirname(os.path.dirname(os.path.abspath(__file__)))
MC = "model_checking"
EX = "exploration"
T = {
 "C01": (EX, "§6.1", "TLC evaluates, on fixed-point logs of real solves of analytic equilibrium tissues (Maxwell-Voronoi and Moebius images), the premise (unit tangents, well-conditioned true system) and the claim (every inferred tension = true/mean true within a conditioning-derived tolerance). Inputs are sampled, the option grid is covered per batch.",
         "equilibrium generator closed forms; tolerance from the true system; known tangent defects excluded per case by TLA+ matchers",
         "TLA+ certificate (Trace_Inference.tla C01Solve) evaluated by TLC on traces of the real pipeline"),
 "C02": (MC, "§6.2", "Structure of the force system (columns, junction set, zero pattern, coefficient = outward unit tangent) is judged by TLC against Equations.tla on every sub-tissue of the catalogue tissues enumerated by TLC (sampled with a stride in quick) at exact, near-axis and random rotations, and on random Voronoi/Moebius tissues.",
         "true tangents from generator closed forms, self-consistency checked by TLC; tolerance 1e-2 per component; rotation angle sampled",
         "TLA+ spec (Equations.tla) + TLC sub-tissue enumeration replayed into the code + TLC trace validation"),
 "C04": (MC, "§6.4", "Row structure, centre-of-curvature sign rule, rhs = tension x turning, turning estimates, zero-sum normal equations, isolated cells, linearity and correlation are TLA+ clauses evaluated by TLC on every sub-tissue (with random orientation flips / shifts) of small arc tissues enumerated by TLC and on random equilibrium tissues.",
         "signed turning and left/right cells from generator closed forms; lagrange_pressure solver",
         "TLA+ spec (Trace_Inference.tla C04*, Certificates.tla) + TLC enumeration replayed into the code + TLC trace validation"),
 "C05": (EX, "§6.5", "KKT certificate of the non-negative least-squares optimum (closed-form multiplier) evaluated by TLC in fixed point on every logged solve; the certificate itself is brute-force validated by TLC (MC_KKT: sound on all tiny integer systems, exact gradient identity).",
         "spec-side augmented system built from the public matrix; tolerances 2e-3 on gradients",
         "TLA+ certificate (Certificates.tla) checked by TLC on traces + TLC meta-model-check of the certificate"),
 "C16": (MC, "§6.16", "Exclusion set, column order, -1 positions and the restricted solve are TLA+ clauses judged by TLC on catalogue tissues (incl. exactly straight-through pairs) and random tissues over a grid of limits; MC_AngleLimit explores the bookkeeping (flag subsets -> excluded set -> re-insertion alignment) exhaustively on small graphs.",
         "the rule is evaluated on the implementation's own unit tangents, which clause C16.directions compares with the true tangents of all interfaces at the junction, border ones included (known tangent defects excused); threshold band of 2e-4 in cosine rejected",
         "TLA+ spec + TLC model check of the exclusion bookkeeping + TLC trace validation"),
 "C08": (MC, "§6.8", "TLC enumerates every cell subset of the catalogue tissues x interior-point counts, checks the implementation-shaped decomposition against the declarative C08 verdict, and every enumerated instance is executed on the real Frame() and validated by TLC against the same verdict; random large tissues and fixtures are sampled.",
         "bounded-exhaustive over sub-tissues of the catalogue only; TLC, the Json module and the projection are trusted",
         "TLA+ spec (Interfaces.tla) + TLC bounded-exhaustive enumeration replayed into the code + TLC trace validation"),
 "C17": (MC, "§6.17", "TLC enumerates interface-list configurations (distinct, repeated, equal-valued, equal coordinates, arbitrary ids) x integer/half-integer rescale-offset placements x layers x integrate x image mode with value-pattern images, checks the model-level invariants, and every leaf is executed on the real get_intensities (integrate mode through one impulse per pixel and interface) and validated by TLC against the same clauses; random polyline lists and synthetic tissues in random float/8-bit images are sampled.",
         "bounded-exhaustive over the enumerated configurations only; Pillow pixel access, TLC/Json and the projection are trusted",
         "TLA+ spec (Myosin.tla) + TLC bounded enumeration replayed into the code + TLC trace validation with impulse-response characterisation of integrate mode"),
 "C19": (MC, "§6.19", "TLC enumerates abstract Voronoi outputs (patches of square, hexagonal and irregular regions, with empty and unbounded regions) x listing order x start corner x rotational sense per region x cut-off, checks the implementation-shaped walk against the declarative C19 verdict, and every enumerated instance is executed on the real create_lattice through a scipy.spatial.Voronoi stub and validated by TLC; real centre sets (random, jittered, exactly square/hexagonal, 6..300, ring, cut-off tight..infinite) are sampled through the real SciPy against the same verdict.",
         "bounded-exhaustive over the listed patches only; the real-SciPy part is sampling; SciPy's Voronoi is the definition of the diagram; TLC, the Json module and the projection are trusted",
         "TLA+ spec (Tessellation.tla) + TLC bounded-exhaustive enumeration replayed into the code via a Voronoi stub + TLC trace validation with exact integer geometry"),
 "C03": (EX, "§6.3", "TLC judges |x_i - T_i| <= tolerance on logged velocity-based solves of generated series whose junction displacement is exactly elapsed time x resultant of arbitrary positive tensions (forward, backward at the last frame), frames independently renumbered, unequal steps, three back-ends.",
         "truth from generator closed forms; tracking assumed correct for the small displacements (C12); conditioning-derived tolerance",
         "TLA+ certificate (Trace_Inference.tla C03Solve) evaluated by TLC on traces of the real pipeline"),
 "C06": (EX, "§6.6", "Two runs of one abstract tissue under two embeddings are keyed by physical interface/cell and compared by TLC (ComparePhys): tensions, pressures equal within conditioning-derived tolerances, coefficient pairs rotate/reflect with the tissue; known defects excuse a pair only through TLA+ matchers.",
         "tolerances from the true systems of both embeddings; unit changes of time and length (up to 1e6 / 1e-6) with adimensional velocities; a run that raises is compared too",
         "TLA+ equivariance predicate evaluated by TLC on paired traces of the real pipeline"),
 "C07": (MC, "§6.7", "All orientation patterns (2^cells) x random cyclic shifts x renumbering/storage order of small catalogue tissues and random tissues: two runs compared by TLC per physical interface/cell (same internal set, equations, coefficient pairs, tensions, pressures); MC_Equivariance checks exhaustively that the implementation-shaped decomposition operators are invariant under flips, shifts and renumbering.",
         "cells inserted in construction order; tensions compared when the true system is well conditioned",
         "TLA+ spec + TLC exhaustive equivariance check of the decomposition + TLC comparison of paired traces"),
 "C15": (EX, "§6.15", "Trace validation of the parsed and resampled mesh against an independent image analysis (numpy/scipy.ndimage): premise and all clauses evaluated by TLC. Bounded-exhaustive over all three-armed junction windows of a 5x5 (7x7 thorough) pixel window and all wall layouts of a 3x2 (3x3) room grid enumerated by TLC (MC_Skeleton, MC_SkeletonRooms) and replayed through the real parser; sampled rasterised Voronoi tissues (4-60 cells) and the shipped skeletons under 8 symmetries, padding, mirror_y, ne 3-9.",
         "OpenCV contour tracing is a black box; truth comes from the independent image analysis; premise (minimal 8-connected skeleton) evaluated by TLC from a logged pixel summary",
         "TLA+ outcome specification (Skeleton.tla) + TLC enumeration of pixel junctions / pixel tissues replayed into the parser + TLC trace validation"),
 "C18": (EX, "§6.18", "TLC judges, from logged per-cell/per-interface data, symmetry, zero-iff-empty, joint linearity (3 runs), pure-pressure isotropy, the full Batchelor sum and the eigen certificate of Frame.principal_stress at every decidable grid position, for catalogue and random Voronoi tissues x grids 1..12 x radii 0.5..6 x random/zero/negative/uniform assignments; the key/grid bookkeeping and the eigen certificate are model-checked exhaustively (grid sizes 1..12, all small symmetric matrices).",
         "sampled inputs; positions within the pi-gap or quantisation margin and degenerate interface vectors are rejected (counted); fixed point Q = 1e6",
         "TLA+ spec (StressTensor.tla) + TLC model of key injectivity and eigen-certificate meta-checks + TLC trace validation of the real stress_tensor"),
 "C10": (MC, "§6.10", "Explicit TLA+ state machine of the ForSys session (symbolic result terms) model-checked by TLC: NF=2 to 4 calls (quick) / 5 (thorough), NF=1 to 6 / 8, NF=3 to 4; invariants also on 12-call simulated walks. The real ForSys object is driven along TLC's counterexamples, a transition cover and 200 / 3000 twelve-call walks on a 3-frame 9-cell series per seed and judged by TLC after every call (floats projected to fresh-object symbols, rel 1e-9).",
         "bounded histories; one series per seed; reference = fresh object through the same calls; fix_stress frames masked by KF_FixStress",
         "TLA+ state machine (Session.tla) model-checked by TLC + TLC-generated behaviours replayed on the real object + TLC trace validation"),
 "C14": (MC, "§6.14", "TLC enumerates small abstract Surface Evolver dumps (1-3 faces of 3..8 signed edge references, id offsets/gaps, negative references, density present/absent/bare, unattached vertices and edges, body lines permuted) and EVERY cut of every face record into physical lines, checks the transcribed parser against the declarative statement, and every emitted instance is written by an independent serialiser, parsed by the real SurfaceEvolver, a Frame(gt=True) is built and TLC judges the projection clause by clause; large random dumps and the shipped dumps (independent reader) are exploration.",
         "exhaustive over wrappings x profiles in the stated bounds; character-level layout from the serialiser; rotation of the cycle accepted",
         "TLA+ spec (SEDump.tla) + TLC bounded-exhaustive enumeration replayed into the code + TLC trace validation"),
 "C12": (MC, "§6.12", "TLC explores the transcription of create_mapping/find_best/get_point_id_by_map on integer grids (0..120): all placements of N=3 (N=4 in thorough) junction sites x displacement stencil inside/outside the bounds x all numberings of both frames x partial/wrong guesses, invariants I=>D (range, injective, guess honoured, correct under the premise, round trip); sampled leaves are rebuilt as real Frames (necklace mesh) and, with random multi-frame series (random/affine/flowing fields, independent renumbering, cm on/off, guesses, disappearing vertices), validated by TLC against D with a TLC-evaluated premise.",
         "premise evaluated with a 2% margin (borderline inputs rejected); extent = the code's maxcoord; smallest spacing = minimum over both frames",
         "TLA+ spec (Tracking.tla) model-checked by TLC on integer grids + instances replayed on real Frames + TLC trace validation"),
 "C13": (MC, "§6.13", "TLC checks I=>D for calculate_velocity/set_velocity_matrix on enumerated two-frame integer series x numberings x unequal time stamps in exact rational arithmetic; instances are replayed on real Frames; random 2..6-frame series with unequal stamps are validated by TLC in fixed point against the finite-difference, backward-at-last, zero-without-partner, RHS-row, static-zero, adimensional mean-speed, normalisation and system-velocity clauses.",
         "tracked partner = the vertex the implementation's mapping designates (C12 owns its correctness); adimensional / system-velocity clauses are exploration",
         "TLA+ spec (Tracking.tla velocity part) model-checked by TLC + TLC trace validation of the real time series"),
 "C09": (MC, "§6.9", "MC_MeshEdits explores all sequences (depth 2 quick, 4 thorough) of the public edit operations with the code's register/unregister discipline on seed meshes; every behaviour is replayed on the real functions and judged by TLC (Consistent); every parser on all shipped dumps and images and on generated WKT, centre-set and contour inputs, followed by the full tree of generate_mesh/Frame sequences (depth 3/4), and all MC_Interfaces sub-tissues through generate_mesh and Frame, with Consistent judged by TLC after every step.",
         "sequences beyond the stated depth and alphabets are not explored; the skeleton clean-up blocks are replayed by executing their source text cut out of the repo at run time; parallel mesh edges do not violate C09",
         "TLA+ spec (Mesh.tla Consistent, MeshEdits.tla) + TLC enumeration of edit sequences replayed into the code + TLC trace validation (Trace_Edits)"),
 "C11": (MC, "§6.11", "TLC enumerates every cell subset of the catalogue tissues x interior points x ne x replace_short_edges, runs the TLA+ transcription of generate_mesh twice and checks it against the declarative C11 verdict and Consistent; every instance is executed twice on the real generate_mesh (placements at positive, negative and mixed coordinates and far from the origin), judged by TLC against the same verdict and compared with the transcription; random Voronoi tissues (k <= 40), all shipped dumps and skeleton images are sampled.",
         "bounded to catalogue sub-tissues; thorough covers k <= 16 for all hexflower subsets and k = 40 for subsets of <= 3 cells",
         "TLA+ spec (Resample.tla D, MeshEdits.tla I) + TLC bounded-exhaustive enumeration replayed into generate_mesh + TLC trace validation (Trace_Resample)"),
 "C20": (MC, "§6.20", "TLC enumerates all simple polygons with 3..5 vertices on a 4x4 grid (3..6 on 5x5 in thorough; simplicity decided in TLA+ by exact segment tests; both orientations, all cyclic shifts), checks the model-level identities, and every polygon is built as a real Cell under identity / translated / scaled / shifted / reversed variants and judged by TLC in exact integer arithmetic (area value and sign convention, reversal, shift, translation, scaling, perimeter between integer-sqrt bounds, next/previous navigation); every sub-tissue of small catalogue tissues for the tissue-level clauses (sum of |areas| = outline area, neighbours); random simple polygons up to 80 vertices.",
         "exact on integer coordinates; zero-area polygons rejected for the navigation clauses; hole-free decided by TLC from the outline",
         "TLA+ spec (CellGeom.tla) + TLC exhaustive polygon / sub-tissue enumeration replayed into the code + TLC trace validation"),
}
PENDING = "check not integrated yet (being built; see DESIGN.md Appendix D)"


def main():
    ids = [json.loads(l)["id"] for l in open(os.path.join(HERE, "properties.jsonl"))]
    checks, na = [], []
    for pid in ids:
        have = os.path.exists(os.path.join(HERE, "harness", "props", pid.lower() + ".py"))
        if pid in T and have:
            lvl, ref, text, note, tech = T[pid]
            checks.append({"property_id": pid, "quick_cmd": f"./check {pid} --tier quick", "thorough_cmd": f"./check {pid} --tier thorough",
                           "evidence_file": f"/verif/evidence/{pid}.json", "replay_cmd_template": f"./check {pid} --replay {{path}}",
                           "engine": "tlc", "level_claimed": {"category": lvl, "text": text, "design_ref": ref},
                           "level_note": note, "technique": tech})
        else:
            na.append({"property_id": pid, "reason": PENDING})
    m = {"version": 1, "setup_cmd": "./setup.sh",
         "hooks": {"guard": "FORSYS_VERIF", "enable": "env FORSYS_VERIF=1 (set by ./check; no in-source hook is currently needed: all tracing is external)",
                   "baseline_off_cmd": "cd /repo && env -u FORSYS_VERIF /venv/bin/python -m pytest -ra -q -p no:cacheprovider --timeout=900 --continue-on-collection-errors",
                   "source_commits": [], "add_only": True},
         "engines": [{"name": "tlc", "path": "/opt/veriftools/tla/tla2tools.jar", "serves_properties": [c["property_id"] for c in checks],
                      "kind_free_text": "TLC 1.8: MC_* bounded model checking (spec -> code instances) and Trace_* trace validation (code -> spec)"}],
         "checks": checks, "not_applicable": na,
         "notes": "All verdicts are TLA+ predicates evaluated by TLC; Python drives the implementation and projects state. See DESIGN.md."}
    json.dump(m, open(os.path.join(HERE, "MANIFEST.json"), "w"), indent=1)
    print("checks:", [c["property_id"] for c in checks], "n/a:", [x["property_id"] for x in na])


if __name__ == "__main__":
    main()

#!/venv/bin/python
"""Regenerates /verif/MANIFEST.json from the table below (single source of truth for the interface).
A property is listed as a check iff harness/props/<id>.py exists AND it is in CLAIMED; all others go to
not_applicable with the stated reason."""
import json
import os

HERE = os.path.dirname(os.path.dirname(os.path.abspath(__file__)))
MC = "model_checking"
EX = "exploration"
T = {
 "C01": (EX, "§6.1", "TLC evaluates, on fixed-point logs of real solves of analytic equilibrium tissues (Maxwell-Voronoi and Moebius images), the premise (unit tangents, well-conditioned true system) and the claim (every inferred tension = true/mean true within a conditioning-derived tolerance). Inputs are sampled, the option grid is covered per batch.",
         "equilibrium generator closed forms; tolerance from the true system; known tangent defects excluded per case by TLA+ matchers",
         "TLA+ certificate (Trace_Inference.tla C01Solve) evaluated by TLC on traces of the real pipeline"),
 "C02": (MC, "§6.2", "Structure of the force system (columns, junction set, zero pattern, coefficient = outward unit tangent) is judged by TLC against Equations.tla on every sub-tissue of the catalogue tissues enumerated by TLC (sampled with a stride in quick) at exact, near-axis and random rotations, and on random Voronoi/Moebius tissues.",
         "true tangents from generator closed forms, self-consistency checked by TLC; tolerance 1e-2 per component; rotation angle sampled",
         "TLA+ spec (Equations.tla) + TLC sub-tissue enumeration replayed into the code + TLC trace validation"),
 "C04": (MC, "§6.4", "Row structure, centre-of-curvature sign rule, rhs = tension x turning, turning estimates, zero-sum normal equations, isolated cells, linearity and correlation are TLA+ clauses evaluated by TLC on every sub-tissue (with random orientation flips / shifts) of small arc tissues enumerated by TLC and on random equilibrium tissues.",
         "signed turning and left/right cells from generator closed forms; lagrange_pressure solver",
         "TLA+ spec (Trace_Inference.tla C04*, Certificates.tla) + TLC enumeration replayed into the code + TLC trace validation"),
 "C05": (EX, "§6.5", "KKT certificate of the non-negative least-squares optimum (closed-form multiplier) evaluated by TLC in fixed point on every logged solve; the certificate itself is brute-force validated by TLC (MC_KKT: sound on all tiny integer systems, exact gradient identity).",
         "spec-side augmented system built from the public matrix; tolerances 2e-3 on gradients",
         "TLA+ certificate (Certificates.tla) checked by TLC on traces + TLC meta-model-check of the certificate"),
 "C16": (MC, "§6.16", "Exclusion set, column order, -1 positions and the restricted solve are TLA+ clauses judged by TLC on catalogue tissues (incl. exactly straight-through pairs) and random tissues over a grid of limits; MC_AngleLimit explores the bookkeeping (flag subsets -> excluded set -> re-insertion alignment) exhaustively on small graphs.",
         "directions = the implementation's own unit tangents (C02 judges them); threshold band of 2e-4 in cosine rejected",
         "TLA+ spec + TLC model check of the exclusion bookkeeping + TLC trace validation"),
 "C08": (MC, "§6.8", "TLC enumerates every cell subset of the catalogue tissues x interior-point counts, checks the implementation-shaped decomposition against the declarative C08 verdict, and every enumerated instance is executed on the real Frame() and validated by TLC against the same verdict; random large tissues and fixtures are sampled.",
         "bounded-exhaustive over sub-tissues of the catalogue only; TLC, the Json module and the projection are trusted",
         "TLA+ spec (Interfaces.tla) + TLC bounded-exhaustive enumeration replayed into the code + TLC trace validation"),
}
PENDING = "check not integrated yet (being built; see DESIGN.md Appendix D)"


def main():
    ids = [json.loads(l)["id"] for l in open(os.path.join(HERE, "properties.jsonl"))]
    checks, na = [], []
    for pid in ids:
        have = os.path.exists(os.path.join(HERE, "harness", "props", pid.lower() + ".py"))
        if pid in T and have:
            lvl, ref, text, note, tech = T[pid]
            checks.append({"property_id": pid, "quick_cmd": f"./check {pid} --tier quick", "thorough_cmd": f"./check {pid} --tier thorough",
                           "evidence_file": f"/verif/evidence/{pid}.json", "replay_cmd_template": f"./check {pid} --replay {{path}}",
                           "engine": "tlc", "level_claimed": {"category": lvl, "text": text, "design_ref": ref},
                           "level_note": note, "technique": tech})
        else:
            na.append({"property_id": pid, "reason": PENDING})
    m = {"version": 1, "setup_cmd": "./setup.sh",
         "hooks": {"guard": "FORSYS_VERIF", "enable": "env FORSYS_VERIF=1 (set by ./check; no in-source hook is currently needed: all tracing is external)",
                   "baseline_off_cmd": "cd /repo && env -u FORSYS_VERIF /venv/bin/python -m pytest -ra -q -p no:cacheprovider --timeout=900 --continue-on-collection-errors",
                   "source_commits": [], "add_only": True},
         "engines": [{"name": "tlc", "path": "/opt/veriftools/tla/tla2tools.jar", "serves_properties": [c["property_id"] for c in checks],
                      "kind_free_text": "TLC 1.8: MC_* bounded model checking (spec -> code instances) and Trace_* trace validation (code -> spec)"}],
         "checks": checks, "not_applicable": na,
         "notes": "All verdicts are TLA+ predicates evaluated by TLC; Python drives the implementation and projects state. See DESIGN.md."}
    json.dump(m, open(os.path.join(HERE, "MANIFEST.json"), "w"), indent=1)
    print("checks:", [c["property_id"] for c in checks], "n/a:", [x["property_id"] for x in na])


if __name__ == "__main__":
    main()

#!/venv/bin/python
"""Exact-string replacement in a repo file preserving its line terminators (the repo uses CRLF).
usage: repo_edit.py <file> <old-file> <new-file>   (old/new given as files with LF endings)"""
import sys
path, oldf, newf = sys.argv[1:4]
data = open(path, "rb").read()
crlf = b"\r\n" in data
old = open(oldf, "rb").read()
new = open(newf, "rb").read()
if crlf:
    old = old.replace(b"\r\n", b"\n").replace(b"\n", b"\r\n")
    new = new.replace(b"\r\n", b"\n").replace(b"\n", b"\r\n")
old = old.rstrip(b"\r\n")
new = new.rstrip(b"\r\n")
n = data.count(old)
if n != 1:
    sys.exit(f"expected exactly one occurrence, found {n}")
open(path, "wb").write(data.replace(old, new))
print("edited", path, "crlf" if crlf else "lf")

#!/venv/bin/python
"""tools/import_seed.py <ID> <n> <result.json> [<result2.json> ...] — store a confirmed seeded change under seeded/<ID>-<n>/"""
import json, os, shutil, sys
pid, n = sys.argv[1], sys.argv[2]
src = f"/tmp/wt/{pid}_out"
dst = f"/verif/seeded/{pid}-{n}"
os.makedirs(dst, exist_ok=True)
shutil.copy(f"{src}/change{n}.diff", f"{dst}/patch.diff")
shutil.copy(f"{src}/demo{n}.py", f"{dst}/demo.py")
meta = json.load(open(f"{src}/meta{n}.json"))
res = {}
for f in sys.argv[3:]:
    d = json.load(open(f))
    for k, v in d.items():
        if k in ("demo_without", "demo_with", "apply_rc", "suite"):
            res[k] = v
        elif isinstance(v, dict) and "rc" in v:
            res.setdefault("checks", {})[k] = {"exit": v["rc"], "violations": v["violations"], "clauses": v["clauses"]}
meta["breaks_property"] = pid
meta["what_was_run"] = ("tools/seedcheck.py: scratch worktree of /repo at HEAD, `git apply patch.diff`, demo.py with and without the change "
                        "(PYTHONPATH=<worktree>), then `VERIF_REPO=<worktree> ./check <ID> --tier quick` for the listed checks; the seeding "
                        "agent ran the repository's test suite with the change (41 passed, 3 skipped)")
meta["results"] = res
if os.environ.get("SEED_NOTE"):
    meta["history"] = os.environ["SEED_NOTE"]
meta["detected_by"] = sorted(k for k, v in res.get("checks", {}).items() if v["exit"] == 1)
json.dump(meta, open(f"{dst}/meta.json", "w"), indent=1)
print(dst, meta["detected_by"])

#!/venv/bin/python
"""prints the markdown table 'which checks catch which seeded changes' from seeded/*/meta.json"""
import glob, json, os
rows = []
for d in sorted(glob.glob("/verif/seeded/*/meta.json")):
    m = json.load(open(d))
    name = os.path.basename(os.path.dirname(d))
    checks = m.get("results", {}).get("checks", {})
    det = []
    for k, v in sorted(checks.items()):
        if v["exit"] == 1:
            det.append(f"{k}: " + ", ".join(c.replace("KF_", "(unlisted) KF_") for c in v["clauses"][:3]))
    missed = [k for k, v in sorted(checks.items()) if v["exit"] == 0]
    rows.append(f"| {name} | {m.get('summary', '')[:150]} | {m.get('needs_to_manifest', '')[:140]} | {'; '.join(det) or '—'} | {', '.join(missed) or '—'} |")
print("| seed | change | needs to manifest | detected by (clauses) | ran quietly |")
print("|------|--------|-------------------|-----------------------|-------------|")
print("\n".join(rows))

#!/bin/sh
# usage: tools/run_all.sh <tier> <seed> [ids...]  — runs the registered checks sequentially, prints one summary line each
tier=${1:-quick}; seed=${2:-0}; shift 2 2>/dev/null
cd "$(dirname "$0")/.."
ids="$@"
[ -z "$ids" ] && ids=$(/venv/bin/python -c "import json; print(' '.join(c['property_id'] for c in json.load(open('MANIFEST.json'))['checks']))")
mkdir -p run/_logs
for p in $ids; do
  start=$(date +%s)
  VERIF_SEED=$seed ./check $p --tier $tier > run/_logs/$p.$tier.$seed.log 2>&1
  rc=$?
  end=$(date +%s)
  echo "$p tier=$tier seed=$seed rc=$rc wall=$((end-start))s viol=$(grep -c '^VIOLATION' run/_logs/$p.$tier.$seed.log) $(grep "^$p $tier:" run/_logs/$p.$tier.$seed.log | cut -c1-150)"
done

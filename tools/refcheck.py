#!/venv/bin/python
"""tools/refcheck.py <patch> [--checks a,b,...] [--seed n] — negative control: apply a behaviour-preserving refactoring in a
scratch worktree of /repo, run the named checks (default: all 20 registered + the extension checks) against it and print
one JSON summary. A sound check stays quiet (exit 0) on every one of them."""
import argparse, json, os, re, shutil, subprocess, tempfile
ap = argparse.ArgumentParser()
ap.add_argument("patch"); ap.add_argument("--checks", default=""); ap.add_argument("--seed", default="0")
a = ap.parse_args()
checks = [c for c in a.checks.split(",") if c] or \
    [c["property_id"] for c in json.load(open("/verif/MANIFEST.json"))["checks"]] + \
    ["pipeline", "accel", "edits2", "reporting", "primitives", "tsqueries", "workflow"]
os.makedirs("/tmp/seedwt", exist_ok=True)
wt = tempfile.mkdtemp(prefix="rf_", dir="/tmp/seedwt")
os.rmdir(wt)
def sh(cmd, **kw):
    return subprocess.run(cmd, shell=True, stdout=subprocess.PIPE, stderr=subprocess.STDOUT, text=True, **kw)
out = {"patch": a.patch, "seed": a.seed}
try:
    sh(f"git -C /repo worktree add -q {wt} HEAD")
    r = sh(f"git -C {wt} apply --whitespace=nowarn {os.path.abspath(a.patch)}")
    out["apply_rc"] = r.returncode
    if r.returncode:
        out["apply_out"] = r.stdout[-300:]
    else:
        for pid in checks:
            c = sh(f"./check {pid} --tier quick", cwd="/verif", env=dict(os.environ, VERIF_REPO=wt, VERIF_SEED=a.seed))
            viol = [l for l in c.stdout.splitlines() if l.startswith("VIOLATION")]
            clauses = sorted({re.search(r"clause=(\S+)", l).group(1) for l in viol if "clause=" in l})
            out[pid] = {"rc": c.returncode, "violations": len(viol), "clauses": clauses[:8],
                        "tail": "" if c.returncode in (0, 1) else c.stdout[-400:]}
finally:
    sh(f"git -C /repo worktree remove --force {wt}")
    shutil.rmtree(wt, ignore_errors=True)
print(json.dumps(out, indent=1))
